// MIR fact extractor for the /verif static checks.
//
// Injected with RUSTC_WORKSPACE_WRAPPER under `cargo +nightly check`. For every
// workspace compilation unit it writes ONE json file (one write per process)
// into $CHIA_FACTS_DIR describing ADTs, evaluated constants, impls and the
// structured MIR of every function body. It does no judging.
#![feature(rustc_private)]
#![allow(clippy::all)]

extern crate rustc_abi;
extern crate rustc_driver;
extern crate rustc_hir;
extern crate rustc_interface;
extern crate rustc_middle;
extern crate rustc_session;
extern crate rustc_span;

use rustc_driver::Compilation;
use rustc_hir::def::DefKind;
use rustc_hir::def_id::{DefId, LOCAL_CRATE};
use rustc_middle::mir::{
    self, AggregateKind, AssertKind, BasicBlockData, Body, Const, Operand, Place, ProjectionElem,
    Rvalue, StatementKind, TerminatorKind,
};
use rustc_middle::ty::{self, Instance, Ty, TyCtxt, TypingEnv};
use rustc_span::Span;
use rustc_middle::ty::print::PrintTraitRefExt;

mod json;
use json::J;

struct Cb;

impl rustc_driver::Callbacks for Cb {
    fn after_analysis<'tcx>(
        &mut self,
        _c: &rustc_interface::interface::Compiler,
        tcx: TyCtxt<'tcx>,
    ) -> Compilation {
        if let Ok(dir) = std::env::var("CHIA_FACTS_DIR") {
            let name = tcx.crate_name(LOCAL_CRATE).to_string();
            if name != "build_script_build" {
                extract(tcx, &dir, &name);
            }
        }
        Compilation::Continue
    }
}

fn main() {
    let mut args: Vec<String> = std::env::args().collect();
    // RUSTC_WORKSPACE_WRAPPER passes the path of the real rustc as argv[1]
    if args.len() > 1 && !args[1].starts_with('-') {
        args.remove(1);
    }
    rustc_driver::run_compiler(&args, &mut Cb);
}

fn extra_filename() -> String {
    let args: Vec<String> = std::env::args().collect();
    let mut extra = String::new();
    let mut i = 0;
    while i < args.len() {
        if args[i] == "-C" && i + 1 < args.len() {
            if let Some(v) = args[i + 1].strip_prefix("extra-filename=") {
                extra = v.to_string();
            }
            i += 1;
        } else if let Some(v) = args[i].strip_prefix("-Cextra-filename=") {
            extra = v.to_string();
        }
        i += 1;
    }
    extra
}

fn arg_values(flag: &str) -> Vec<String> {
    let args: Vec<String> = std::env::args().collect();
    let mut out = vec![];
    let mut i = 0;
    while i < args.len() {
        if args[i] == flag && i + 1 < args.len() {
            out.push(args[i + 1].clone());
            i += 1;
        }
        i += 1;
    }
    out
}

struct Cx<'tcx> {
    tcx: TyCtxt<'tcx>,
}

impl<'tcx> Cx<'tcx> {
    fn path(&self, did: DefId) -> String {
        self.tcx.def_path_str(did)
    }

    fn span(&self, sp: Span) -> J {
        let sm = self.tcx.sess.source_map();
        let lo = sm.lookup_char_pos(sp.lo());
        let file = match &lo.file.name {
            rustc_span::FileName::Real(r) => match r.local_path() {
                Some(p) => p.to_string_lossy().to_string(),
                None => format!("{:?}", lo.file.name),
            },
            other => format!("{:?}", other),
        };
        J::Str(format!("{}:{}", file, lo.line))
    }

    fn line(&self, sp: Span) -> J {
        let sm = self.tcx.sess.source_map();
        let lo = sm.lookup_char_pos(sp.lo());
        J::Int(lo.line as i128)
    }

    fn expn(&self, sp: Span) -> J {
        if sp.from_expansion() {
            let d = sp.ctxt().outer_expn_data();
            let name = match d.kind {
                rustc_span::ExpnKind::Macro(_, sym) => sym.to_string(),
                rustc_span::ExpnKind::Desugaring(k) => format!("desugar:{:?}", k),
                rustc_span::ExpnKind::AstPass(k) => format!("astpass:{:?}", k),
                rustc_span::ExpnKind::Root => "root".to_string(),
            };
            J::Str(name)
        } else {
            J::Null
        }
    }

    fn ty(&self, t: Ty<'tcx>) -> J {
        J::Str(format!("{}", t))
    }

    fn place(&self, body: &Body<'tcx>, p: &Place<'tcx>) -> J {
        let mut o = J::obj();
        o.set("l", J::Int(p.local.as_u32() as i128));
        if !p.projection.is_empty() {
            let mut arr = vec![];
            let mut cur = mir::PlaceTy::from_ty(body.local_decls[p.local].ty);
            for elem in p.projection.iter() {
                let j = match elem {
                    ProjectionElem::Deref => J::Str("*".into()),
                    ProjectionElem::Field(f, fty) => {
                        let mut fo = J::obj();
                        fo.set("f", J::Int(f.as_u32() as i128));
                        // field name, if the base is an ADT
                        if let ty::Adt(adt, _) = cur.ty.kind() {
                            let vidx = cur.variant_index.unwrap_or(rustc_abi::FIRST_VARIANT);
                            if (vidx.as_usize()) < adt.variants().len() {
                                let v = adt.variant(vidx);
                                if f.as_usize() < v.fields.len() {
                                    fo.set("n", J::Str(v.fields[f].name.to_string()));
                                }
                            }
                            fo.set("of", J::Str(self.path(adt.did())));
                        }
                        fo.set("ty", self.ty(fty));
                        fo
                    }
                    ProjectionElem::Index(l) => {
                        let mut fo = J::obj();
                        fo.set("idx", J::Int(l.as_u32() as i128));
                        fo
                    }
                    ProjectionElem::ConstantIndex { offset, min_length, from_end } => {
                        let mut fo = J::obj();
                        fo.set("ci", J::Int(offset as i128));
                        fo.set("min", J::Int(min_length as i128));
                        fo.set("from_end", J::Bool(from_end));
                        fo
                    }
                    ProjectionElem::Subslice { from, to, from_end } => {
                        let mut fo = J::obj();
                        fo.set("sub", J::Int(from as i128));
                        fo.set("to", J::Int(to as i128));
                        fo.set("from_end", J::Bool(from_end));
                        fo
                    }
                    ProjectionElem::Downcast(name, vidx) => {
                        let mut fo = J::obj();
                        fo.set("dc", J::Int(vidx.as_u32() as i128));
                        if let Some(n) = name {
                            fo.set("n", J::Str(n.to_string()));
                        }
                        fo
                    }
                    ProjectionElem::OpaqueCast(_) => J::Str("opaque".into()),
                    ProjectionElem::UnwrapUnsafeBinder(_) => J::Str("unbind".into()),
                };
                arr.push(j);
                cur = cur.projection_ty(self.tcx, elem);
            }
            o.set("p", J::Arr(arr));
        }
        o
    }

    fn konst(&self, env: TypingEnv<'tcx>, c: &mir::ConstOperand<'tcx>) -> J {
        let mut o = J::obj();
        let t = c.const_.ty();
        o.set("ty", self.ty(t));
        match t.kind() {
            ty::FnDef(did, ga) => {
                o.set("fn", J::Str(self.path(*did)));
                o.set("fn_full", J::Str(self.tcx.def_path_str_with_args(*did, ga)));
                return o;
            }
            _ => {}
        }
        // name of an unevaluated named constant
        match c.const_ {
            Const::Unevaluated(uv, _) => {
                if uv.promoted.is_none() {
                    o.set("name", J::Str(self.path(uv.def)));
                } else {
                    o.set("promoted", J::Str(format!("{}::promoted[{}]", self.path(uv.def), uv.promoted.unwrap().as_u32())));
                }
            }
            Const::Ty(_, ct) => {
                if let ty::ConstKind::Param(p) = ct.kind() {
                    o.set("param", J::Str(p.name.to_string()));
                }
            }
            _ => {}
        }
        // scalar value
        if t.is_integral() || t.is_bool() || t.is_char() {
            if let Some(si) = c.const_.try_eval_scalar_int(self.tcx, env) {
                let size = si.size();
                let v: i128 = if t.is_signed() {
                    si.to_int(size)
                } else {
                    let u = si.to_uint(size);
                    if u > i128::MAX as u128 {
                        o.set("vs", J::Str(format!("{}", u)));
                        -1
                    } else {
                        u as i128
                    }
                };
                if !o.has("vs") {
                    o.set("v", J::Int(v));
                }
            }
        } else {
            // string / byte-string literals and everything else: printed form
            let s = format!("{}", c.const_);
            let s = if s.len() > 400 { format!("{}…", &s[..400]) } else { s };
            o.set("s", J::Str(s));
            if let Some(bytes) = self.const_bytes(env, c) {
                o.set("bytes", J::Arr(bytes.iter().map(|b| J::Int(*b as i128)).collect()));
            }
            if let ty::Array(e, _) = t.kind() {
                if *e == self.tcx.types.u8 {
                    let val = match c.const_ {
                        Const::Val(v, _) => Some(v),
                        Const::Unevaluated(..) | Const::Ty(..) => c.const_.eval(self.tcx, env, c.span).ok(),
                    };
                    if let Some(v) = val {
                        if let Some(J::Arr(items)) = self.const_value_json(v, t, 0) {
                            if items.len() <= 4096 && items.iter().all(|x| matches!(x, J::Int(_))) {
                                o.set("bytes", J::Arr(items));
                            }
                        }
                    }
                }
            }
            if let Some((v, ity)) = self.const_deref_int(env, c) {
                o.set("deref_v", J::Str(v));
                o.set("deref_ty", J::Str(ity));
            }
        }
        o
    }


    fn ref_bytes(&self, val: mir::ConstValue, inner: Ty<'tcx>) -> Option<Vec<u8>> {
        let tcx = self.tcx;
        match inner.kind() {
            ty::Str => {}
            ty::Slice(e) if *e == tcx.types.u8 => {}
            ty::Array(e, n) if *e == tcx.types.u8 => {
                // thin pointer to a byte array
                let len = n.try_to_target_usize(tcx)?;
                if len > 4096 {
                    return None;
                }
                if let mir::ConstValue::Scalar(rustc_middle::mir::interpret::Scalar::Ptr(ptr, _)) = val {
                    let (prov, offset) = ptr.prov_and_relative_offset();
                    let ga = tcx.try_get_global_alloc(prov.alloc_id())?;
                    let mem = match ga {
                        rustc_middle::mir::interpret::GlobalAlloc::Memory(m) => m,
                        _ => return None,
                    };
                    let a = mem.inner();
                    let start = offset.bytes() as usize;
                    let end = start + len as usize;
                    if end > a.len() {
                        return None;
                    }
                    let bytes = a.inspect_with_uninit_and_ptr_outside_interpreter(start..end);
                    return Some(bytes.to_vec());
                }
                return None;
            }
            _ => return None,
        }
        match val {
            mir::ConstValue::Slice { .. } | mir::ConstValue::Indirect { .. } => {
                let bytes = val.try_get_slice_bytes_for_diagnostics(tcx)?;
                if bytes.len() > 4096 {
                    return None;
                }
                Some(bytes.to_vec())
            }
            _ => None,
        }
    }


    /// value of a `&<integer>` constant (e.g. the promoted `&0b10_u8`)
    fn const_deref_int(&self, env: TypingEnv<'tcx>, c: &mir::ConstOperand<'tcx>) -> Option<(String, String)> {
        let tcx = self.tcx;
        let t = c.const_.ty();
        let inner = match t.kind() {
            ty::Ref(_, inner, _) => *inner,
            _ => return None,
        };
        if !(inner.is_integral() || inner.is_bool()) {
            return None;
        }
        let val = match c.const_ {
            Const::Val(v, _) => v,
            Const::Unevaluated(..) | Const::Ty(..) => c.const_.eval(tcx, env, c.span).ok()?,
        };
        let size = tcx.layout_of(env.as_query_input(inner)).ok()?.size.bytes() as usize;
        if let mir::ConstValue::Scalar(rustc_middle::mir::interpret::Scalar::Ptr(ptr, _)) = val {
            let (prov, offset) = ptr.prov_and_relative_offset();
            let ga = tcx.try_get_global_alloc(prov.alloc_id())?;
            let mem = match ga {
                rustc_middle::mir::interpret::GlobalAlloc::Memory(m) => m,
                _ => return None,
            };
            let a = mem.inner();
            let start = offset.bytes() as usize;
            let end = start + size;
            if end > a.len() || size > 16 {
                return None;
            }
            let bytes = a.inspect_with_uninit_and_ptr_outside_interpreter(start..end);
            let mut buf = [0u8; 16];
            buf[..size].copy_from_slice(bytes);
            let u = u128::from_le_bytes(buf);
            let s = if inner.is_signed() {
                let shift = 128 - (size as u32) * 8;
                format!("{}", ((u << shift) as i128) >> shift)
            } else {
                format!("{}", u)
            };
            return Some((s, format!("{}", inner)));
        }
        None
    }

    fn const_bytes(&self, env: TypingEnv<'tcx>, c: &mir::ConstOperand<'tcx>) -> Option<Vec<u8>> {
        let t = c.const_.ty();
        let inner = match t.kind() {
            ty::Ref(_, inner, _) => *inner,
            _ => return None,
        };
        match inner.kind() {
            ty::Str | ty::Slice(_) | ty::Array(..) => {}
            _ => return None,
        }
        let val = match c.const_ {
            Const::Val(v, _) => v,
            Const::Unevaluated(..) | Const::Ty(..) => c.const_.eval(self.tcx, env, c.span).ok()?,
        };
        self.ref_bytes(val, inner)
    }

    fn operand(&self, body: &Body<'tcx>, env: TypingEnv<'tcx>, op: &Operand<'tcx>) -> J {
        match op {
            Operand::Copy(p) => {
                let mut o = J::obj();
                o.set("cp", self.place(body, p));
                o
            }
            Operand::Move(p) => {
                let mut o = J::obj();
                o.set("mv", self.place(body, p));
                o
            }
            Operand::Constant(c) => {
                let mut o = J::obj();
                o.set("c", self.konst(env, c));
                o
            }
            #[allow(unreachable_patterns)]
            other => {
                let mut o = J::obj();
                o.set("other", J::Str(format!("{:?}", other)));
                o
            }
        }
    }

    fn rvalue(&self, body: &Body<'tcx>, env: TypingEnv<'tcx>, rv: &Rvalue<'tcx>) -> J {
        let mut o = J::obj();
        match rv {
            Rvalue::Use(op, ..) => {
                o.set("k", J::Str("use".into()));
                o.set("a", self.operand(body, env, op));
            }
            Rvalue::Repeat(op, n) => {
                o.set("k", J::Str("repeat".into()));
                o.set("a", self.operand(body, env, op));
                o.set("n", J::Str(format!("{}", n)));
            }
            Rvalue::Ref(_, bk, p) => {
                o.set("k", J::Str("ref".into()));
                let m = match bk {
                    mir::BorrowKind::Mut { .. } => "mut",
                    mir::BorrowKind::Shared => "shared",
                    mir::BorrowKind::Fake(_) => "fake",
                };
                o.set("m", J::Str(m.into()));
                o.set("pl", self.place(body, p));
            }
            Rvalue::RawPtr(k, p) => {
                o.set("k", J::Str("rawptr".into()));
                o.set("m", J::Str(format!("{:?}", k)));
                o.set("pl", self.place(body, p));
            }
            Rvalue::Cast(kind, op, t) => {
                o.set("k", J::Str("cast".into()));
                o.set("ck", J::Str(format!("{:?}", kind)));
                o.set("a", self.operand(body, env, op));
                o.set("from", self.ty(op.ty(&body.local_decls, self.tcx)));
                o.set("to", self.ty(*t));
            }
            Rvalue::BinaryOp(bop, ab) => {
                o.set("k", J::Str("bin".into()));
                o.set("op", J::Str(format!("{:?}", bop)));
                o.set("a", self.operand(body, env, &ab.0));
                o.set("b", self.operand(body, env, &ab.1));
                o.set("aty", self.ty(ab.0.ty(&body.local_decls, self.tcx)));
            }
            Rvalue::UnaryOp(uop, a) => {
                o.set("k", J::Str("un".into()));
                o.set("op", J::Str(format!("{:?}", uop)));
                o.set("a", self.operand(body, env, a));
            }
            Rvalue::Discriminant(p) => {
                o.set("k", J::Str("discr".into()));
                o.set("pl", self.place(body, p));
                let pty = p.ty(&body.local_decls, self.tcx).ty;
                o.set("of", self.ty(pty));
            }
            Rvalue::Aggregate(kind, ops) => {
                o.set("k", J::Str("agg".into()));
                match &**kind {
                    AggregateKind::Array(t) => {
                        o.set("ak", J::Str("array".into()));
                        o.set("ety", self.ty(*t));
                    }
                    AggregateKind::Tuple => {
                        o.set("ak", J::Str("tuple".into()));
                    }
                    AggregateKind::Adt(did, vidx, _ga, _, _) => {
                        o.set("ak", J::Str("adt".into()));
                        o.set("adt", J::Str(self.path(*did)));
                        let adt = self.tcx.adt_def(*did);
                        let v = adt.variant(*vidx);
                        o.set("variant", J::Str(v.name.to_string()));
                        o.set("vi", J::Int(vidx.as_u32() as i128));
                        o.set(
                            "fields",
                            J::Arr(v.fields.iter().map(|f| J::Str(f.name.to_string())).collect()),
                        );
                    }
                    AggregateKind::Closure(did, _) => {
                        o.set("ak", J::Str("closure".into()));
                        o.set("closure", J::Str(self.path(*did)));
                    }
                    AggregateKind::Coroutine(did, _) => {
                        o.set("ak", J::Str("coroutine".into()));
                        o.set("closure", J::Str(self.path(*did)));
                    }
                    AggregateKind::CoroutineClosure(did, _) => {
                        o.set("ak", J::Str("coroutine_closure".into()));
                        o.set("closure", J::Str(self.path(*did)));
                    }
                    AggregateKind::RawPtr(..) => {
                        o.set("ak", J::Str("rawptr".into()));
                    }
                }
                o.set("ops", J::Arr(ops.iter().map(|x| self.operand(body, env, x)).collect()));
            }
            Rvalue::CopyForDeref(p) => {
                o.set("k", J::Str("use".into()));
                let mut a = J::obj();
                a.set("cp", self.place(body, p));
                o.set("a", a);
            }
            Rvalue::ThreadLocalRef(did) => {
                o.set("k", J::Str("tls".into()));
                o.set("name", J::Str(self.path(*did)));
            }
            other => {
                o.set("k", J::Str("other".into()));
                o.set("dbg", J::Str(format!("{:?}", other)));
            }
        }
        o
    }

    fn callee(&self, body: &Body<'tcx>, env: TypingEnv<'tcx>, func: &Operand<'tcx>) -> J {
        let mut o = J::obj();
        match func {
            Operand::Constant(c) => {
                if let ty::FnDef(did, ga) = c.const_.ty().kind() {
                    o.set("def", J::Str(self.path(*did)));
                    o.set("krate", J::Str(self.tcx.crate_name(did.krate).to_string()));
                    // is this a trait method?
                    if let Some(tr) = self.tcx.trait_of_assoc(*did) {
                        o.set("trait", J::Str(self.path(tr)));
                        o.set("method", J::Str(self.tcx.item_name(*did).to_string()));
                        if ga.len() > 0 {
                            if let Some(st) = ga[0].as_type() {
                                o.set("self_ty", self.ty(st));
                            }
                        }
                    }
                    let ga_s: Vec<J> = ga.iter().map(|g| J::Str(format!("{}", g))).collect();
                    o.set("args", J::Arr(ga_s));
                    let needs_subst = ga.iter().any(|g| {
                        use rustc_middle::ty::TypeVisitableExt;
                        g.has_param()
                    });
                    let res = std::panic::catch_unwind(std::panic::AssertUnwindSafe(|| {
                        Instance::try_resolve(self.tcx, env, *did, ga)
                    }));
                    match res {
                        Ok(Ok(Some(inst))) => {
                            let rdid = inst.def_id();
                            o.set("res", J::Str(self.path(rdid)));
                            o.set("res_krate", J::Str(self.tcx.crate_name(rdid.krate).to_string()));
                            let kind = match inst.def {
                                ty::InstanceKind::Item(_) => "item",
                                ty::InstanceKind::Intrinsic(_) => "intrinsic",
                                ty::InstanceKind::Virtual(..) => "virtual",
                                ty::InstanceKind::ClosureOnceShim { .. } => "closure_once_shim",
                                ty::InstanceKind::FnPtrShim(..) => "fnptr_shim",
                                ty::InstanceKind::DropGlue(..) => "drop_glue",
                                ty::InstanceKind::CloneShim(..) => "clone_shim",
                                ty::InstanceKind::ReifyShim(..) => "reify_shim",
                                ty::InstanceKind::VTableShim(..) => "vtable_shim",
                                _ => "other_shim",
                            };
                            o.set("res_kind", J::Str(kind.into()));
                            if inst.args.len() > 0 {
                                o.set(
                                    "res_full",
                                    J::Str(self.tcx.def_path_str_with_args(rdid, inst.args)),
                                );
                            }
                            // if the resolved instance is still the trait's own item
                            // (default method or unresolved), flag it
                            if self.tcx.trait_of_assoc(rdid).is_some() && needs_subst {
                                o.set("status", J::Str("generic".into()));
                            } else {
                                o.set("status", J::Str("resolved".into()));
                            }
                        }
                        Ok(Ok(None)) => {
                            o.set("status", J::Str("unresolved".into()));
                        }
                        _ => {
                            o.set("status", J::Str("error".into()));
                        }
                    }
                } else {
                    o.set("status", J::Str("const_fnptr".into()));
                    o.set("dbg", J::Str(format!("{}", c.const_)));
                }
            }
            Operand::Copy(p) | Operand::Move(p) => {
                o.set("status", J::Str("indirect".into()));
                o.set("pl", self.place(body, p));
                let t = p.ty(&body.local_decls, self.tcx).ty;
                o.set("ty", self.ty(t));
            }
            #[allow(unreachable_patterns)]
            _ => {
                o.set("status", J::Str("other".into()));
            }
        }
        o
    }

    fn assert_kind(&self, body: &Body<'tcx>, env: TypingEnv<'tcx>, m: &AssertKind<Operand<'tcx>>) -> J {
        let mut o = J::obj();
        match m {
            AssertKind::BoundsCheck { len, index } => {
                o.set("k", J::Str("bounds".into()));
                o.set("len", self.operand(body, env, len));
                o.set("index", self.operand(body, env, index));
            }
            AssertKind::Overflow(op, a, b) => {
                o.set("k", J::Str("overflow".into()));
                o.set("op", J::Str(format!("{:?}", op)));
                o.set("a", self.operand(body, env, a));
                o.set("b", self.operand(body, env, b));
            }
            AssertKind::OverflowNeg(a) => {
                o.set("k", J::Str("overflow_neg".into()));
                o.set("a", self.operand(body, env, a));
            }
            AssertKind::DivisionByZero(a) => {
                o.set("k", J::Str("div_zero".into()));
                o.set("a", self.operand(body, env, a));
            }
            AssertKind::RemainderByZero(a) => {
                o.set("k", J::Str("rem_zero".into()));
                o.set("a", self.operand(body, env, a));
            }
            other => {
                o.set("k", J::Str("other".into()));
                o.set("dbg", J::Str(format!("{:?}", other)));
            }
        }
        o
    }

    fn block(&self, body: &Body<'tcx>, env: TypingEnv<'tcx>, bb: &BasicBlockData<'tcx>) -> J {
        let mut o = J::obj();
        if bb.is_cleanup {
            o.set("cleanup", J::Bool(true));
        }
        let mut stmts = vec![];
        for st in &bb.statements {
            match &st.kind {
                StatementKind::Assign(b) => {
                    let (pl, rv) = &**b;
                    let mut s = J::obj();
                    s.set("k", J::Str("assign".into()));
                    s.set("pl", self.place(body, pl));
                    s.set("rv", self.rvalue(body, env, rv));
                    s.set("ln", self.line(st.source_info.span));
                    let e = self.expn(st.source_info.span);
                    if !matches!(e, J::Null) {
                        s.set("exp", e);
                    }
                    stmts.push(s);
                }
                StatementKind::SetDiscriminant { place, variant_index } => {
                    let mut s = J::obj();
                    s.set("k", J::Str("setdiscr".into()));
                    s.set("pl", self.place(body, place));
                    s.set("vi", J::Int(variant_index.as_u32() as i128));
                    stmts.push(s);
                }
                StatementKind::Intrinsic(i) => {
                    let mut s = J::obj();
                    s.set("k", J::Str("intrinsic".into()));
                    s.set("dbg", J::Str(format!("{:?}", i)));
                    stmts.push(s);
                }
                _ => {}
            }
        }
        o.set("s", J::Arr(stmts));
        let term = bb.terminator();
        let mut t = J::obj();
        t.set("ln", self.line(term.source_info.span));
        let e = self.expn(term.source_info.span);
        if !matches!(e, J::Null) {
            t.set("exp", e);
        }
        match &term.kind {
            TerminatorKind::Goto { target } => {
                t.set("k", J::Str("goto".into()));
                t.set("t", J::Int(target.as_u32() as i128));
            }
            TerminatorKind::SwitchInt { discr, targets } => {
                t.set("k", J::Str("switch".into()));
                t.set("d", self.operand(body, env, discr));
                let dty = discr.ty(&body.local_decls, self.tcx);
                t.set("dty", self.ty(dty));
                let mut arr = vec![];
                for (v, bb) in targets.iter() {
                    let vv: i128 = if dty.is_signed() {
                        // sign extend according to the type's size
                        let bits = match dty.kind() {
                            ty::Int(it) => it.bit_width().unwrap_or(64),
                            _ => 128,
                        };
                        if bits >= 128 {
                            v as i128
                        } else {
                            let shift = 128 - bits as u32;
                            ((v << shift) as i128) >> shift
                        }
                    } else if v > i128::MAX as u128 {
                        -1
                    } else {
                        v as i128
                    };
                    arr.push(J::Arr(vec![J::Int(vv), J::Int(bb.as_u32() as i128)]));
                }
                t.set("targets", J::Arr(arr));
                t.set("otherwise", J::Int(targets.otherwise().as_u32() as i128));
            }
            TerminatorKind::Return => {
                t.set("k", J::Str("return".into()));
            }
            TerminatorKind::Unreachable => {
                t.set("k", J::Str("unreachable".into()));
            }
            TerminatorKind::UnwindResume => {
                t.set("k", J::Str("resume".into()));
            }
            TerminatorKind::UnwindTerminate(_) => {
                t.set("k", J::Str("terminate".into()));
            }
            TerminatorKind::Drop { place, target, .. } => {
                t.set("k", J::Str("drop".into()));
                t.set("pl", self.place(body, place));
                t.set("t", J::Int(target.as_u32() as i128));
                let pty = place.ty(&body.local_decls, self.tcx).ty;
                t.set("ty", self.ty(pty));
            }
            TerminatorKind::Call { func, args, destination, target, .. } => {
                t.set("k", J::Str("call".into()));
                t.set("f", self.callee(body, env, func));
                t.set(
                    "args",
                    J::Arr(args.iter().map(|a| self.operand(body, env, &a.node)).collect()),
                );
                t.set("dest", self.place(body, destination));
                match target {
                    Some(bb) => t.set("t", J::Int(bb.as_u32() as i128)),
                    None => t.set("t", J::Null),
                }
            }
            TerminatorKind::TailCall { func, args, .. } => {
                t.set("k", J::Str("tailcall".into()));
                t.set("f", self.callee(body, env, func));
                t.set(
                    "args",
                    J::Arr(args.iter().map(|a| self.operand(body, env, &a.node)).collect()),
                );
            }
            TerminatorKind::Assert { cond, expected, msg, target, .. } => {
                t.set("k", J::Str("assert".into()));
                t.set("cond", self.operand(body, env, cond));
                t.set("expected", J::Bool(*expected));
                t.set("msg", self.assert_kind(body, env, msg));
                t.set("t", J::Int(target.as_u32() as i128));
            }
            TerminatorKind::FalseEdge { real_target, .. } => {
                t.set("k", J::Str("goto".into()));
                t.set("t", J::Int(real_target.as_u32() as i128));
            }
            TerminatorKind::FalseUnwind { real_target, .. } => {
                t.set("k", J::Str("goto".into()));
                t.set("t", J::Int(real_target.as_u32() as i128));
            }
            other => {
                t.set("k", J::Str("other".into()));
                t.set("dbg", J::Str(format!("{:?}", other)));
            }
        }
        o.set("t", t);
        o
    }

    fn function(&self, did: DefId) -> Option<(J, J)> {
        let tcx = self.tcx;
        let kind = tcx.def_kind(did);
        let mut o = J::obj();
        o.set("path", J::Str(self.path(did)));
        o.set("kind", J::Str(format!("{:?}", kind)));
        if matches!(kind, DefKind::Fn | DefKind::AssocFn) {
            o.set("vis", J::Str(format!("{:?}", tcx.visibility(did))));
            o.set("pub", J::Bool(tcx.visibility(did).is_public()));
        }
        o.set("sp", self.span(tcx.def_span(did)));
        let e = self.expn(tcx.def_span(did));
        if !matches!(e, J::Null) {
            o.set("exp", e);
        }
        // enclosing impl
        if kind == DefKind::AssocFn {
            let parent = tcx.parent(did);
            if let DefKind::Impl { of_trait } = tcx.def_kind(parent) {
                let mut im = J::obj();
                let self_ty = tcx.type_of(parent).instantiate_identity().skip_norm_wip();
                im.set("self_ty", self.ty(self_ty));
                if let ty::Adt(adt, _) = self_ty.kind() {
                    im.set("self_adt", J::Str(self.path(adt.did())));
                }
                if of_trait {
                    let tr = tcx.impl_trait_ref(parent).instantiate_identity().skip_norm_wip();
                    im.set("trait", J::Str(self.path(tr.def_id)));
                    im.set("trait_full", J::Str(format!("{}", tr.print_only_trait_path())));
                }
                o.set("impl", im);
            } else if tcx.def_kind(parent) == DefKind::Trait {
                o.set("trait_default", J::Str(self.path(parent)));
            }
            o.set("name", J::Str(tcx.item_name(did).to_string()));
        } else if kind == DefKind::Fn {
            o.set("name", J::Str(tcx.item_name(did).to_string()));
        }
        if kind == DefKind::Closure {
            let parent = tcx.typeck_root_def_id(did);
            o.set("closure_of", J::Str(self.path(parent)));
        }
        // generics count
        let generics = tcx.generics_of(did);
        o.set("n_generics", J::Int(generics.count() as i128));

        if !tcx.is_mir_available(did) {
            return None;
        }
        let body = tcx.optimized_mir(did);
        let env = TypingEnv::post_analysis(tcx, did);
        o.set("argc", J::Int(body.arg_count as i128));
        let mut argtys = vec![];
        for (i, d) in body.local_decls.iter().enumerate() {
            if i >= 1 && i <= body.arg_count {
                argtys.push(self.ty(d.ty));
            }
        }
        o.set("arg_tys", J::Arr(argtys));
        o.set("ret_ty", self.ty(body.local_decls[mir::RETURN_PLACE].ty));
        let mut argnames = vec![J::Null; body.arg_count];
        for v in &body.var_debug_info {
            if let Some(a) = v.argument_index {
                let a = a as usize;
                if a >= 1 && a <= body.arg_count {
                    if let mir::VarDebugInfoContents::Place(p) = &v.value {
                        if p.projection.is_empty() && matches!(argnames[a - 1], J::Null) {
                            argnames[a - 1] = J::Str(v.name.to_string());
                        }
                    }
                }
            }
        }
        o.set("arg_names", J::Arr(argnames));
        // distinct callees summary (for the whole-workspace call graph)
        let mut seen: Vec<String> = vec![];
        let mut calls = vec![];
        let mut closures = vec![];
        for bb in body.basic_blocks.iter() {
            if let TerminatorKind::Call { func, .. } | TerminatorKind::TailCall { func, .. } = &bb.terminator().kind {
                let c = self.callee(body, env, func);
                let mut key = String::new();
                c.write(&mut key);
                if !seen.contains(&key) {
                    seen.push(key);
                    calls.push(c);
                }
            }
            for st in &bb.statements {
                if let StatementKind::Assign(b) = &st.kind {
                    if let Rvalue::Aggregate(k, _) = &b.1 {
                        if let AggregateKind::Closure(cd, _) = &**k {
                            closures.push(J::Str(self.path(*cd)));
                        }
                    }
                    // function items used as values (fn pointers / passed to combinators)
                    let mut note = |op: &Operand<'tcx>| {
                        if let Operand::Constant(c) = op {
                            if let ty::FnDef(fd, _) = c.const_.ty().kind() {
                                closures.push(J::Str(self.path(*fd)));
                            }
                        }
                    };
                    match &b.1 {
                        Rvalue::Use(op, ..) | Rvalue::Cast(_, op, _) => note(op),
                        Rvalue::Aggregate(_, ops) => {
                            for op in ops.iter() {
                                note(op)
                            }
                        }
                        _ => {}
                    }
                }
            }
            if let TerminatorKind::Call { args, .. } = &bb.terminator().kind {
                for a in args.iter() {
                    if let Operand::Constant(c) = &a.node {
                        if let ty::FnDef(fd, _) = c.const_.ty().kind() {
                            closures.push(J::Str(self.path(*fd)));
                        }
                    }
                }
            }
        }
        o.set("calls", J::Arr(calls));
        o.set("fn_values", J::Arr(closures));
        o.set("n_blocks", J::Int(body.basic_blocks.len() as i128));

        let mut b = J::obj();
        b.set("path", J::Str(self.path(did)));
        let mut locals = vec![];
        for d in body.local_decls.iter() {
            locals.push(self.ty(d.ty));
        }
        b.set("locals", J::Arr(locals));
        let mut dbg = vec![];
        for v in &body.var_debug_info {
            if let mir::VarDebugInfoContents::Place(p) = &v.value {
                let mut d = J::obj();
                d.set("name", J::Str(v.name.to_string()));
                d.set("pl", self.place(body, p));
                if let Some(a) = v.argument_index {
                    d.set("arg", J::Int(a as i128));
                }
                dbg.push(d);
            }
        }
        b.set("dbg", J::Arr(dbg));
        let mut blocks = vec![];
        for bb in body.basic_blocks.iter() {
            blocks.push(self.block(body, env, bb));
        }
        b.set("blocks", J::Arr(blocks));
        Some((o, b))
    }

    fn adt(&self, did: DefId) -> J {
        let tcx = self.tcx;
        let adt = tcx.adt_def(did);
        let mut o = J::obj();
        o.set("path", J::Str(self.path(did)));
        o.set("kind", J::Str(format!("{:?}", adt.adt_kind())));
        o.set("pub", J::Bool(tcx.visibility(did).is_public()));
        o.set("sp", self.span(tcx.def_span(did)));
        let mut vs = vec![];
        for (vidx, v) in adt.variants().iter_enumerated() {
            let mut vo = J::obj();
            vo.set("name", J::Str(v.name.to_string()));
            if adt.is_enum() {
                let d = adt.discriminant_for_variant(tcx, vidx);
                let val = d.val;
                vo.set("discr", J::Str(format!("{}", val)));
            }
            let mut fs = vec![];
            for f in v.fields.iter() {
                let mut fo = J::obj();
                fo.set("name", J::Str(f.name.to_string()));
                let fty = tcx.type_of(f.did).instantiate_identity().skip_norm_wip();
                fo.set("ty", self.ty(fty));
                fo.set("vis", J::Str(format!("{:?}", f.vis)));
                fo.set("pub", J::Bool(f.vis.is_public()));
                fs.push(fo);
            }
            vo.set("fields", J::Arr(fs));
            vs.push(vo);
        }
        o.set("variants", J::Arr(vs));
        o
    }

    fn const_item(&self, did: DefId) -> Option<J> {
        let tcx = self.tcx;
        let generics = tcx.generics_of(did);
        if generics.count() != 0 {
            return None;
        }
        let t = tcx.type_of(did).instantiate_identity().skip_norm_wip();
        let mut o = J::obj();
        o.set("path", J::Str(self.path(did)));
        o.set("ty", self.ty(t));
        o.set("sp", self.span(tcx.def_span(did)));
        let val = std::panic::catch_unwind(std::panic::AssertUnwindSafe(|| {
            tcx.const_eval_poly(did)
        }));
        let val = match val {
            Ok(Ok(v)) => v,
            _ => return Some(o),
        };
        if let Some(j) = self.const_value_json(val, t, 0) {
            o.set("value", j);
        }
        Some(o)
    }

    fn const_value_json(&self, val: mir::ConstValue, t: Ty<'tcx>, depth: usize) -> Option<J> {
        let tcx = self.tcx;
        if depth > 4 {
            return None;
        }
        if t.is_integral() || t.is_bool() || t.is_char() {
            let si = val.try_to_scalar_int()?;
            let size = si.size();
            if t.is_signed() {
                return Some(J::Int(si.to_int(size)));
            }
            let u = si.to_uint(size);
            if u > i128::MAX as u128 {
                return Some(J::Str(format!("{}", u)));
            }
            return Some(J::Int(u as i128));
        }
        match t.kind() {
            ty::Ref(_, inner, _) => {
                let bytes = self.ref_bytes(val, *inner)?;
                if matches!(inner.kind(), ty::Str) {
                    return Some(J::Str(String::from_utf8_lossy(&bytes).to_string()));
                }
                Some(J::Arr(bytes.iter().map(|b| J::Int(*b as i128)).collect()))
            }
            ty::Array(..) | ty::Tuple(..) | ty::Adt(..) => {
                // destructure aggregates (arrays of scalars / arrays, newtypes)
                let dc = std::panic::catch_unwind(std::panic::AssertUnwindSafe(|| {
                    tcx.try_destructure_mir_constant_for_user_output(val, t)
                }))
                .ok()??;
                let mut arr = vec![];
                for (fv, fty) in dc.fields.iter() {
                    match self.const_value_json(*fv, *fty, depth + 1) {
                        Some(j) => arr.push(j),
                        None => arr.push(J::Null),
                    }
                }
                if let Some(v) = dc.variant {
                    let mut o = J::obj();
                    o.set("variant", J::Int(v.as_u32() as i128));
                    o.set("fields", J::Arr(arr));
                    return Some(o);
                }
                Some(J::Arr(arr))
            }
            _ => None,
        }
    }
}

fn extract<'tcx>(tcx: TyCtxt<'tcx>, dir: &str, name: &str) {
    let _g1 = rustc_middle::ty::print::CrateNamePrefixGuard::new();
    let _g2 = rustc_middle::ty::print::NoTrimmedGuard::new();
    let _g3 = rustc_middle::ty::print::NoVisibleGuard::new();
    let cx = Cx { tcx };
    let start = std::time::Instant::now();
    let mut root = J::obj();
    root.set("crate", J::Str(name.to_string()));
    root.set("extra_filename", J::Str(extra_filename()));
    let crate_types: Vec<J> = tcx.crate_types().iter().map(|c| J::Str(format!("{:?}", c))).collect();
    root.set("crate_types", J::Arr(crate_types));
    root.set("cfg", J::Arr(arg_values("--cfg").into_iter().map(J::Str).collect()));
    root.set("is_test", J::Bool(tcx.sess.opts.test));
    root.set(
        "pkg",
        J::Str(std::env::var("CARGO_PKG_NAME").unwrap_or_default()),
    );
    root.set(
        "manifest_dir",
        J::Str(std::env::var("CARGO_MANIFEST_DIR").unwrap_or_default()),
    );

    let mut fns = vec![];
    let mut bodies = String::new();
    let mut adts = vec![];
    let mut consts = vec![];
    let mut impls = vec![];

    for ldid in tcx.hir_body_owners() {
        let did = ldid.to_def_id();
        let kind = tcx.def_kind(did);
        match kind {
            DefKind::Fn | DefKind::AssocFn | DefKind::Closure => {
                if let Some((mut idx, b)) = cx.function(did) {
                    let start_off = bodies.len();
                    b.write(&mut bodies);
                    bodies.push('\n');
                    idx.set("off", J::Int(start_off as i128));
                    idx.set("len", J::Int((bodies.len() - start_off) as i128));
                    fns.push(idx);
                }
            }
            DefKind::Const { .. } | DefKind::AssocConst { .. } => {
                if let Some(c) = cx.const_item(did) {
                    consts.push(c);
                }
            }
            _ => {}
        }
    }
    for id in tcx.hir_free_items() {
        let did = id.owner_id.to_def_id();
        match tcx.def_kind(did) {
            DefKind::Struct | DefKind::Enum | DefKind::Union => {
                adts.push(cx.adt(did));
            }
            DefKind::Impl { of_trait } => {
                let mut o = J::obj();
                let self_ty = tcx.type_of(did).instantiate_identity().skip_norm_wip();
                o.set("self_ty", cx.ty(self_ty));
                if let ty::Adt(adt, _) = self_ty.kind() {
                    o.set("self_adt", J::Str(cx.path(adt.did())));
                }
                if of_trait {
                    let tr = tcx.impl_trait_ref(did).instantiate_identity().skip_norm_wip();
                    o.set("trait", J::Str(cx.path(tr.def_id)));
                    o.set("trait_full", J::Str(format!("{}", tr.print_only_trait_path())));
                }
                o.set("sp", cx.span(tcx.def_span(did)));
                let e = cx.expn(tcx.def_span(did));
                if !matches!(e, J::Null) {
                    o.set("exp", e);
                }
                o.set("n_generics", J::Int(tcx.generics_of(did).count() as i128));
                let items: Vec<J> = tcx
                    .associated_item_def_ids(did)
                    .iter()
                    .map(|i| J::Str(cx.path(*i)))
                    .collect();
                o.set("items", J::Arr(items));
                impls.push(o);
            }
            _ => {}
        }
    }
    root.set("n_fns", J::Int(fns.len() as i128));
    root.set("fns", J::Arr(fns));
    root.set("adts", J::Arr(adts));
    root.set("consts", J::Arr(consts));
    root.set("impls", J::Arr(impls));
    root.set("extract_ms", J::Int(start.elapsed().as_millis() as i128));

    let kind = if tcx.sess.opts.test {
        "test"
    } else if tcx.crate_types().iter().any(|c| format!("{:?}", c).contains("Executable")) {
        "bin"
    } else {
        "lib"
    };
    let base = format!("{}/{}{}.{}", dir, name, extra_filename(), kind);
    let _ = std::fs::create_dir_all(dir);
    // bodies first, meta last: the presence of the meta file marks a complete unit
    let fname_b = format!("{}.fns.jsonl", base);
    let tmp_b = format!("{}.tmp{}", fname_b, std::process::id());
    if std::fs::write(&tmp_b, bodies.as_bytes()).is_ok() {
        let _ = std::fs::rename(&tmp_b, &fname_b);
    }
    let fname = format!("{}.meta.json", base);
    let mut s = String::new();
    root.write(&mut s);
    let tmp = format!("{}.tmp{}", fname, std::process::id());
    if std::fs::write(&tmp, s.as_bytes()).is_ok() {
        let _ = std::fs::rename(&tmp, &fname);
    }
}
