"""Accepting-path normal form: the set of paths of a function (or of one match arm, selected by fixing a
parameter to a constant) reduced to
    (frozenset of facts, result)
where facts are normalised branch decisions (which check, on which argument position, with which literal
parameters, with what outcome) and result is the normalised returned value.  Facts form a *set*, so the form is
invariant under reordering of independent checks, renaming, if/match rewrites and error-code changes on rejecting
paths; it changes whenever a check, a literal, an argument position, an operator or a produced variant changes."""
from . import paths as P
from .mir import strip_all, subterms

DROP_ARG_NAMES = ("a",)   # the allocator parameter is not a role


def short(name):
    """callee name without generic arguments, last two segments"""
    out = []
    depth = 0
    for ch in name:
        if ch == "<":
            depth += 1
        elif ch == ">":
            depth -= 1
        elif depth == 0:
            out.append(ch)
    parts = [x for x in "".join(out).split("::") if x]
    if not parts:
        return name
    return "::".join(parts[-2:]) if len(parts) >= 2 and parts[-2][:1].isupper() else parts[-1]


def N(t):
    """normalise a value term"""
    if not isinstance(t, tuple) or not t:
        return t
    k = t[0]
    if k in ("ref",):
        return N(t[1])
    if k == "refmut":
        return N(t[2])
    if k == "mutated":
        return N(t[1])
    if k == "arg":
        return t[2]
    if k == "var":
        return "var:%s" % t[2]
    if k == "c":
        return t[3].split("::")[-1] if (t[3] and not isinstance(t[2], int)) else t[2]
    if k == "cb":
        return bytes(t[2])
    if k == "cs":
        return t[2]
    if k == "out":
        return ("after", N(t[1]))
    if k == "f":
        # payload of `?`:  (Try::branch(X) as Continue).0  ->  X
        if t[2] == "0" and t[1][0] == "dc" and t[1][2] == "Continue":
            br = strip_all(t[1][1])
            if br[0] == "call" and br[1].endswith("branch") and br[2]:
                return N(br[2][0])
        # payload of Ok / Some: (X as Ok).0 -> X
        if t[2] == "0" and t[1][0] == "dc" and t[1][2] in ("Ok", "Some"):
            return N(t[1][1])
        return ("." + t[2], N(t[1]))
    if k == "dc":
        return ("as:" + t[2], N(t[1]))
    if k == "call":
        name = short(t[1])
        args = [N(a) for a in t[2]]
        args = [a for a in args if a not in DROP_ARG_NAMES]
        if name in ("deref", "as_ref", "borrow", "clone", "into", "from") and len(args) == 1:
            return args[0]
        return (name,) + tuple(args)
    if k == "bin":
        return (t[1], N(t[2]), N(t[3]))
    if k == "un":
        return (t[1], N(t[2]))
    if k == "cast":
        return ("as " + t[2], N(t[1]))
    if k == "agg":
        nm = (short(t[1]) + "::" + t[2]) if (t[1] and t[2]) else (t[1] or "tuple")
        if t[1] and t[2] and "::" in t[1]:
            nm = t[2] if t[1].split("::")[-1] in ("Result", "Option") else t[1].split("::")[-1] + "::" + t[2]
        return (nm,) + tuple(N(a) for a in t[3])
    if k == "discr":
        return ("discr", N(t[1]))
    if k == "idx":
        return ("[]", N(t[1]), N(t[2]))
    if k == "closure":
        return ("closure", short(t[1]))
    if k == "fnval":
        return ("fn", short(t[1]))
    return tuple(N(x) if isinstance(x, tuple) else x for x in t)


def fact(term, lab):
    """normalised branch decision"""
    t = N(term)
    if lab[0] == "try":
        return (t, "ok" if lab[1] else "err")
    if lab[0] == "is":
        return (t, "|".join(lab[1]))
    if lab[0] == "bool":
        return (t, bool(lab[1]))
    return (t, lab)


def paths_of(b, env0=None, want=("Ok",), max_paths=50000, max_visits=2, keep_calls=None):
    """[(facts, result, calls)] over the paths whose result class is in `want`"""
    out = []
    for events, ex in P.enumerate_paths(b, env0=env0, max_paths=max_paths, max_visits=max_visits, track_out=True):
        if ex[0] not in ("return",):
            if ex[0] == "diverge" and "panic" in want:
                out.append((frozenset(fact(t, l) for t, l in P.conds(events)), ("panic",), []))
            continue
        rc = P.ret_class(events)
        if rc not in want:
            continue
        facts = frozenset(fact(t, l) for t, l in P.conds(events))
        r = P.ret_of(events)
        calls = []
        if keep_calls:
            for e in P.calls(events):
                if keep_calls(e[2]):
                    calls.append(N(e[5]))
        out.append((facts, N(r) if r is not None else None, calls))
    return out
