"""CFG / dominance / value-term reconstruction over extracted MIR.

Nothing here evaluates repository code: terms are value numbering along
definitions (copies and moves are transparent), conditions are the branch
decisions that dominate a program point."""
from collections import defaultdict

# variant tables of the few external enums that matter
EXT_VARIANTS = {
    "core::option::Option": {0: "None", 1: "Some"},
    "core::result::Result": {0: "Ok", 1: "Err"},
    "core::ops::control_flow::ControlFlow": {0: "Continue", 1: "Break"},
    "clvmr::allocator::SExp": {0: "Atom", 1: "Pair"},
    "core::cmp::Ordering": {-1: "Less", 0: "Equal", 1: "Greater"},
}


def adt_base(ty):
    """'core::result::Result<A, B>' -> 'core::result::Result'"""
    t = ty.strip()
    while t.startswith("&"):
        t = t[1:].strip()
        if t.startswith("mut "):
            t = t[4:]
        if t.startswith("'"):
            t = t.split(" ", 1)[1] if " " in t else t
    i = t.find("<")
    return t if i < 0 else t[:i]


class Body:
    def __init__(self, fn, fb=None):
        self.fn = fn
        self.fb = fb or fn.fb
        b = fn.body
        self.path = b["path"]
        self.blocks = b["blocks"]
        self.n = len(self.blocks)
        self.locals = b["locals"]
        self.argc = fn.e.get("argc", 0)
        self.names = {}
        for d in b.get("dbg", []):
            if not d["pl"].get("p"):
                self.names.setdefault(d["pl"]["l"], d["name"])
        self._build_graph()
        self._defs = None
        self._dom = {}
        self._term_cache = {}

    # ---------------------------------------------------------------- graph
    def _build_graph(self):
        """nodes 0..n-1 are blocks; every switch edge gets its own node
        (so that a branch outcome can dominate / be avoided)"""
        self.succ = defaultdict(list)
        self.edge_info = {}      # edge node -> (switch block, label)
        self.edge_node = {}      # (switch block, label) -> node
        nxt = self.n
        for i, blk in enumerate(self.blocks):
            t = blk["t"]
            k = t["k"]
            if k == "switch":
                # group values by target so or-patterns become one edge
                by_t = defaultdict(list)
                for v, tb in t["targets"]:
                    by_t[tb].append(v)
                taken = [v for v, _ in t["targets"]]
                for tb, vals in by_t.items():
                    node = nxt
                    nxt += 1
                    lab = ("in", tuple(sorted(vals)))
                    self.edge_info[node] = (i, lab, tb)
                    self.edge_node[(i, lab)] = node
                    self.succ[i].append(node)
                    self.succ[node].append(tb)
                node = nxt
                nxt += 1
                lab = ("notin", tuple(sorted(taken)))
                self.edge_info[node] = (i, lab, t["otherwise"])
                self.edge_node[(i, lab)] = node
                self.succ[i].append(node)
                self.succ[node].append(t["otherwise"])
            elif k in ("goto", "drop", "assert"):
                self.succ[i].append(t["t"])
            elif k == "call":
                if t["t"] is not None:
                    self.succ[i].append(t["t"])
            # return / unreachable / resume / tailcall: none
        self.N = nxt
        self.pred = defaultdict(list)
        for a, ss in self.succ.items():
            for s in ss:
                self.pred[s].append(a)
        # reachability from entry
        seen = {0}
        st = [0]
        while st:
            x = st.pop()
            for s in self.succ[x]:
                if s not in seen:
                    seen.add(s)
                    st.append(s)
        self.reach = seen

    def term_kind(self, b):
        return self.blocks[b]["t"]["k"]

    def reachable_avoiding(self, src, dsts, avoid):
        """is some node of dsts reachable from src without entering a node of avoid?
        (src itself is not subject to avoid)"""
        dsts = set(dsts)
        avoid = set(avoid)
        if src in dsts:
            return True
        seen = {src}
        st = [src]
        while st:
            x = st.pop()
            for s in self.succ[x]:
                if s in seen or s in avoid:
                    continue
                if s in dsts:
                    return True
                seen.add(s)
                st.append(s)
        return False

    def witness_path(self, src, dsts, avoid):
        """a path (list of nodes) from src to a dst avoiding `avoid`, or None"""
        dsts = set(dsts)
        avoid = set(avoid)
        prev = {src: None}
        st = [src]
        while st:
            x = st.pop(0)
            if x in dsts and x != src:
                p = []
                while x is not None:
                    p.append(x)
                    x = prev[x]
                return list(reversed(p))
            for s in self.succ[x]:
                if s in prev or s in avoid:
                    continue
                prev[s] = x
                st.append(s)
        if src in dsts:
            return [src]
        return None

    def reachable_from(self, src, avoid=()):
        avoid = set(avoid)
        seen = {src}
        st = [src]
        while st:
            x = st.pop()
            for s in self.succ[x]:
                if s not in seen and s not in avoid:
                    seen.add(s)
                    st.append(s)
        return seen

    def dominators(self, entry=0):
        """immediate-dominator-free formulation: dom[x] = set of nodes dominating x"""
        if entry in self._dom:
            return self._dom[entry]
        nodes = self.reachable_from(entry)
        order = self._rpo(entry)
        dom = {x: None for x in nodes}
        dom[entry] = {entry}
        changed = True
        while changed:
            changed = False
            for x in order:
                if x == entry:
                    continue
                ps = [dom[p] for p in self.pred[x] if p in dom and dom[p] is not None]
                if not ps:
                    continue
                new = set.intersection(*ps) | {x}
                if new != dom[x]:
                    dom[x] = new
                    changed = True
        self._dom[entry] = dom
        return dom

    def _rpo(self, entry):
        seen = set()
        out = []
        st = [(entry, iter(self.succ[entry]))]
        seen.add(entry)
        while st:
            x, it = st[-1]
            adv = False
            for s in it:
                if s not in seen:
                    seen.add(s)
                    st.append((s, iter(self.succ[s])))
                    adv = True
                    break
            if not adv:
                out.append(x)
                st.pop()
        return list(reversed(out))

    def dominates(self, a, b):
        d = self.dominators().get(b)
        return d is not None and a in d

    def in_cycle(self, b):
        """is block b on a cycle?"""
        return b in self.reachable_from_succ(b)

    def reachable_from_succ(self, b):
        seen = set()
        st = list(self.succ[b])
        while st:
            x = st.pop()
            if x in seen:
                continue
            seen.add(x)
            st.extend(self.succ[x])
        return seen

    # ---------------------------------------------------------------- defs
    def defs(self):
        """local -> list of ('s', bb, idx, rvalue) full assignments /
        ('c', bb, term) call destinations; partial writes under key ('p', local)"""
        if self._defs is not None:
            return self._defs
        d = defaultdict(list)
        for bi, blk in enumerate(self.blocks):
            if bi not in self.reach:
                continue
            for si, s in enumerate(blk["s"]):
                if s["k"] == "assign":
                    pl = s["pl"]
                    if pl.get("p"):
                        d[("p", pl["l"])].append(("s", bi, si, s))
                    else:
                        d[pl["l"]].append(("s", bi, si, s))
                elif s["k"] == "setdiscr":
                    d[("p", s["pl"]["l"])].append(("s", bi, si, s))
            t = blk["t"]
            if t["k"] == "call":
                pl = t["dest"]
                if pl.get("p"):
                    d[("p", pl["l"])].append(("c", bi, None, t))
                else:
                    d[pl["l"]].append(("c", bi, None, t))
        self._defs = d
        return d

    def mut_borrowed(self):
        """locals of which `&mut local[.field…]` (no deref on the way) is taken somewhere"""
        if getattr(self, "_mutb", None) is None:
            mb = set()
            for bi, blk in enumerate(self.blocks):
                if bi not in self.reach:
                    continue
                for s in blk["s"]:
                    if s["k"] == "assign" and s["rv"]["k"] in ("ref", "rawptr"):
                        m = str(s["rv"].get("m"))
                        if m == "mut" or "Mut" in m:
                            pl = s["rv"]["pl"]
                            if "*" not in [e for e in pl.get("p", []) if isinstance(e, str)]:
                                mb.add(pl["l"])
            self._mutb = mb
        return self._mutb

    # ---------------------------------------------------------------- terms
    def local_term(self, l, depth=0, stack=()):
        key = l
        if key in self._term_cache:
            return self._term_cache[key]
        if 1 <= l <= self.argc:
            if self.defs().get(l):
                # a re-assigned parameter (`mut c`): its value depends on the path
                t = ("var", l, self.names.get(l, "_%d" % l))
            else:
                t = ("arg", l - 1, self.names.get(l, "_%d" % l))
                if l in self.mut_borrowed():
                    t = ("mutated", t, l)
            self._term_cache[key] = t
            return t
        ds = self.defs().get(l, [])
        # drop-flag style bool temporaries assigned constants several times: opaque
        if len(ds) != 1 or l in stack or depth > 40:
            # locals assigned on several paths with the *same* constant-free shape are still opaque
            t = ("var", l, self.names.get(l, "_%d" % l))
            if l not in stack and depth <= 40:
                self._term_cache[key] = t
            return t
        kind, bi, si, x = ds[0]
        st = stack + (l,)
        if kind == "c":
            t = self.call_term(x, depth + 1, st)
        else:
            t = self.rvalue_term(x["rv"], depth + 1, st)
        if self.defs().get(("p", l)) or l in self.mut_borrowed():
            # partially overwritten later, or its address is taken mutably:
            # keep the initial value but mark it (the value at a use may differ)
            t = ("mutated", t, l)
        self._term_cache[key] = t
        return t

    def call_term(self, t, depth=0, stack=()):
        """('call', name, args) for calls without `&mut` arguments (a function of its arguments as far as
        the rules are concerned); calls that receive a `&mut` additionally carry their site (block index),
        because two such calls with equal arguments are different values (cursor reads, iterator next)."""
        f = t["f"]
        name = callee_name(f)
        args = tuple(self.operand_term(a, depth + 1, stack) for a in t["args"])
        if any(_has_refmut(a) for a in args):
            return ("call", name, args, self._site_of(t))
        return ("call", name, args)

    def _site_of(self, t):
        m = getattr(self, "_sites", None)
        if m is None:
            m = {}
            for bi, blk in enumerate(self.blocks):
                m[id(blk["t"])] = bi
            self._sites = m
        return m.get(id(t), -1)

    def place_term(self, pl, depth=0, stack=()):
        t = self.local_term(pl["l"], depth, stack)
        for e in pl.get("p", []):
            if e == "*":
                t = strip_ref(t)
            elif isinstance(e, str):
                pass
            elif "f" in e:
                t = ("f", t, str(e.get("n", e["f"])))
            elif "dc" in e:
                t = ("dc", t, str(e.get("n", e["dc"])))
            elif "idx" in e:
                t = ("idx", t, self.local_term(e["idx"], depth + 1, stack))
            elif "ci" in e:
                t = ("idx", t, ("c", "usize", (-1 - e["ci"]) if e.get("from_end") else e["ci"], None))
            elif "sub" in e:
                t = ("sub", t, e["sub"], e["to"], bool(e.get("from_end")))
        return t

    def root_local(self, pl, depth=0, stack=()):
        """the local whose storage a `&mut place` borrows (follows re-borrows `&mut *x`)"""
        l = pl["l"]
        proj = pl.get("p", [])
        if proj and proj[0] == "*":
            t = self.local_term(l, depth, stack)
            while isinstance(t, tuple) and t and t[0] == "mutated":
                t = t[1]
            if isinstance(t, tuple) and t and t[0] == "refmut":
                return t[1]
            if isinstance(t, tuple) and t and t[0] == "call" and len(t[2]) >= 1 and is_transparent_call(t[1]):
                a = t[2][0]
                if isinstance(a, tuple) and a and a[0] == "refmut":
                    return a[1]
        return l

    def mut_history(self, l):
        """calls that receive `&mut` of local l (directly or re-borrowed), in RPO order:
        [(bb, callee, argterms, argpos)]"""
        out = []
        order = {b: i for i, b in enumerate(self._rpo(0))}
        for bi, name, t in self.calls():
            for ai, a in enumerate(t["args"]):
                at = self.operand_term(a)
                while isinstance(at, tuple) and at and at[0] == "mutated":
                    at = at[1]
                if isinstance(at, tuple) and at and at[0] == "refmut" and at[1] == l:
                    out.append((bi, name, tuple(self.operand_term(x) for x in t["args"]), ai))
                    break
        out.sort(key=lambda e: order.get(e[0], 1 << 30))
        return out

    def local_named(self, name):
        """locals carrying a debug name"""
        return [l for l, n in self.names.items() if n == name]

    def operand_term(self, op, depth=0, stack=()):
        if "c" in op:
            return const_term(op["c"])
        pl = op.get("cp") or op.get("mv")
        if pl is None:
            return ("?",)
        return self.place_term(pl, depth, stack)

    def rvalue_term(self, rv, depth=0, stack=()):
        k = rv["k"]
        if k == "use":
            return self.operand_term(rv["a"], depth, stack)
        if k in ("ref", "rawptr"):
            inner = self.place_term(rv["pl"], depth, stack)
            if rv.get("m") == "mut" or "Mut" in str(rv.get("m")):
                return ("refmut", self.root_local(rv["pl"], depth, stack), inner)
            return ("ref", inner)
        if k == "cast":
            return ("cast", self.operand_term(rv["a"], depth, stack), rv["to"])
        if k == "bin":
            return ("bin", rv["op"], self.operand_term(rv["a"], depth, stack),
                    self.operand_term(rv["b"], depth, stack))
        if k == "un":
            return ("un", rv["op"], self.operand_term(rv["a"], depth, stack))
        if k == "discr":
            return ("discr", self.place_term(rv["pl"], depth, stack), adt_base(rv.get("of", "")))
        if k == "agg":
            ops = tuple(self.operand_term(o, depth, stack) for o in rv["ops"])
            ak = rv["ak"]
            if ak == "adt":
                return ("agg", rv["adt"], rv["variant"], ops)
            if ak == "closure":
                return ("closure", rv["closure"], ops)
            return ("agg", ak, None, ops)
        if k == "repeat":
            return ("repeat", self.operand_term(rv["a"], depth, stack), rv["n"])
        return ("?", k)

    # ---------------------------------------------------------------- conditions
    def edge_condition(self, node):
        """(term, label) for an edge node; label normalised:
        ('is', 'Variant') / ('isnot', (..)) for discriminants, ('bool', True/False),
        ('in', values) / ('notin', values) for integers"""
        sb, lab, tb = self.edge_info[node]
        t = self.blocks[sb]["t"]
        term = self.operand_term(t["d"])
        return normalise_cond(self.fb, term, lab, t["dty"])

    def dominating_conditions(self, b):
        """conditions of every switch edge that dominates node b"""
        dom = self.dominators().get(b) or set()
        out = []
        for x in dom:
            if x in self.edge_info:
                out.append(self.edge_condition(x))
        return out

    def nearest_condition(self, b):
        """the innermost branch decision dominating node b (or None)"""
        dom = self.dominators().get(b) or set()
        best = None
        for x in dom:
            if x in self.edge_info:
                d = len(self.dominators().get(x) or ())
                if best is None or d > best[0]:
                    best = (d, x)
        return self.edge_condition(best[1]) if best else None

    def dominating_calls(self, b):
        """call terms of blocks whose *return edge* dominates b"""
        dom = self.dominators().get(b) or set()
        out = []
        for x in dom:
            if x < self.n and x != b and self.blocks[x]["t"]["k"] == "call":
                out.append((x, self.call_term(self.blocks[x]["t"])))
        return out

    def calls(self):
        """[(bb, name, terminator)] for all reachable call terminators"""
        out = []
        for bi, blk in enumerate(self.blocks):
            if bi in self.reach and blk["t"]["k"] == "call":
                out.append((bi, callee_name(blk["t"]["f"]), blk["t"]))
        return out

    def find_calls(self, pred):
        if isinstance(pred, str):
            s = pred
            pred = lambda name: name == s or name.endswith("::" + s) or s in name
        return [(bi, name, t) for bi, name, t in self.calls() if pred(name)]

    # ---------------------------------------------------------------- exits
    def ret_assignments(self):
        """every full assignment to _0: [(bb, kind, detail)]
        kind: 'agg' (adt/variant), 'const', 'call', 'use'"""
        out = []
        for d in self.defs().get(0, []):
            kind, bi, si, x = d
            if kind == "c":
                out.append((bi, "call", callee_name(x["f"]), x))
            else:
                rv = x["rv"]
                if rv["k"] == "agg" and rv["ak"] == "adt":
                    out.append((bi, "agg", (rv["adt"], rv["variant"]), rv))
                elif rv["k"] == "agg":
                    out.append((bi, "agg", (rv["ak"], None), rv))
                elif rv["k"] == "use" and "c" in rv["a"]:
                    out.append((bi, "const", rv["a"]["c"], rv))
                else:
                    out.append((bi, "use", None, rv))
        return out

    def return_blocks(self):
        return [i for i in range(self.n) if i in self.reach and self.blocks[i]["t"]["k"] == "return"]

    def ok_exits(self):
        """blocks assigning _0 = Result::Ok(..) / Option::Some(..)"""
        return [bi for bi, k, d, _ in self.ret_assignments()
                if k == "agg" and d[1] in ("Ok", "Some")]

    def err_exits(self):
        out = []
        for bi, k, d, x in self.ret_assignments():
            if k == "agg" and d[1] in ("Err", "None"):
                out.append(bi)
            elif k == "call" and "from_residual" in d:
                out.append(bi)
        return out

    def line(self, b):
        if b >= self.n:
            b = self.edge_info[b][0]
        return self.blocks[b]["t"].get("ln")

    def where(self, b):
        f = self.fn.sp.rsplit(":", 1)[0]
        return "%s:%s" % (f, self.line(b))


# -------------------------------------------------------------------- helpers
# traits for which call names keep the concrete self type of the resolved impl
CONCRETE_TRAITS = {
    "chia_traits::streamable::Streamable",
    "chia_traits::to_json_dict::ToJsonDict",
    "chia_traits::from_json_dict::FromJsonDict",
    "clvm_traits::to_clvm::ToClvm",
    "clvm_traits::from_clvm::FromClvm",
}
STREAMABLE_LIKE_TRAITS_SELF = {}


def callee_name(f):
    st = f.get("status")
    if st == "indirect":
        return "<indirect>"
    if f.get("trait") and st != "resolved" and f.get("self_ty"):
        extra = f.get("args", [])[1:]
        # trait-level generic args come first; method-level (turbofish) ones are what is left
        tf = ("::<%s>" % ", ".join(extra)) if extra else ""
        return "<%s as %s>::%s%s" % (f["self_ty"], f["trait"], f.get("method"), tf)
    if f.get("trait") and f.get("res_full") and f.get("self_ty") and f["self_ty"] in STREAMABLE_LIKE_TRAITS_SELF.get(f["trait"], (f["self_ty"],)):
        # trait method resolved to an impl: keep the concrete self type (BytesImpl<32>, not BytesImpl<N>)
        if f["trait"] in CONCRETE_TRAITS:
            return f["res_full"]
    n = f.get("res") or f.get("def") or "?"
    if n in ("core::mem::size_of", "core::mem::align_of") and f.get("args"):
        return "%s::<%s>" % (n, ", ".join(f["args"]))
    return n


def const_term(c):
    if "fn" in c:
        return ("fnval", c["fn"])
    if "v" in c:
        return ("c", c["ty"], c["v"], c.get("name"))
    if "vs" in c:
        return ("c", c["ty"], int(c["vs"]), c.get("name"))
    if "param" in c:
        return ("cparam", c["param"])
    if "bytes" in c:
        return ("cb", c["ty"], tuple(c["bytes"]), c.get("name"))
    if "deref_v" in c:
        return ("ref", ("c", c["deref_ty"], int(c["deref_v"]), c.get("name")))
    return ("cs", c["ty"], c.get("s"), c.get("name"))


def _has_refmut(t):
    while isinstance(t, tuple) and t and t[0] == "mutated":
        t = t[1]
    return isinstance(t, tuple) and bool(t) and t[0] == "refmut"


def strip_ref(t):
    while isinstance(t, tuple) and t and t[0] in ("ref", "refmut"):
        t = t[1] if t[0] == "ref" else t[2]
    return t


def strip_all(t):
    """remove ref / mutated / transparent wrappers everywhere"""
    if not isinstance(t, tuple):
        return t
    if t and t[0] == "ref":
        return strip_all(t[1])
    if t and t[0] == "refmut":
        return strip_all(t[2])
    if t and t[0] == "mutated":
        return strip_all(t[1])
    if t and t[0] == "call" and len(t[2]) == 1 and is_transparent_call(t[1]):
        return strip_all(t[2][0])
    r = tuple(strip_all(x) for x in t)
    return _canon(r)


import re as _re
_INT_FROM = _re.compile(r"^core::convert::num::<impl core::convert::From<[ui]\d+> for ([ui]\d+)>::from$")
_UCHECKED_SUB = _re.compile(r"^core::num::<impl u(\d+|size)>::checked_sub$")


_PRIM_BINOP = _re.compile(r"^<&?[ui](\d+|size) as core::ops::(?:bit|arith)::(BitAnd|BitOr|BitXor|Shl|Shr)<&?[ui](\d+|size)>>::\w+$")


def _canon(t):
    """std spellings of one arithmetic fact have one term: `uB::from(x: uA)` is the widening cast `x as uB`; the payload of
    `a.checked_sub(b)` (unsigned) is `a - b`"""
    if t and t[0] == "call" and isinstance(t[1], str) and len(t[2]) == 1:
        m = _INT_FROM.match(t[1])
        if m:
            return ("cast", t[2][0], m.group(1))
    if t and t[0] == "call" and isinstance(t[1], str) and len(t[2]) == 2:
        m = _PRIM_BINOP.match(t[1])       # `&x & 0x80` on a reference operand is a trait call in MIR
        if m:
            return ("bin", m.group(2), t[2][0], t[2][1])
    if t and t[0] == "f" and len(t) == 3 and isinstance(t[1], tuple) and len(t[1]) == 4 and t[1][0] == "agg" and t[1][1] == "tuple" and \
            str(t[2]).isdigit() and int(t[2]) < len(t[1][3]):
        return t[1][3][int(t[2])]       # field of a literally built tuple (`let (a, b) = helper(..)` after inlining)
    if t and t[0] == "f" and len(t) == 3 and t[2] == "0" and isinstance(t[1], tuple) and t[1] and t[1][0] == "dc" and t[1][2] == "Some":
        c = t[1][1]
        if isinstance(c, tuple) and c and c[0] == "call" and isinstance(c[1], str) and _UCHECKED_SUB.match(c[1]) and len(c[2]) == 2:
            return ("bin", "Sub", c[2][0], c[2][1])
    return t


TRANSPARENT = (
    "core::convert::AsRef::as_ref", "as core::convert::AsRef", "core::ops::deref::Deref::deref",
    "as core::ops::deref::Deref>::deref", "as core::clone::Clone>::clone", "core::clone::Clone::clone",
    "as core::borrow::Borrow", "as core::convert::Into<", "core::convert::Into::into",
    "as core::convert::From<T>>::from", "as core::ops::deref::DerefMut>::deref_mut",
    "as core::iter::traits::collect::IntoIterator>::into_iter",
)


def is_transparent_call(name):
    return any(x in name for x in TRANSPARENT)


def normalise_cond(fb, term, lab, dty):
    kind, vals = lab
    t = strip_all(term)
    if dty == "bool":
        # switch(b) [0: F, otherwise: T]
        if kind == "in":
            truth = (vals != (0,))
        else:
            truth = (vals == (0,))
        # fold Not
        while t and t[0] == "un" and t[1] == "Not":
            t = t[2]
            truth = not truth
        return (t, ("bool", truth))
    if t and t[0] == "discr":
        base = t[2]
        inner = t[1]
        vt = variant_table(fb, base)
        # `a.checked_sub(b)` on unsigned integers is None exactly when a < b
        if inner and inner[0] == "call" and isinstance(inner[1], str) and _UCHECKED_SUB.match(inner[1]) and len(inner[2]) == 2 and vt:
            names = set(vt.get(v, str(v)) for v in vals) if kind == "in" else set(vt.values()) - set(vt.get(v, str(v)) for v in vals)
            if names == {"None"}:
                return (("bin", "Lt", inner[2][0], inner[2][1]), ("bool", True))
            if names == {"Some"}:
                return (("bin", "Lt", inner[2][0], inner[2][1]), ("bool", False))
        # `?` : Try::branch(R) Continue/Break -> R ok / R err
        if inner and inner[0] == "call" and "Try" in inner[1] and inner[1].endswith("branch"):
            inner = inner[2][0] if inner[2] else inner
            if kind == "in":
                return (inner, ("try", vals == (0,)))
            return (inner, ("try", vals != (0,)))
        if vt:
            allv = set(vt)
            if kind == "in":
                names = tuple(sorted(vt.get(v, str(v)) for v in vals))
            else:
                names = tuple(sorted(vt[v] for v in allv - set(vals)))
            return (inner, ("is", names))
        return (inner, (kind, vals))
    return (t, (kind, vals))


def variant_table(fb, base):
    if base in EXT_VARIANTS:
        return EXT_VARIANTS[base]
    a = fb.adts.get(base) if fb else None
    if a and a["kind"] == "Enum":
        out = {}
        for v in a["variants"]:
            try:
                out[int(v.get("discr", "0"))] = v["name"]
            except ValueError:
                pass
        return out
    return None


def show(t, depth=0):
    """compact rendering of a term"""
    if not isinstance(t, tuple) or not t:
        return str(t)
    k = t[0]
    if k == "arg":
        return t[2]
    if k == "var":
        return "%s" % t[2]
    if k == "c":
        return "%s%s" % (t[2], ("(%s)" % t[3].split("::")[-1]) if t[3] else "")
    if k == "cb":
        return "b%r" % (bytes(t[2]),)
    if k == "cs":
        return str(t[2])
    if k == "f":
        return "%s.%s" % (show(t[1]), t[2])
    if k == "dc":
        return "(%s as %s)" % (show(t[1]), t[2])
    if k == "ref":
        return "&" + show(t[1])
    if k == "refmut":
        return "&mut " + show(t[2])
    if k == "mutated":
        return show(t[1])
    if k == "call":
        return "%s(%s)" % (short(t[1]), ", ".join(show(a) for a in t[2]))
    if k == "bin":
        return "(%s %s %s)" % (show(t[2]), t[1], show(t[3]))
    if k == "un":
        return "%s(%s)" % (t[1], show(t[2]))
    if k == "cast":
        return "(%s as %s)" % (show(t[1]), t[2])
    if k == "discr":
        return "discr(%s)" % show(t[1])
    if k == "agg":
        return "%s%s(%s)" % (short(t[1]) if t[1] else "", ("::" + t[2]) if t[2] else "",
                             ", ".join(show(a) for a in t[3]))
    if k == "idx":
        return "%s[%s]" % (show(t[1]), show(t[2]))
    if k == "closure":
        return "closure %s" % short(t[1])
    if k == "fnval":
        return "fn " + short(t[1])
    return str(t)


def short(name):
    """last two path segments (generic argument lists dropped)"""
    if name.startswith("<"):
        return name
    out = []
    depth = 0
    for ch in name:
        if ch == "<":
            depth += 1
        elif ch == ">":
            depth -= 1
        elif depth == 0:
            out.append(ch)
    parts = [x for x in "".join(out).split("::") if x]
    return "::".join(parts[-2:]) if len(parts) > 2 else "::".join(parts)


def contains(t, pred):
    """does any sub-term satisfy pred?"""
    if pred(t):
        return True
    if isinstance(t, tuple):
        return any(contains(x, pred) for x in t if isinstance(x, tuple))
    return False


def subterms(t):
    yield t
    if isinstance(t, tuple):
        for x in t:
            if isinstance(x, tuple):
                yield from subterms(x)
