"""Decision tables: a function whose branches only compare one integer against literals is a finite table.
We extract (guards -> outcome) per path and *evaluate the table* at chosen points (this evaluates the extracted
comparisons, not the program)."""
from . import paths as P
from .mir import strip_all

OPS = {
    "Lt": lambda a, b: a < b, "Le": lambda a, b: a <= b, "Gt": lambda a, b: a > b, "Ge": lambda a, b: a >= b,
    "Eq": lambda a, b: a == b, "Ne": lambda a, b: a != b,
}


def int_guards(events, is_var):
    """[(op, literal, truth)] for the path's conditions of the form `var OP literal`; None if the path has a
    condition on the variable that is not of that form"""
    out = []
    for t, lab in P.conds(events):
        t = strip_all(t)
        if t[0] == "bin" and t[1] in OPS and lab[0] == "bool":
            a, b = strip_all(t[2]), strip_all(t[3])
            if is_var(a) and b[0] == "c":
                out.append((t[1], b[2], lab[1]))
                continue
            if is_var(b) and a[0] == "c":
                flip = {"Lt": "Gt", "Le": "Ge", "Gt": "Lt", "Ge": "Le", "Eq": "Eq", "Ne": "Ne"}[t[1]]
                out.append((flip, a[2], lab[1]))
                continue
        # switch directly on the variable (match n { 0 => .. })
        if is_var(t) and lab[0] in ("in", "notin"):
            out.append((lab[0], lab[1], True))
            continue
        if any(is_var(x) for x in _sub(t)) and lab[0] != "try":
            return None
    return out


def _sub(t):
    from .mir import subterms
    return subterms(t)


def holds(guards, v):
    for op, lit, truth in guards:
        if op == "in":
            r = v in lit
        elif op == "notin":
            r = v not in lit
        else:
            r = OPS[op](v, lit)
        if r != truth:
            return False
    return True


def literals(guard_sets):
    s = set()
    for g in guard_sets:
        for op, lit, truth in g:
            if isinstance(lit, tuple):
                s.update(lit)
            else:
                s.add(lit)
    return s


def probe_points(lits, lo=0, hi=2 ** 64 - 1, extra=()):
    pts = {lo, hi, lo + 1, hi - 1}
    for x in list(lits) + list(extra):
        for d in (-1, 0, 1):
            if lo <= x + d <= hi:
                pts.add(x + d)
    return sorted(pts)
