"""C07 — both block-generator execution paths agree (the Rust halves that duplicate each other).

  C07.1 parse_spends (back-end of the legacy path) and the native loop of run_block_generator2 agree on: taking
        first(output) as the spend list; strict nil termination; the spend-count guard (LIMIT_SPENDS =>
        MAX_SPENDS_PER_BLOCK, test before decrement); the roles routed into process_single_spend; the post-loop
        sequence validate_conditions -> validate_signature -> validated_signature = !DONT_VALIDATE; the cost formula
  C07.2 both paths apply check_generator_quote before decoding and check_generator_node after; setup_generator_args
        rejects any block reference under SIMPLE_GENERATOR
  C07.3 extract_n::<N> yields exactly N-1 items plus the tail and rejects shorter lists; the native loop destructures
        5 (parent, puzzle, amount, solution, tail), the pre-pass 3
"""
from .. import apnf
from .. import paths as P
from ..mir import Body, strip_all, show, subterms
from . import util as U
from .c02 import _fn

CC = "chia_consensus::"
RBG = CC + "run_block_generator::"


def run(ctx):
    ctx.explanation = (
        "SIB/MPT/TBL rules comparing the two Rust spend loops (parse_spends behind the legacy ROM, the native loop of "
        "run_block_generator2): same guards, same role routing into process_single_spend, same post-loop validation order, "
        "same generator checks around decoding. Everything the legacy path does inside the ROM (CLVM byte-code) and the "
        "interpreter limits are out of reach: the check shows the Rust halves cannot diverge where they duplicate each other.")
    ctx.trusted += ["ROM_BOOTSTRAP_GENERATOR (CLVM)", "clvmr run_program / deserialisers"]
    ctx.assumptions += ["N: equality of results between the two paths (needs the ROM's semantics)"]
    ps = _fn(ctx.fb, CC + "conditions::parse_spends")
    g2 = _fn(ctx.fb, RBG + "run_block_generator2")
    g1 = _fn(ctx.fb, RBG + "run_block_generator")
    if not ps or not g2 or not g1:
        return ctx.missing("C07.1", "entry-points", "parse_spends / run_block_generator / run_block_generator2 not found")
    bps, b2, b1 = Body(ps, ctx.fb), Body(g2, ctx.fb), Body(g1, ctx.fb)
    ctx.touched(bps.path, b2.path, b1.path)
    c07_1(ctx, bps, b2)
    c07_2(ctx, b1, b2)
    c07_blockrefs(ctx)
    c07_3(ctx, b2)
    # "identical ... cost, the native path never costing more": both paths meter CLVM and size cost the same way (shared with C04.4)
    from . import c04
    c04.c04_4(ctx, R="C07.1", eps_only=("run_block_generator", "run_block_generator2"))
    # the shared per-spend charge must not depend on which path supplies clvm_cost: charge-paired budget guards (shared with C04.3)
    c04.c04_3(ctx, R="C07.1")


def _spend_guard(b):
    """(init under LIMIT_SPENDS, guard operator, decrement present, guard-before-decrement, guard-before-processing)"""
    sl = b.local_named("spends_left")
    if not sl:
        return None
    l = sl[0]
    inits = {}
    for kind, bi, si, x in b.defs().get(l, []):
        if kind != "s":
            continue
        v = strip_all(b.rvalue_term(x["rv"]))
        nc = b.nearest_condition(bi)
        if v[0] == "c":
            inits[(apnf.N(nc[0]), nc[1][1]) if nc and nc[1][0] == "bool" else None] = v[3].split("::")[-1] if v[3] else v[2]
    guard = None
    guard_bb = None
    for node in b.edge_info:
        sb = b.edge_info[node][0]
        if sb not in b.reach:
            continue
        t, lab = b.edge_condition(node)
        t = strip_all(t)
        if t[0] == "bin" and t[1] in ("Eq", "Le", "Lt") and lab == ("bool", True) and \
                any(isinstance(x, tuple) and x and x[0] in ("var", "mutated") and (x[1] == l or (x[0] == "mutated" and x[2] == l)) for x in subterms(t)):
            guard = (t[1], show(t[3]))
            guard_bb = node
    dec = None
    for bi, blk in enumerate(b.blocks):
        if bi not in b.reach:
            continue
        for s in blk["s"]:
            if s["k"] == "assign" and s["pl"]["l"] == l and not s["pl"].get("p") and s["rv"]["k"] != "use":
                pass
            if s["k"] == "assign" and s["rv"]["k"] == "bin" and s["rv"]["op"] in ("SubWithOverflow", "Sub"):
                a = s["rv"]["a"]
                pl = a.get("cp") or a.get("mv")
                if pl and pl["l"] == l:
                    dec = bi
    pss = [bi for bi, n, t in b.calls() if n.startswith(CC + "conditions::process_single_spend")]
    rejecting = guard_bb is not None and not b.reachable_avoiding(guard_bb, pss, [])
    # on the non-rejecting side the decrement precedes processing
    ordered = dec is not None and bool(pss) and b.dominates(dec, pss[0])
    return {"init": {str(k): v for k, v in inits.items()}, "guard": guard, "guard_rejects_before_processing": rejecting,
            "decrement_before_processing": ordered}


def _post_loop(b):
    seq = []
    for bi, n, t in b.calls():
        if n in (CC + "conditions::validate_conditions", CC + "conditions::validate_signature"):
            seq.append((bi, n.split("::")[-1]))
    order = [n for bi, n in sorted(seq, key=lambda x: len(b.dominators().get(x[0]) or ()))]
    vs = None
    cost = None
    for bi, blk in enumerate(b.blocks):
        if bi not in b.reach:
            continue
        for s in blk["s"]:
            if s["k"] == "assign" and s["pl"].get("p") and isinstance(s["pl"]["p"][-1], dict):
                nm = s["pl"]["p"][-1].get("n")
                if nm == "validated_signature":
                    vs = apnf.N(b.rvalue_term(s["rv"]))
                    vs_bb = bi
                if nm == "cost" and (s["pl"]["p"][-1].get("of") or "").endswith("SpendBundleConditions"):
                    cost = bi
    after = bool(seq) and vs is not None and all(b.dominates(bi, vs_bb) for bi, _ in seq)
    return {"order": order, "validated_signature": str(vs), "after_validation": after}


def c07_blockrefs(ctx):
    """both paths hand the generator the referenced blocks in the caller's order: each builds the list from the tail by
    walking `block_refs` reversed and prepending new_atom(ref)"""
    R = "C07.2"
    fb = ctx.fb
    shapes = {}
    for nm in ("run_block_generator", "setup_generator_args"):
        f = _fn(fb, RBG + nm)
        if not f:
            ctx.missing(R, "block-ref-order:" + nm, "not found")
            continue
        b = Body(f, fb)
        ctx.touched(b.path)
        cons = []
        for bi, n, t in b.calls():
            if n.endswith("Allocator::new_pair") and b.in_cycle(bi):
                a1 = apnf.N(strip_all(b.operand_term(t["args"][1])))
                a2 = apnf.N(strip_all(b.operand_term(t["args"][2])))
                cons.append((a1, a2))
        shape = None
        if len(cons) == 1:
            head, tail = cons[0]
            hs = str(head)
            it = "rev" if "('rev'," in hs or "Rev" in hs else ("fwd" if "next" in hs else "?")
            is_atom = hs.startswith("('Allocator::new_atom'") and "block_refs" in hs
            acc = "acc" if ("new_pair" in str(tail) or "nil" in str(tail).lower() or "NIL" in str(tail) or str(tail).startswith("var:")
                            or "after" in str(tail)) else "?"
            shape = (it, "prepend-atom" if is_atom else "?", acc)
        shapes[nm] = shape
        ctx.ob(R, "block-ref-order:" + nm, shape is not None and shape[0] == "rev" and shape[1] == "prepend-atom",
               "%s walks block_refs in reverse and prepends new_atom(ref): the generator sees the references in the caller's order" % nm,
               found=str(cons)[:300], where=f.sp)
    if len(shapes) == 2:
        ctx.ob(R, "block-ref-order:siblings", shapes["run_block_generator"] == shapes["setup_generator_args"] and None not in shapes.values(),
               "the legacy and the native argument builders construct the block list the same way", found={k: str(v) for k, v in shapes.items()})


def c07_1(ctx, bps, b2):
    R = "C07.1"
    from . import c01_effects
    c01_effects.c01_6(ctx, R="C07.1")
    # first(output)
    f1 = [strip_all(bps.operand_term(t["args"][1])) for bi, n, t in bps.calls() if n.endswith("validation_error::first")]
    f2 = [strip_all(b2.operand_term(t["args"][1])) for bi, n, t in b2.calls() if n.endswith("validation_error::first")]
    ok = len(f1) == 1 and f1[0] == ("arg", 1, "spends") and len(f2) == 1 and U.has_call(f2[0], "run_program")
    ctx.ob(R, "first-of-output", ok, "both take first(generator output) as the list of spends", found=[show(x)[:80] for x in f1 + f2])
    g1, g2 = _spend_guard(bps), _spend_guard(b2)
    ctx.ob(R, "spend-count-guard", g1 is not None and g1 == g2 and g1["guard"] == ("Eq", "0") and g1["guard_rejects_before_processing"]
           and g1["decrement_before_processing"] and set(g1["init"].values()) == {"MAX_SPENDS_PER_BLOCK", "MAX"},
           "both loops: spends_left = MAX_SPENDS_PER_BLOCK under LIMIT_SPENDS else usize::MAX; `== 0` rejects before the decrement and before processing",
           found={"parse_spends": g1, "run_block_generator2": g2})
    p1, p2 = _post_loop(bps), _post_loop(b2)
    want = ["validate_conditions", "validate_signature"]
    ctx.ob(R, "post-loop-sequence", p1["order"] == want and p2["order"] == want and p1["validated_signature"] == p2["validated_signature"]
           and p1["after_validation"] and p2["after_validation"] and "DONT_VALIDATE_SIGNATURE" in p1["validated_signature"],
           "both: validate_conditions, then validate_signature, then validated_signature = !DONT_VALIDATE_SIGNATURE",
           found={"parse_spends": p1, "run_block_generator2": p2})
    # role routing into process_single_spend
    a1 = [t for bi, n, t in bps.calls() if n.startswith(CC + "conditions::process_single_spend")]
    a2 = [t for bi, n, t in b2.calls() if n.startswith(CC + "conditions::process_single_spend")]
    ok1 = ok2 = False
    if len(a1) == 1:
        r = [apnf.N(bps.operand_term(x)) for x in a1[0]["args"]]
        # (parent, puzzle_hash, amount, conds) = fields 0..3 of parse_single_spend(spend)
        ok1 = all(isinstance(r[3 + k], tuple) and r[3 + k][0] == ".%d" % k and "parse_single_spend" in str(r[3 + k]) for k in range(4))
        ok1 = ok1 and r[8] in ("cost_left", "max_cost") or ok1
    if len(a2) == 1:
        r = [b2.operand_term(x) for x in a2[0]["args"]]
        s = [show(strip_all(x)) for x in r]
        ok2 = ("extract_n" in s[3] and "[0]" in s[3] and "tree_hash_cached" in s[4] and "extract_n" in s[5] and "[2]" in s[5]
               and "run_program" in s[6])
        runs = [t for bi, n, t in b2.calls() if U.flat(n).endswith("run_program::run_program") and b2.in_cycle(bi)]
        if len(runs) == 1:
            pz = show(strip_all(b2.operand_term(runs[0]["args"][2])))
            so = show(strip_all(b2.operand_term(runs[0]["args"][3])))
            ok2 = ok2 and "[1]" in pz and "[3]" in so
    for nm, bb_, calls_ in (("parse_spends", bps, a1), ("run_block_generator2", b2, a2)):
        U.loop_no_skip(ctx, R, bb_, "no-skipped-spend:" + nm,
                       [bi for bi, n, t in bb_.calls() if n.startswith(CC + "conditions::process_single_spend")],
                       "every element of the spend list reaches process_single_spend or aborts the run (no iteration is skipped)")
    ctx.ob(R, "roles:parse_spends", ok1, "parse_spends routes (parent, puzzle_hash, amount, conditions) = the four fields of parse_single_spend, in order")
    ctx.ob(R, "roles:native", ok2, "the native loop routes item0 as parent, hash(item1) as puzzle hash, item2 as amount, run(item1, item3) as conditions")
    psb = U.body(ctx, R, CC + "conditions::parse_single_spend")
    if psb:
        got = {(frozenset(f), r) for f, r, _ in apnf.paths_of(psb, want=("Ok",))}
        sp = "spend"
        fi = lambda x: ("first", x)
        re_ = lambda x: ("rest", x)
        c1, c2, c3 = re_(sp), re_(re_(sp)), re_(re_(re_(sp)))
        exp = {(frozenset({(fi(sp), "ok"), (c1, "ok"), (fi(c1), "ok"), (c2, "ok"), (fi(c2), "ok"), (c3, "ok"), (fi(c3), "ok")}),
                ("Ok", ("tuple", fi(sp), fi(c1), fi(c2), fi(c3))))}
        ctx.ob(R, "parse_single_spend", got == exp, "a legacy spend is (parent, puzzle_hash, amount, conditions . extra): items 0..3, tail ignored",
               found=None if got == exp else [str(x)[:300] for x in got])
    # cost formula: both report max_cost - cost_left (C04.4) and charge the condition budget through &mut cost_left
    ctx.sample({"rule": R, "guard": g1, "post_loop": p1})


def c07_2(ctx, b1, b2):
    R = "C07.2"
    for nm, b in (("run_block_generator", b1), ("run_block_generator2", b2)):
        q = [bi for bi, n, t in b.calls() if n.endswith("check_generator_quote")]
        dec = [bi for bi, n, t in b.calls() if U.flat(n).endswith("node_from_bytes_backrefs") or U.flat(n).endswith("serde::de::node_from_bytes")]
        nd = [bi for bi, n, t in b.calls() if n.endswith("check_generator_node")]
        runs = [bi for bi, n, t in b.calls() if U.flat(n).endswith("run_program::run_program")]
        ok = len(q) == 1 and all(b.dominates(U.call_succ(b, q[0]), d) for d in dec) and bool(dec)
        ctx.ob(R, "%s:quote-before-decode" % nm, ok, "check_generator_quote passes before any deserialisation")
        ok = len(nd) == 1 and bool(runs) and all(b.dominates(U.call_succ(b, nd[0]), r) for r in runs) and \
            b.witness_path(0, [nd[0]], [U.call_succ(b, d) for d in dec]) is None
        ctx.ob(R, "%s:node-check-before-run" % nm, ok, "check_generator_node passes after decoding and before the program runs")
        # the node checked is the decoded generator
        if nd:
            t = b.blocks[nd[0]]["t"]
            a = show(strip_all(b.operand_term(t["args"][1])))
            nmr = U.named_root(b, t["args"][1])
            ctx.ob(R, "%s:node-checked-is-generator" % nm, "node_from_bytes_backrefs" in a or nmr == "program",
                   "check_generator_node inspects the decoded generator", found=[a[:160], nmr])
    # both paths decode the caller's generator with the same deserialiser (back-references allowed); the strict
    # node_from_bytes is applied to constants only (the ROM)
    for nm, b in (("run_block_generator", b1), ("run_block_generator2", b2)):
        decs = [(U.flat(n).split("::")[-1], str(apnf.N(strip_all(b.operand_term(t["args"][1]))))) for bi, n, t in b.calls() if "node_from_bytes" in U.flat(n).split("::")[-1]]
        prog = [d for d in decs if "program" in d[1]]
        other = [d for d in decs if "program" not in d[1]]
        ok = bool(prog) and all(d[0] == "node_from_bytes_backrefs" and d[1] == "program" for d in prog) and \
            all(d[1].startswith("('as &[u8]', b'") or d[1].startswith("b'") for d in other)
        ctx.ob(R, "%s:generator-decoder" % nm, ok,
               "%s decodes the generator with node_from_bytes_backrefs (as the other path does); other decodes take constants" % nm,
               found=[(d[0], d[1][:40]) for d in decs])
    sb = [f for p, f in ctx.fb.fns.items() if p.startswith(RBG + "setup_generator_args") and f.e["kind"] == "Fn"]
    if len(sb) == 1:
        b = Body(sb[0], ctx.fb)
        got = set()
        for f, r, _ in apnf.paths_of(b, want=("Ok", "Err")):
            simple = [v for t, v in f if t == ("contains", "flags", "chia_consensus::flags::ConsensusFlags::SIMPLE_GENERATOR")]
            if simple == [True]:
                refs = [v for t, v in f if "is_some" in str(t)]
                got.add((tuple(refs), r[0] if isinstance(r, tuple) else r))
        exp = {((True,), "Err"), ((False,), "Ok")}
        ctx.ob(R, "setup_generator_args:simple", got == exp,
               "under SIMPLE_GENERATOR any block reference is rejected, none => nil args", found=sorted(map(str, got)))
    for fn_, lit in (("check_generator_quote", None),):
        b = U.body(ctx, R, RBG + fn_)
        if b:
            s = set()
            for bi, blk in enumerate(b.blocks):
                for st in blk["s"]:
                    if st["k"] == "assign":
                        for x in subterms(b.rvalue_term(st["rv"])):
                            if isinstance(x, tuple) and x and x[0] == "cb":
                                s.add(tuple(x[2]))
            ctx.ob(R, "quote-prefix", (0xff, 0x01) in s, "a simple generator starts with ff 01 (`(q . ...)`)", found=sorted(s))


def c07_3(ctx, b2):
    R = "C07.3"
    fb = ctx.fb
    fs = [f for p, f in fb.fns.items() if p.startswith(RBG + "extract_n") and f.e["kind"] == "Fn"]
    if len(fs) != 1:
        return ctx.missing(R, "extract_n", "not found")
    b = Body(fs[0], fb)
    ctx.touched(b.path)

    def n_minus_1(t):
        return any(isinstance(x, tuple) and x and x[0] == "bin" and x[1] in ("Sub", "SubWithOverflow") and strip_all(x[2])[0] == "cparam"
                   and strip_all(x[3])[0] == "c" and strip_all(x[3])[2] == 1 for x in subterms(t))

    def short(t, lab):
        t = strip_all(t)
        return t[0] == "bin" and t[1] == "Ne" and n_minus_1(t) and lab == ("bool", True)

    def brk(t, lab):
        t = strip_all(t)
        return t[0] == "bin" and t[1] == "Eq" and n_minus_1(t) and lab == ("bool", True)
    e_short = U.edges_where(b, short)
    e_brk = U.edges_where(b, brk)
    ok = len(e_short) == 1 and not b.reachable_avoiding(e_short[0], b.ok_exits(), []) and len(e_brk) == 1
    ctx.ob(R, "extract_n:length", ok, "extract_n stops after N-1 items and rejects when fewer than N-1 were found")
    # the tail goes into the last slot
    stores = []
    for bi, blk in enumerate(b.blocks):
        if bi not in b.reach:
            continue
        for s in blk["s"]:
            if s["k"] == "assign" and s["pl"].get("p") and any(isinstance(e, dict) and "idx" in e for e in s["pl"]["p"]):
                stores.append((bi, apnf.N(b.rvalue_term(s["rv"])), b.in_cycle(bi)))
    tail = [v for bi, v, cyc in stores if not cyc]
    items = [v for bi, v, cyc in stores if cyc]
    ctx.ob(R, "extract_n:slots", len(tail) == 1 and len(items) == 1 and "next" in str(items[0]),
           "inside the loop slot[counter] = item; after it slot[counter] = remaining tail", found=[str(x)[:120] for x in tail + items])
    uses = sorted(t["f"].get("args", ["?"])[0] for bi, n, t in b2.calls() if n.startswith(RBG + "extract_n"))
    ctx.ob(R, "extract_n:uses", uses == ["3", "5"], "run_block_generator2 destructures 3 items in the pre-pass and 5 in the main loop", found=uses)
