"""C01.4 - C01.8: per-condition effects in parse_conditions (against a hand-written effect table), deferred
validation (validate_conditions), list termination, mempool-visitor flags, summary conversion."""
from .. import apnf
from .. import paths as P
from ..mir import Body, strip_all, show, subterms
from . import util as U
from . import regions as RG

COSTC = ("contains", "flags", "chia_consensus::flags::ConsensusFlags::COST_CONDITIONS")
ANE = ("call", ("assert_not_ephemeral", (".flags", "spend"), "state", ("Vec::len", (".spends", "ret"))))


def V(variant, k=0):
    return ("." + str(k), ("as:" + variant, "var:cva"))


def SP(f):
    return ("." + f, "spend")


def RT(f):
    return ("." + f, "ret")


def ST(f):
    return ("." + f, "state")


def P_(exit_, facts, effects):
    return (exit_, frozenset(facts), frozenset(effects))


# ---------------------------------------------------------------------------------- effect table (spec)
# Source: DESIGN.md appendix B.2 (from README / doc comments): per Condition variant the state it touches,
# with which fold operator, which guards reject, and which deferred sets it feeds.
def fold_rel(variant, field, opp, op, after):
    v = V(variant)
    F, O = SP(field), SP(opp)
    guard = ("Le", O, v) if after else ("Le", v, O)
    out = set()
    for fstate in ("Some", "None"):
        setv = ("set", F, ("Some", (op, F, v))) if fstate == "Some" else ("set", F, ("Some", v))
        out.add(P_("continue", {(F, fstate), (O, "None")}, {setv, ANE}))
        out.add(P_("continue", {(F, fstate), (O, "Some"), (guard, False)}, {setv, ANE}))
        out.add(P_("Err", {(F, fstate), (O, "Some"), (guard, True)}, {setv}))
    return out


def fold_abs_plain(variant, field, op):
    F = RT(field)
    return {P_("continue", set(), {("set", F, (op, F, V(variant)))})}


def fold_abs_opt(variant, field, op):
    F = RT(field)
    v = V(variant)
    return {P_("continue", {(F, "Some")}, {("set", F, ("Some", (op, F, v)))}),
            P_("continue", {(F, "None")}, {("set", F, ("Some", v))})}


def birth(variant, field, closure):
    F = SP(field)
    c = ("Option::is_some_and", F, ("closure", closure))
    return {P_("continue", {(c, False)}, {("set", F, ("Some", V(variant))), ANE}),
            P_("Err", {(c, True)}, set())}


def self_assert(cmp_):
    return {P_("continue", {(cmp_, False)}, set()), P_("Err", {(cmp_, True)}, set())}


def announce(variant, set_field, key):
    dec = ("decrement", "var:announce_countdown")
    ins = ("call", ("HashSet::insert", ST(set_field), key))
    return {P_("continue", {(COSTC, True)}, {ins}),
            P_("continue", {(COSTC, False), (dec, "ok")}, {("call", dec), ins}),
            P_("Err", {(COSTC, False), (dec, "err")}, {("call", dec)})}


def message(variant, send):
    dec = ("decrement", "var:announce_countdown")
    mode = V(variant, 0 if send else 1)
    own = ("SpendId::from_self", mode, SP("parent_id"), SP("puzzle_hash"), SP("coin_amount"), SP("coin_id"))
    other = V(variant, 1 if send else 0)
    msg = V(variant, 2)
    m = ("Message::Message", own, other, msg, 1) if send else ("Message::Message", other, own, msg, -1)
    push = ("call", ("Vec::push", ST("messages"), m))
    out = set()
    out.add(P_("continue", {(COSTC, True), (own, "ok")}, {push}))
    out.add(P_("Err", {(COSTC, True), (own, "err")}, set()))
    out.add(P_("continue", {(COSTC, False), (dec, "ok"), (own, "ok")}, {("call", dec), push}))
    out.add(P_("Err", {(COSTC, False), (dec, "ok"), (own, "err")}, {("call", dec)}))
    out.add(P_("Err", {(COSTC, False), (dec, "err")}, {("call", dec)}))
    return out


def charge(x):
    """the three cost accumulators move together by the same term x"""
    return {("set", "max_cost", (".0", ("SubWithOverflow", "max_cost", x))),
            ("set", RT("condition_cost"), (".0", ("AddWithOverflow", RT("condition_cost"), x))),
            ("set", SP("condition_cost"), (".0", ("AddWithOverflow", SP("condition_cost"), x)))}


def effect_table():
    T = {}
    T["AssertSecondsRelative"] = fold_rel("AssertSecondsRelative", "seconds_relative", "before_seconds_relative", "max", True)
    T["AssertHeightRelative"] = fold_rel("AssertHeightRelative", "height_relative", "before_height_relative", "max", True)
    T["AssertBeforeSecondsRelative"] = fold_rel("AssertBeforeSecondsRelative", "before_seconds_relative", "seconds_relative", "min", False)
    T["AssertBeforeHeightRelative"] = fold_rel("AssertBeforeHeightRelative", "before_height_relative", "height_relative", "min", False)
    T["AssertSecondsAbsolute"] = fold_abs_plain("AssertSecondsAbsolute", "seconds_absolute", "max")
    T["AssertHeightAbsolute"] = fold_abs_plain("AssertHeightAbsolute", "height_absolute", "max")
    T["AssertBeforeSecondsAbsolute"] = fold_abs_opt("AssertBeforeSecondsAbsolute", "before_seconds_absolute", "min")
    T["AssertBeforeHeightAbsolute"] = fold_abs_opt("AssertBeforeHeightAbsolute", "before_height_absolute", "min")
    T["AssertMyBirthSeconds"] = birth("AssertMyBirthSeconds", "birth_seconds", "{closure#0}")
    T["AssertMyBirthHeight"] = birth("AssertMyBirthHeight", "birth_height", "{closure#1}")
    T["AssertMyCoinId"] = self_assert(("ne", ("Allocator::atom", V("AssertMyCoinId")), SP("coin_id")))
    T["AssertMyParentId"] = self_assert(("ne", ("Allocator::atom", V("AssertMyParentId")), ("Allocator::atom", SP("parent_id"))))
    T["AssertMyPuzzlehash"] = self_assert(("ne", ("Allocator::atom", V("AssertMyPuzzlehash")), ("Allocator::atom", SP("puzzle_hash"))))
    T["AssertMyAmount"] = self_assert(("Ne", V("AssertMyAmount"), SP("coin_amount")))
    T["AssertEphemeral"] = {P_("continue", set(), {("call", ("HashSet::insert", ST("assert_ephemeral"), ("Vec::len", (".spends", "ret"))))})}
    T["SkipRelativeCondition"] = {P_("continue", set(), {ANE})}
    T["Skip"] = {P_("continue", set(), set())}
    T["CreateCoinAnnouncement"] = announce("CreateCoinAnnouncement", "announce_coin", ("tuple", SP("coin_id"), V("CreateCoinAnnouncement")))
    T["CreatePuzzleAnnouncement"] = announce("CreatePuzzleAnnouncement", "announce_puzzle", ("tuple", SP("puzzle_hash"), V("CreatePuzzleAnnouncement")))
    T["AssertCoinAnnouncement"] = announce("AssertCoinAnnouncement", "assert_coin", V("AssertCoinAnnouncement"))
    T["AssertPuzzleAnnouncement"] = announce("AssertPuzzleAnnouncement", "assert_puzzle", V("AssertPuzzleAnnouncement"))
    T["AssertConcurrentSpend"] = announce("AssertConcurrentSpend", "assert_concurrent_spend", V("AssertConcurrentSpend"))
    T["AssertConcurrentPuzzle"] = announce("AssertConcurrentPuzzle", "assert_concurrent_puzzle", V("AssertConcurrentPuzzle"))
    T["SendMessage"] = message("SendMessage", True)
    T["ReceiveMessage"] = message("ReceiveMessage", False)
    fee = ("Option::ok_or", ("checked_add", RT("reserve_fee"), V("ReserveFee")), "CODE")
    T["ReserveFee"] = {P_("continue", {(fee, "ok")}, {("set", RT("reserve_fee"), fee)}), P_("Err", {(fee, "err")}, set())}
    nc = ("NewCoin::NewCoin", ("Result::unwrap", ("try_into", ("Allocator::atom", V("CreateCoin", 0)))), V("CreateCoin", 1), V("CreateCoin", 2))
    ins = ("HashSet::insert", SP("create_coin"), nc)
    T["CreateCoin"] = {
        P_("continue", {(ins, True)}, {("call", ins), ("set", RT("addition_amount"),
                                                       (".0", ("AddWithOverflow", RT("addition_amount"), ("as u128", V("CreateCoin", 1)))))}),
        P_("Err", {(ins, False)}, {("call", ins)})}
    c = V("Softfork")
    T["Softfork"] = {P_("continue", {(("Lt", "max_cost", c), False)}, charge(c)), P_("Err", {(("Lt", "max_cost", c), True)}, set())}
    return T


AGGSIG = ("AggSigMe", "AggSigParent", "AggSigPuzzle", "AggSigAmount", "AggSigPuzzleAmount", "AggSigParentAmount",
          "AggSigParentPuzzle", "AggSigUnsafe")


def canon(x):
    if isinstance(x, tuple):
        if x and isinstance(x[0], str) and (x[0].startswith("ErrorCode::") or x[0].startswith("ValidationErr::")):
            return "CODE"
        return tuple(canon(y) for y in x)
    if isinstance(x, frozenset):
        return frozenset(canon(y) for y in x)
    return x


def run(ctx, spec):
    c01_4(ctx)
    c01_5(ctx)
    c01_6(ctx)
    from . import c01_mempool
    c01_mempool.run(ctx)


def c01_4(ctx, R="C01.4", only=None):
    b, regs = RG.variant_regions(ctx.fb)
    if b is None or regs is None:
        return ctx.missing(R, "parse_conditions", "cannot locate the `match cva` dispatch / loop head")
    ctx.touched(b.path)
    if only is None:
        ctx.ob(R, "exhaustive", regs.pop("__otherwise_unreachable__", False), "the match over Condition has no fall-through arm")
    T = effect_table()
    n = 0
    for variant, exp in sorted(T.items()):
        if only is not None and variant not in only:
            continue
        if variant not in regs:
            ctx.missing(R, "variant:" + variant, "no arm for this variant")
            continue
        got = {(ex, canon(f), frozenset(canon(e) for e in eff)) for ex, f, eff in regs[variant]}
        n += 1
        ok = got == exp
        found = None
        if not ok:
            found = {"missing": [_fmt(p) for p in list(exp - got)[:2]], "unexpected": [_fmt(p) for p in list(got - exp)[:2]]}
        ctx.ob(R, "variant:" + variant, ok,
               "effects of %s (%d paths) equal its row of the effect table" % (variant, len(got)) if ok else
               "effects of %s differ from its row of the effect table" % variant, where=b.fn.sp, found=found)
        if variant in ("AssertSecondsRelative", "CreateCoin"):
            ctx.sample({"rule": R, "variant": variant, "paths": [_fmt(p) for p in sorted(got, key=str)][:3]})
    if only is not None:
        ctx.floor(R, "selected condition variants with an effect row", n, len(only))
        return
    ctx.floor(R, "condition variants with an effect row", n, 28)
    handled = set(T) | set(AGGSIG)
    ctx.ob(R, "all-variants-covered", set(regs) <= handled, "every Condition variant has an effect row (or an AGG_SIG recipe, C05)",
           found=sorted(set(regs) - handled))
    # the two birth closures compare `v != new value`
    for k in (0, 1):
        cl = [f for f in ctx.fb.closures_of(b.path) if f.path.endswith("{closure#%d}" % k)]
        ok = False
        if len(cl) == 1:
            cb = Body(cl[0], ctx.fb)
            r = None
            for bi, kk, d, rv in cb.ret_assignments():
                r = strip_all(cb.rvalue_term(rv)) if kk != "call" else None
            ok = bool(r) and r[0] == "bin" and r[1] == "Ne" and any(isinstance(x, tuple) and x and x[0] == "arg" and x[1] == 1 for x in subterms(r)) \
                and any(isinstance(x, tuple) and x and x[0] == "arg" and x[1] == 0 for x in subterms(r))
        ctx.ob(R, "birth-closure#%d" % k, ok, "birth assertion rejects a *different* previous value (`|v| v != new`)")
    assert_not_ephemeral_exact(ctx, R)
    db = U.body(ctx, R, "chia_consensus::conditions::decrement")
    if db:
        got = set()
        for ev, ex in P.enumerate_paths(db, want_assign=True):
            got.add((P.ret_class(ev), frozenset(apnf.fact(t, l) for t, l in P.conds(ev)),
                     frozenset(x for x in (RG.effect_of(e) for e in ev) if x)))
        exp = {("Err", frozenset({(("Eq", "cnt", 0), True)}), frozenset()),
               ("Ok", frozenset({(("Eq", "cnt", 0), False)}), frozenset({("set", "cnt", (".0", ("SubWithOverflow", "cnt", 1)))}))}
        ctx.ob(R, "decrement", got == exp, "decrement: reject at 0, else subtract 1",
               found=None if got == exp else [str(x) for x in got])
    # announce countdown starts at 1024
    cnt = b.local_named("announce_countdown")
    ok = False
    if cnt:
        for kind, bi, si, x in b.defs().get(cnt[0], []):
            if kind == "s":
                v = strip_all(b.rvalue_term(x["rv"]))
                ok = v[0] == "c" and v[2] == 1024
    ctx.ob(R, "announce-limit", ok, "per-spend announcement/message limit starts at 1024")


def _named(x):
    """constants print by name where they have one"""
    if isinstance(x, tuple):
        return tuple(_named(y) for y in x)
    if x == 2:
        return "HAS_RELATIVE_CONDITION"
    return x


def _fmt(p):
    ex, f, e = p
    return {"exit": ex, "facts": sorted(map(str, f)), "effects": sorted(map(str, e))}


def _has_cast(t):
    return any(isinstance(x, tuple) and x and x[0] == "cast" for x in subterms(t))


def _widened_u128(t):
    """the u64 reserve fee is compared as u128 (the 128-bit fee difference is never truncated to meet it)"""
    t = strip_all(t)
    return t[0] == "cast" and t[2] == "u128"


# ---------------------------------------------------------------------------------- C01.5 deferred validation
def c01_5(ctx):
    R = "C01.5"
    fb = ctx.fb
    b = U.body(ctx, R, "chia_consensus::conditions::validate_conditions")
    if not b:
        return
    # every rejection guard with operands and operator
    guards = {
        "minting": lambda t: t[0] == "bin" and t[1] == "Lt" and U.has_field(t[2], "removal_amount") and U.has_field(t[3], "addition_amount"),
        "reserve-fee": lambda t: t[0] == "bin" and t[1] == "Lt" and U.has_field(t[2], "removal_amount") and U.has_field(t[2], "addition_amount")
        and U.has_field(t[3], "reserve_fee") and not _has_cast(t[2]) and _widened_u128(t[3]),
        "impossible-height-absolute": lambda t: t[0] == "bin" and t[1] == "Le" and U.has_field(t[2], "before_height_absolute") and
        U.has_field(t[3], "height_absolute") and not U.has_field(t[3], "before_height_absolute"),
        "impossible-seconds-absolute": lambda t: t[0] == "bin" and t[1] == "Le" and U.has_field(t[2], "before_seconds_absolute") and
        U.has_field(t[3], "seconds_absolute") and not U.has_field(t[3], "before_seconds_absolute"),
    }
    for name, pred in guards.items():
        edges = U.edges_where(b, lambda t, lab, pred=pred: lab == ("bool", True) and pred(strip_all(t)))
        ok = len(edges) == 1 and not b.reachable_avoiding(edges[0], b.ok_exits(), []) if edges else False
        ctx.ob(R, "guard:" + name, ok, "validate_conditions rejects on `%s` (operator and operands as specified)" % name, where=b.fn.sp)
    # every Ok exit is reached only after all deferred sets were examined: calls present
    need = {
        "concurrent-spend": "assert_concurrent_spend", "concurrent-puzzle": "assert_concurrent_puzzle",
        "assert-coin": "assert_coin", "assert-puzzle": "assert_puzzle", "ephemeral": "assert_ephemeral",
        "not-ephemeral": "assert_not_ephemeral", "messages": "messages",
    }
    txt = {}
    for bi, blk in enumerate(b.blocks):
        if bi not in b.reach:
            continue
        for s in blk["s"]:
            if s["k"] == "assign":
                for e in s["rv"].get("pl", {}).get("p", []) if isinstance(s["rv"].get("pl"), dict) else []:
                    if isinstance(e, dict) and e.get("n") in need.values():
                        txt.setdefault(e["n"], []).append(bi)
    for name, fld in need.items():
        ctx.ob(R, "reads:" + name, fld in txt, "validate_conditions examines ParseState.%s" % fld)
    # ephemeral rules use is_ephemeral
    ie = [bi for bi, n, t in b.calls() if n.endswith("conditions::is_ephemeral")]
    ctx.ob(R, "is_ephemeral-calls", len(ie) == 2, "both the ASSERT_EPHEMERAL and the relative-condition rule call is_ephemeral", found=len(ie))
    eb = U.body(ctx, R, "chia_consensus::conditions::is_ephemeral")
    if eb:
        gets = [strip_all(eb.operand_term(t["args"][1])) for bi, n, t in eb.calls() if U.flat(n).endswith("HashMap::get")]
        ok = len(gets) == 1 and U.has_field(gets[0], "parent_id") or (len(gets) == 1 and "parent_id" in str(gets[0]))
        ctx.ob(R, "is_ephemeral:parent-lookup", ok, "is_ephemeral looks the spend's *parent id* up in spent_coins",
               found=[show(g)[:200] for g in gets])
        cont = [strip_all(eb.operand_term(t["args"][1])) for bi, n, t in eb.calls() if U.flat(n).endswith("HashSet::contains")]
        ok = len(cont) == 1 and U.has_field(cont[0], "coin_amount") and "puzzle_hash" in str(cont[0])
        ctx.ob(R, "is_ephemeral:child-match", ok,
               "the parent's create_coin set must contain (this spend's puzzle hash, this spend's amount)", found=[show(c)[:240] for c in cont])
    is_ephemeral_exact(ctx, R)
    entry_points_validate(ctx, R)


def entry_points_validate(ctx, R):
    """every entry point reaches validate_conditions (and signature validation) on every Ok path"""
    fb = ctx.fb
    vc = "chia_consensus::conditions::validate_conditions"
    vs = "chia_consensus::conditions::validate_signature"
    for ep, need_sig in (("chia_consensus::conditions::parse_spends", True),
                         ("chia_consensus::run_block_generator::run_block_generator2", True),
                         ("chia_consensus::spendbundle_conditions::run_spendbundle", False)):
        fs = [f for p, f in fb.fns.items() if p == ep or (p.startswith(ep) and f.e["kind"] == "Fn")]
        if len(fs) != 1:
            ctx.missing(R, "entry:" + ep, "entry point not found")
            continue
        eb_ = Body(fs[0], fb)
        ctx.touched(eb_.path)
        vcs = [U.call_succ(eb_, bi) for bi, n, t in eb_.calls() if n == vc]
        U.must_pass(ctx, R, eb_, "entry:%s:validate_conditions" % ep.split("::")[-1], eb_.ok_exits(), vcs,
                    "every Ok return of %s has passed validate_conditions" % ep.split("::")[-1])
        if need_sig:
            vss = [U.call_succ(eb_, bi) for bi, n, t in eb_.calls() if n == vs]
            U.must_pass(ctx, R, eb_, "entry:%s:validate_signature" % ep.split("::")[-1], eb_.ok_exits(), vss,
                        "every Ok return of %s has passed validate_signature" % ep.split("::")[-1])
        # post_process before validate_conditions (for entry points that run with a visitor that has one;
        # the block path instantiates EmptyVisitor, whose hooks are empty)
        psp = [t for bi, n, t in eb_.calls() if n.endswith("conditions::process_single_spend")]
        visitor = psp[0]["f"].get("args", ["?"])[0] if psp else "V"
        if visitor.endswith("EmptyVisitor"):
            ctx.ob(R, "entry:%s:visitor" % ep.split("::")[-1], True, "block path runs with EmptyVisitor (no mempool bookkeeping)")
        else:
            pps = [U.call_succ(eb_, bi) for bi, n, t in eb_.calls() if "SpendVisitor" in n and n.endswith("post_process")]
            vcb = [bi for bi, n, t in eb_.calls() if n == vc]
            U.must_pass(ctx, R, eb_, "entry:%s:post_process-first" % ep.split("::")[-1], vcb, pps,
                        "the visitor's post_process runs before validate_conditions")


# ---------------------------------------------------------------------------------- C01.6 list termination
def c01_6(ctx, R="C01.6"):
    fb = ctx.fb
    # condition list: iterated with validation_error::next (rejects non-nil terminators)
    b = RG.parse_conditions_body(fb)
    if b is not None:
        nx = [bi for bi, n, t in b.calls() if n.endswith("validation_error::next")]
        ctx.ob(R, "conditions-list", len(nx) == 1 and b.in_cycle(nx[0]),
               "the condition list is walked with validation_error::next (strict nil terminator)")
    sp = U.body(ctx, R, "chia_consensus::conditions::parse_spends") if False else None
    fs = [f for p, f in fb.fns.items() if p.startswith("chia_consensus::conditions::parse_spends") and f.e["kind"] == "Fn"]
    if len(fs) == 1:
        pb = Body(fs[0], fb)
        nx = [bi for bi, n, t in pb.calls() if n.endswith("validation_error::next")]
        ctx.ob(R, "spend-list", len(nx) == 1 and pb.in_cycle(nx[0]), "the spend list is walked with validation_error::next")
    else:
        ctx.missing(R, "spend-list", "parse_spends not found")
    # native generator path: Allocator::next + explicit terminator check
    fs = [f for p, f in fb.fns.items() if p.startswith("chia_consensus::run_block_generator::run_block_generator2") and f.e["kind"] == "Fn"]
    if len(fs) == 1:
        gb = Body(fs[0], fb)

        def nonnil(t, lab):
            return t[0] == "bin" and t[1] in ("Ne", "Eq") and U.has_call(t, "Allocator::atom_len") and \
                lab == ("bool", t[1] == "Eq") and any(isinstance(x, tuple) and x and x[0] == "c" and x[2] == 0 for x in subterms(t))
        edges = U.edges_where(gb, nonnil)
        U.must_pass(ctx, R, gb, "native-spend-list-terminator", gb.ok_exits(), edges,
                    "run_block_generator2 accepts only if the spend list ends in nil (atom_len == 0)")
    else:
        ctx.missing(R, "native-spend-list-terminator", "run_block_generator2 not found")


def is_ephemeral_exact(ctx, R):
    """is_ephemeral has exactly two paths and no other test (in particular none on positions in the spend list):
       spent_ids.get(parent id of spends[i]) is None           -> false
       ...                                   is Some(j)        -> spends[j].create_coin.contains((puzzle hash, amount) of spends[i])
    The ephemeral rules (ASSERT_EPHEMERAL, no relative/birth conditions on ephemeral coins) are defined on the *set* of spends;
    block builders emit spends in the reverse of bundle order, so any positional test makes mempool and block verdicts differ."""
    eb = U.body(ctx, R, "chia_consensus::conditions::is_ephemeral")
    if not eb:
        return
    rows = set()
    try:
        for ev, ex in P.enumerate_paths(eb):
            if ex[0] != "return":
                rows.add(("exit:" + str(ex[0]),))
                continue
            cs = tuple(sorted((str(apnf.N(t)), str(l)) for t, l in P.conds(ev)))
            rows.add((cs, str(apnf.N(P.ret_of(ev)))))
    except P.Budget:
        return ctx.missing(R, "is_ephemeral:exact", "path budget exceeded")
    look = "('HashMap::get', 'spent_ids', ('Result::unwrap', ('try_from', ('Allocator::atom', ('.parent_id', ('[]', 'spends', 'spend_idx'))))))"
    ok = len(rows) == 2
    shape = {"none": False, "some": False}
    for r in rows:
        if len(r) != 2 or len(r[0]) != 1 or r[0][0][0] != look:
            ok = False
            continue
        lab, ret = r[0][0][1], r[1]
        if "None" in lab and ret in ("0", "False", "false"):
            shape["none"] = True
        elif "Some" in lab and ret.startswith("('HashSet::contains', ('.create_coin', ('[]', 'spends', " + look + ")), ('NewCoin::NewCoin', ") \
                and "('.puzzle_hash', ('[]', 'spends', 'spend_idx'))" in ret and "('.coin_amount', ('[]', 'spends', 'spend_idx'))" in ret:
            shape["some"] = True
        else:
            ok = False
    ctx.ob(R, "is_ephemeral:exact", ok and all(shape.values()),
           "is_ephemeral = parent id found in spent_ids AND that spend's create_coin contains (puzzle hash, amount); no other test "
           "(no dependence on the position of either spend in the list)", found=None if ok else sorted(map(str, rows))[:4], where=eb.fn.sp)


def assert_not_ephemeral_exact(ctx, R):
    """the helper records the spend for the ephemeral check unless it was recorded before, keyed on HAS_RELATIVE_CONDITION only"""
    # assert_not_ephemeral records the spend index once
    ab = U.body(ctx, R, "chia_consensus::conditions::assert_not_ephemeral")
    if ab:
        got = set()
        for ev, ex in P.enumerate_paths(ab, want_assign=True):
            facts = frozenset(apnf.fact(t, l) for t, l in P.conds(ev))
            eff = frozenset(x for x in (RG.effect_of(e) for e in ev) if x)
            got.add((facts, eff))
        test = ("Ne", ("BitAnd", "spend_flags", "HAS_RELATIVE_CONDITION"), 0)
        exp = {(frozenset({(test, True)}), frozenset()),
               (frozenset({(test, False)}), frozenset({("call", ("HashSet::insert", (".assert_not_ephemeral", "state"), "idx")),
                                                       ("set", "spend_flags", ("BitOr", "spend_flags", "HAS_RELATIVE_CONDITION"))}))}
        got2 = {(frozenset(_named(f) for f in fs), frozenset(_named(e) for e in es)) for fs, es in got}
        ctx.ob(R, "assert_not_ephemeral", got2 == exp, "assert_not_ephemeral inserts the spend index and sets HAS_RELATIVE_CONDITION",
               found=None if got2 == exp else [[sorted(map(str, a)), sorted(map(str, c))] for a, c in got2])
