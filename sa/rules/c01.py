"""C01 — spend conditions are accepted / rejected / summarised exactly per the rules.

Decided (structural, necessary conditions only):
  C01.1 parse_opcode: the accepted 1-byte codes are exactly the 35 rows of spec/conditions.json; 2-byte atoms are
        accepted iff their first byte is non-zero; every other length / any pair is rejected; every opcode constant
        is both whitelisted and dispatched in parse_args
  C01.2 parse_args: for each opcode the complete set of accepting paths (normalised: which sanitiser on which
        argument position with which literal size, list-terminator rule under STRICT_ARGS_COUNT, overflow class ->
        outcome, produced Condition variant and where its fields come from) equals the set generated from the
        opcode's spec row
  C01.3 the sanitiser atoms themselves (sanitize_hash, sanitize_announce_msg, sanitize_message_mode, parse_amount,
        first/rest/next/check_nil/atom, maybe_check_args_terminator) have exactly their specified accepting paths
  (further clauses: see c01_effects)
"""
from .. import apnf
from .. import paths as P
from ..mir import Body, strip_all, show, subterms
from . import util as U
from . import cond_spec as S

CC = "chia_consensus::"


def _shared(ctx):
    # keys of AGG_SIG conditions are accepted only through the checked decoder (shared with C05.4)
    from . import c05
    c05.c05_4(ctx, R="C01.2")
    # the amount suffix of the reported AGG_SIG_*AMOUNT messages is the canonical integer form (ladder shared with C11.1 / C05.1)
    from . import c11
    c11.ladder(ctx, "chia_consensus::make_aggsig_final_message::u64_to_bytes", "u64_to_bytes", rule="C01.2")


def run(ctx):
    ctx.explanation = (
        "TBL rules: the complete accepting-path sets of parse_opcode, of every arm of parse_args (selected by constant "
        "folding the opcode) and of each sanitiser are extracted from MIR by bounded path enumeration with an along-path "
        "symbolic environment, normalised (facts form a set; positions are first/rest chains; error codes collapsed; the "
        "terminator helper expanded) and compared for set equality with rows generated from the hand-written table "
        "spec/conditions.json; MPT/EFF/TBL rules for per-condition effects, deferred validation and mempool flags. Decides "
        "these clauses for all inputs and flag subsets, not the numeric end-to-end behaviour (clvmr, SHA-256, HashSet are trusted).")
    ctx.trusted += ["clvmr Allocator (sexp/atom/atom_len/small_number/nil)", "clvmr u64_from_bytes", "SHA-256", "std HashSet/HashMap"]
    ctx.assumptions += ["the rows of spec/conditions.json are the consensus rules (reviewed against README / public condition list)",
                        "N: quantitative end-to-end equality on concrete trees"]
    spec = S.load()
    _shared(ctx)
    from . import c04 as _c04
    _c04.c04_2(ctx, _c04.load(), R="C01.4")
    c01_1(ctx, spec)
    c01_2(ctx, spec, rule="C01.2")
    c01_3(ctx, spec)
    from . import c01_effects
    c01_effects.run(ctx, spec)
    from . import c01_owned
    c01_owned.run(ctx)


# ------------------------------------------------------------------ C01.1
def c01_1(ctx, spec, R="C01.1"):
    fb = ctx.fb
    want = {r["op"]: r["name"] for r in spec["rows"]}
    # opcode constants of the crate == rows of the table (both ways)
    consts = {p.split("::")[-1]: c.get("value") for p, c in fb.consts.items()
              if p.startswith(CC + "opcodes::") and c.get("ty") == "u16"}
    ctx.ob(R, "constants", {v: k for k, v in consts.items()} == want,
           "the ConditionOpcode constants are exactly the %d rows of the table" % len(want),
           expected=len(want), found={k: v for k, v in consts.items() if want.get(v) != k})
    b = U.body(ctx, R, CC + "opcodes::parse_opcode")
    if not b:
        return
    accepted = set()
    two_byte = None
    others = []
    try:
        ps = P.enumerate_paths(b)
    except P.Budget:
        return ctx.missing(R, "parse_opcode", "path budget")
    for events, ex in ps:
        if ex[0] != "return":
            continue
        rc = P.ret_class(events)
        if rc != "Some":
            continue
        facts_ = [apnf.fact(t, l) for t, l in P.conds(events)]
        lens = [(f[0], f[1]) for f in facts_ if isinstance(f[0], tuple) and f[0][:1] == ("Eq",) and "len" in str(f[0])]
        len_true = [f[0][2] for f in lens if f[1] is True]
        if len_true == [1]:
            ins = [f for f in facts_ if isinstance(f[1], tuple) and f[1][0] == "in"]
            if len(ins) == 1:
                accepted |= set(ins[0][1][1])
            else:
                others.append(sorted(map(str, facts_)))
        elif len_true == [2]:
            nz = [f for f in facts_ if isinstance(f[0], tuple) and f[0][:1] == ("Eq",) and f[0][2] == 0 and "[]" in str(f[0])]
            two_byte = bool(nz) and nz[0][1] is False
            r = apnf.N(P.ret_of(events))
            if "from_be_bytes" not in str(r):
                two_byte = False
        else:
            others.append(sorted(map(str, facts_)))
    ctx.ob(R, "one-byte-whitelist", accepted == set(want), "1-byte opcodes accepted == table rows",
           expected=sorted(want), found=sorted(accepted ^ set(want)), where=b.fn.sp)
    ctx.ob(R, "two-byte-rule", two_byte is True, "2-byte opcodes are accepted iff the first byte is non-zero (big-endian value)")
    ctx.ob(R, "no-other-accepting-path", not others, "atoms of any other length and all pairs are rejected", found=others[:3])
    ctx.sample({"rule": R, "accepted_one_byte": sorted(accepted)})


# ------------------------------------------------------------------ C01.2 (also C03.1 via `only`)
def c01_2(ctx, spec, rule="C01.2", only=None):
    R = rule
    b = U.body(ctx, R, CC + "conditions::parse_args")
    if not b:
        return
    names = b.fn.e["arg_names"]
    if "op" not in names:
        return ctx.missing(R, "parse_args", "parameter `op` not found")
    op_local = names.index("op") + 1
    n = 0
    for row in spec["rows"]:
        if only and row["template"] not in only and ("name:" + row["name"]) not in only:
            continue
        try:
            got = apnf.paths_of(b, env0={op_local: row["op"]}, want=("Ok",))
        except P.Budget:
            ctx.missing(R, "op:%s" % row["name"], "path budget exceeded")
            continue
        got = S.expand_helper({(S.canon(f), S.canon(r)) for f, r, _ in got})
        exp = S.expected(row, spec["sizes"])
        n += 1
        ok = got == exp
        detail = "accepting paths of %s (%d) equal the %d paths of its row (%s)" % (row["name"], len(got), len(exp), row["template"])
        found = None
        if not ok:
            found = _diff(got, exp)
            detail = "accepting paths of %s differ from its spec row: %s" % (row["name"], found["summary"])
        ctx.ob(R, "op:%s" % row["name"], ok, detail, where=b.fn.sp, found=found)
        if n <= 2 or row["op"] in (51, 80):
            ctx.sample({"rule": R, "op": row["name"], "paths": [[sorted(map(str, f)), str(r)] for f, r in sorted(got, key=str)][:3]})
    if only and "two-byte" not in only:
        ctx.floor(R, "lock/birth opcode rows", n, 10)
        return
    if not only:
        ctx.floor(R, "opcode rows", n, 35)
    # 2-byte opcodes (sampled range ends and interior points; the arm is one range pattern)
    lo, hi = spec["two_byte"]["range"]
    for op in (lo, lo + 1, 0x1234, 0xff00, hi):
        got = apnf.paths_of(b, env0={op_local: op}, want=("Ok",))
        got = S.expand_helper({(S.canon(f), S.canon(r)) for f, r, _ in got})
        ctx.ob(R, "op:two-byte:%d" % op, got == S.expected_two_byte(op),
               "2-byte opcode %d: accepted only without NO_UNKNOWN_CONDS, cost from the table" % op,
               found=None if got == S.expected_two_byte(op) else _diff(got, S.expected_two_byte(op)))
    if only:
        return
    # every value outside the table and outside the 2-byte range has no accepting path
    known = {r["op"] for r in spec["rows"]}
    bad = []
    for op in range(0, 256):
        if op in known:
            continue
        if apnf.paths_of(b, env0={op_local: op}, want=("Ok",)):
            bad.append(op)
    ctx.ob(R, "unknown-one-byte", not bad, "no other 1-byte opcode value has an accepting path in parse_args", found=bad)


def _diff(got, exp):
    missing = [(sorted(map(str, f)), str(r)) for f, r in exp - got]
    extra = [(sorted(map(str, f)), str(r)) for f, r in got - exp]
    summ = []
    # try to pair nearest paths to show the differing element
    for f, r in list(exp - got)[:2]:
        best = None
        for g, s in got - exp:
            d = len(f ^ g) + (0 if r == s else 1)
            if best is None or d < best[0]:
                best = (d, g, s)
        if best:
            summ.append({"expected_only": sorted(map(str, f - best[1])), "found_only": sorted(map(str, best[1] - f)),
                         "result_expected": str(r) if r != best[2] else "same", "result_found": str(best[2]) if r != best[2] else "same"})
        else:
            summ.append({"missing_path": sorted(map(str, f)), "result": str(r)})
    if not summ and extra:
        summ.append({"unexpected_accepting_path": extra[0]})
    return {"summary": summ, "n_missing": len(missing), "n_extra": len(extra)}


# ------------------------------------------------------------------ C01.3
def c01_3(ctx, spec, R="C01.3"):
    sz = spec["sizes"]

    def table(path, want=("Ok",), **kw):
        b = U.body(ctx, R, path)
        if not b:
            return None
        return {(S.canon(f), S.canon(r)) for f, r, _ in apnf.paths_of(b, want=want, **kw)}

    def check(name, got, exp):
        if got is None:
            return
        ctx.ob(R, "atom:" + name, got == exp, "accepting paths of %s equal its specification" % name,
               found=None if got == exp else _diff(got, exp))

    n_ = "n"
    atom_ok = (("atom", n_, "CODE"), "ok")
    # sanitize_hash(a, n, size, code): atom of exactly `size` bytes -> the node itself
    check("sanitize_hash", table(CC + "condition_sanitizers::sanitize_hash"),
          {(frozenset({atom_ok, (("Eq", ("len", ("atom", n_, "CODE")), "size"), True)}), ("Ok", n_))})
    check("sanitize_announce_msg", table(CC + "condition_sanitizers::sanitize_announce_msg"),
          {(frozenset({atom_ok, (("Gt", ("len", ("atom", n_, "CODE")), sz["message_max"]), False)}), ("Ok", n_))})
    sm = ("Allocator::small_number", "node")
    check("sanitize_message_mode", table(CC + "condition_sanitizers::sanitize_message_mode"),
          {(frozenset({(sm, "Some"), (("Ne", ("BitAnd", sm, ("Not", sz["message_mode_mask"])), 0), False)}), ("Ok", sm))})
    su = ("sanitize_uint", n_, 8, "CODE")
    check("parse_amount", table(CC + "condition_sanitizers::parse_amount"),
          {(frozenset({(su, "ok"), (su, "Ok")}), ("Ok", su))})
    sx = ("Allocator::sexp", n_)
    check("first", table(CC + "validation_error::first"), {(frozenset({(sx, "Pair")}), ("Ok", (".0", ("as:Pair", sx))))})
    check("rest", table(CC + "validation_error::rest"), {(frozenset({(sx, "Pair")}), ("Ok", (".1", ("as:Pair", sx))))})
    check("atom", table(CC + "validation_error::atom"), {(frozenset({(sx, "Atom")}), ("Ok", ("Allocator::atom", n_)))})
    check("next", table(CC + "validation_error::next"),
          {(frozenset({(sx, "Pair")}), ("Ok", ("Some", ("tuple", (".0", ("as:Pair", sx)), (".1", ("as:Pair", sx)))))),
           (frozenset({(sx, "Atom"), (("Eq", ("Allocator::atom_len", n_), 0), True)}), ("Ok", ("None",)))})
    at = ("atom", n_, "CODE")
    check("check_nil", table(CC + "validation_error::check_nil"),
          {(frozenset({(at, "ok"), (("is_empty", at), True)}), ("Ok", ("tuple",)))})
    # maybe_check_args_terminator == strict terminator rule at `arg`
    got = table(CC + "conditions::maybe_check_args_terminator")
    exp = {(frozenset(S.strict(flag, "arg")), ("Ok", ("tuple",))) for flag in (False, True)}
    check("maybe_check_args_terminator", got, exp)
    ctx.sample({"rule": R, "atoms_checked": 10})
