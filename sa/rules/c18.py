"""C18 — DataLayer Merkle blob stays a valid authenticated map.

Decided (structural, necessary conditions only):
  C18.1 every leaf built from caller-supplied key/hash, and every change of an existing leaf's hash, is
        guarded by the duplicate-key / duplicate-hash checks
  C18.2 the blob bytes and the BlockStatusCache are written only by the enumerated functions; writing a
        block updates the cache in the same call; MerkleBlob::new rebuilds the cache with duplicate rejection
  C18.3 mutations under a surviving ancestor mark its lineage dirty on every Ok path; lazy hashing
        recomputes with internal_hash(left,right); hash queries refuse dirty nodes
  C18.4 proof of inclusion: fold calculate_internal_hash(existing, side, other), compare each layer and the root
"""
from ..mir import Body, strip_all, show, subterms
from . import util as U

BLOB = "chia_datalayer::merkle::blob::MerkleBlob"
CACHE = "chia_datalayer::merkle::blob::BlockStatusCache"
LEAF = "chia_datalayer::merkle::format::LeafNode"


def run(ctx):
    ctx.explanation = (
        "MPT/WMC/TBL rules over the MIR of chia-datalayer merkle::blob: duplicate-key/hash guards dominate every "
        "construction of a leaf from caller data and every hash replacement; only the enumerated functions write the "
        "blob bytes / cache maps and a block write updates the cache in the same call; dirty-lineage marking is on "
        "every Ok path of structure-changing operations; proof generation/validation fold the same hash function. "
        "Decides these structural clauses, not equivalence with a plain map under arbitrary histories.")
    ctx.trusted += ["std HashMap / indexmap IndexSet / bitvec semantics", "SHA-256"]
    ctx.assumptions += ["N: equality with a plain map under arbitrary histories, atomicity of failed operations in general, "
                        "root-hash equality (need the heap-shape invariant)"]
    c18_1(ctx)
    c18_2(ctx)
    c18_3(ctx)
    c18_4(ctx)
    c18_5(ctx)
    c18_6(ctx)
    c18_6b(ctx)
    c18_7(ctx)
    c18_8(ctx)


# ------------------------------------------------------------------ C18.1
def _arg_derived(t):
    return any(isinstance(x, tuple) and x and x[0] == "arg" and x[1] >= 1 for x in subterms(t))


def _from_existing_leaf(t):
    """value read from the blob (an existing leaf), not from the caller"""
    for x in subterms(t):
        if isinstance(x, tuple) and x and x[0] == "call":
            n = U.flat(x[1])
            if n.endswith("get_leaf_by_key") or n.endswith("get_node") or n.endswith("get_block") or n.endswith("try_into_leaf") \
                    or n.endswith("expect_leaf") or n.endswith("get_min_height_leaf"):
                return True
        if isinstance(x, tuple) and x and x[0] == "arg" and x[2] in ("old_leaf",):
            return True
    return False


def _guards(b, keyt, hasht):
    """edge nodes that establish 'key absent' / 'hash absent or unchanged'"""
    def key_absent(t, lab):
        c = U.find_call(t, "BlockStatusCache::contains_key")
        if c and lab == ("bool", False):
            return _same(strip_all(c[2][1]), keyt)
        return False

    def hash_absent(t, lab):
        c = U.find_call(t, "BlockStatusCache::contains_leaf_hash")
        if c and lab == ("bool", False):
            return _same(strip_all(c[2][1]), hasht)
        return False
    return U.edges_where(b, key_absent), U.edges_where(b, hash_absent)


def _same(a, c):
    """same value up to references/copies/derefs of Copy values"""
    return _norm(a) == _norm(c)


def _norm(t):
    t = strip_all(t)
    return t


def _site_obligation(ctx, R, b, site_bb, keyt, hasht, construct, depth=0, what="leaf built from caller data"):
    """the site must be guarded inside b, or b must be non-public and every caller guards the call"""
    ok = True
    if keyt is not None or hasht is not None:
        kedges, hedges = _guards(b, keyt, hasht)
        need = []
        if keyt is not None:
            need.append(("key", kedges))
        if hasht is not None:
            need.append(("hash", hedges))
        unguarded = [nm for nm, edges in need if not edges or b.witness_path(0, [site_bb], edges) is not None]
        if not unguarded:
            return ctx.ob(R, construct, True, "%s is dominated by the duplicate checks" % what, where=b.where(site_bb))
        pv = _prevalidated(b, site_bb, keyt, hasht)
        if pv:
            return ctx.ob(R, construct, True, "%s: whole batch pre-validated (%s)" % (what, pv), where=b.where(site_bb))
        # try the callers if the value is a plain parameter of a non-public function
        params_ok = all(t is None or (t[0] == "arg") for t in (keyt, hasht))
        if params_ok and not b.fn.e.get("pub") and depth < 3:
            callers = [p for p in ctx.fb.callers(b.path) if not p.endswith("::tests") and p in ctx.fb.fns]
            if not callers:
                return ctx.ob(R, construct, False, "%s: unguarded (%s) and no callers to discharge it" % (what, unguarded),
                              where=b.where(site_bb))
            allok = True
            for cp in sorted(callers):
                cb = Body(ctx.fb.fns[cp], ctx.fb)
                ctx.touched(cp)
                for bi, name, t in cb.calls():
                    if name != b.path:
                        continue
                    kt = strip_all(cb.operand_term(t["args"][keyt[1]])) if keyt is not None else None
                    ht = strip_all(cb.operand_term(t["args"][hasht[1]])) if hasht is not None else None
                    r = _site_obligation(ctx, R, cb, bi, kt, ht, construct + "<-" + cp.split("::")[-1], depth + 1, what)
                    allok = allok and r
            return allok
        return ctx.ob(R, construct, False,
                      "%s is not dominated by the duplicate-%s check(s)" % (what, "/".join(unguarded)),
                      where=b.where(site_bb), found={"key": show(keyt) if keyt else None, "hash": show(hasht) if hasht else None})
    return ok


def _elem_sig(t):
    """(collection argument, field path) if t is a projection of an element obtained by iterating an argument"""
    path = []
    x = strip_all(t)
    while isinstance(x, tuple) and x and x[0] == "f":
        path.append(x[2])
        x = x[1]
    if isinstance(x, tuple) and x and x[0] == "dc" and x[2] == "Some" and x[1][0] == "call" and U.flat(x[1][1]).endswith("::next"):
        args = [a[2] for a in subterms(x[1]) if isinstance(a, tuple) and a and a[0] == "arg"]
        if len(set(args)) == 1:
            return (args[0], tuple(reversed(path)), x[1])
    return None


def _prevalidated(b, site_bb, keyt, hasht):
    """idiom: a loop over the same collection checks every element against the tree (contains_key /
    contains_leaf_hash) and against the batch itself (HashSet::insert), rejecting on a hit, and runs to
    completion before the site; between the loops the collection only shrinks."""
    ks, hs = _elem_sig(keyt) if keyt is not None else None, _elem_sig(hasht) if hasht is not None else None
    if not ks or not hs or ks[0] != hs[0]:
        return None
    coll = ks[0]

    def guard_edges(callname, lab_want, sig):
        def pred(t, lab):
            c = U.find_call(t, callname)
            if not c or lab != ("bool", lab_want):
                return False
            es = _elem_sig(c[2][1])
            return bool(es) and es[0] == sig[0] and es[1] == sig[1] and es[2] != sig[2]
        return U.edges_where(b, pred)
    g = {
        "key-tree": guard_edges("BlockStatusCache::contains_key", False, ks),
        "key-batch": guard_edges("HashSet::insert", True, ks),
        "hash-tree": guard_edges("BlockStatusCache::contains_leaf_hash", False, hs),
        "hash-batch": guard_edges("HashSet::insert", True, hs),
    }
    if not all(g.values()):
        return None
    # the validating loop: the `next` call block all guards hang off
    heads = set()
    for edges in g.values():
        for e in edges:
            sb = b.edge_info[e][0]
            cands = [bi for bi, n_, t in b.calls() if U.flat(n_).endswith("::next") and b.dominates(bi, sb) and
                     any(isinstance(a, tuple) and a and a[0] == "arg" and a[2] == coll for a in subterms(b.call_term(t)))]
            if not cands:
                return None
            heads.add(max(cands, key=lambda x: len(b.dominators()[x])))
    if len(heads) != 1:
        return None
    head = heads.pop()
    sw = b.blocks[head]["t"]["t"]
    some = none = None
    for node, (sb, lab, tb) in b.edge_info.items():
        if sb == sw:
            t, l2 = b.edge_condition(node)
            if l2 == ("is", ("Some",)):
                some = node
            elif l2 == ("is", ("None",)):
                none = node
    if some is None or none is None:
        return None
    # every iteration that continues has passed all four guards
    for nm, edges in g.items():
        if b.reachable_avoiding(some, [head], edges):
            return None
    # the loop has completed before the site
    if not b.dominates(none, site_bb):
        return None
    # the collection only shrinks afterwards
    argl = [l for l, n_ in b.names.items() if n_ == coll and 1 <= l <= b.argc]
    if len(argl) != 1:
        return None
    for bi, n_, a, pos in b.mut_history(argl[0]):
        if not U.flat(n_).endswith("::pop"):
            return None
    return "loop over `%s` at %s checks contains_key/contains_leaf_hash and in-batch uniqueness for every element" % (coll, b.where(head))


def c18_1(ctx):
    R = "C18.1"
    fb = ctx.fb
    n_sites = 0
    for p, f in sorted(fb.fns.items()):
        if not p.startswith(BLOB + "::") or "::py_" in p or "__pymethod" in p or "{closure" in p:
            continue
        if p.endswith("::build_blob_from_node_list") or p.endswith("::inner_build_blob_from_node_list"):
            # builds a fresh blob from a delta file and hands the bytes to MerkleBlob::new (which rejects duplicates)
            continue
        b = Body(f, fb)
        for bi, blk in enumerate(b.blocks):
            if bi not in b.reach:
                continue
            for s in blk["s"]:
                if s["k"] != "assign":
                    continue
                rv = s["rv"]
                # (a) LeafNode { key, hash, .. } aggregate
                if rv["k"] == "agg" and rv.get("adt") == LEAF:
                    flds = rv["fields"]
                    ops = {fn_: strip_all(b.operand_term(o)) for fn_, o in zip(flds, rv["ops"])}
                    keyt, hasht = ops.get("key"), ops.get("hash")
                    if _from_existing_leaf(keyt) and _from_existing_leaf(hasht):
                        continue
                    if not (_arg_derived(keyt) or _arg_derived(hasht)):
                        continue
                    n_sites += 1
                    ctx.touched(p)
                    _site_obligation(ctx, R, b, bi, keyt, hasht, "leaf-from-caller:%s" % p)
                    ctx.sample({"rule": R, "fn": p, "key": show(keyt), "hash": show(hasht)})
            # (b) writes into an existing leaf's hash:  clone_from(&mut leaf.hash, X) / leaf.hash = X
            t = blk["t"]
            if t["k"] == "call":
                name = U.flat(U.callee_name(t["f"]))
                if name.endswith("::clone_from") or name.endswith("::copy_from_slice") or name.endswith("::clone_into"):
                    a0 = b.operand_term(t["args"][0])
                    if a0[0] == "refmut" and _is_leaf_hash_place(a0[2]):
                        n_sites += 1
                        newh = strip_all(b.operand_term(t["args"][1]))
                        ctx.touched(p)
                        _hash_replace(ctx, R, b, bi, newh, a0[2], p)
            for s in blk["s"]:
                if s["k"] == "assign" and s["pl"].get("p"):
                    last = s["pl"]["p"][-1]
                    if isinstance(last, dict) and last.get("n") == "hash" and (last.get("of") or "").endswith("LeafNode"):
                        newh = strip_all(b.rvalue_term(s["rv"]))
                        if _arg_derived(newh):
                            n_sites += 1
                            _hash_replace(ctx, R, b, bi, newh, b.place_term(s["pl"]), p)
    ctx.floor(R, "leaf construction / hash replacement sites from caller data", n_sites, 3)


def _is_leaf_hash_place(t):
    return isinstance(t, tuple) and t and t[0] == "f" and t[2] == "hash"


def _hash_replace(ctx, R, b, bi, newh, place_t, p):
    """an existing leaf's hash is replaced by caller data: must be unchanged or absent"""
    def hash_absent(t, lab):
        c = U.find_call(t, "BlockStatusCache::contains_leaf_hash")
        return bool(c) and lab == ("bool", False) and _same(strip_all(c[2][1]), newh)

    def unchanged(t, lab):
        # (new == leaf.hash) true / (new != leaf.hash) false
        c = None
        for x in subterms(t):
            if isinstance(x, tuple) and x and x[0] == "call" and ("PartialEq" in x[1]) and len(x[2]) == 2:
                c = x
        if not c:
            return False
        a, d = strip_all(c[2][0]), strip_all(c[2][1])
        if not ((_same(a, newh) and _is_leaf_hash_place(d)) or (_same(d, newh) and _is_leaf_hash_place(a))):
            return False
        if U.flat(c[1]).endswith("::ne"):
            return lab == ("bool", False)
        return lab == ("bool", True)
    edges = U.edges_where(b, hash_absent) + U.edges_where(b, unchanged)
    U.must_pass(ctx, R, b, "hash-replace:%s" % p, [bi], edges,
                "replacing an existing leaf's hash with caller data is guarded by `hash unchanged or not present`")
    ctx.sample({"rule": R, "fn": p, "new_hash": show(newh), "guards": len(edges)})


# ------------------------------------------------------------------ C18.2
ALLOWED_WRITERS = {
    "blob": {BLOB + "::insert_entry_to_blob", BLOB + "::get_new_index", BLOB + "::clear"},
    "block_status_cache": {BLOB + "::insert_entry_to_blob", BLOB + "::get_new_index", BLOB + "::clear",
                           BLOB + "::delete", BLOB + "::upsert"},
}
CACHE_METHODS_MUT = {CACHE + "::" + m for m in ("pop_free_index", "clear", "add_internal", "add_leaf", "remove_internal",
                                               "remove_leaf", "move_index")}


def c18_2(ctx):
    R = "C18.2"
    fb = ctx.fb
    n = 0
    for p, f in sorted(fb.fns.items()):
        if "chia_datalayer" not in p:
            continue
        b = Body(f, fb)
        hits = set()
        for bi, blk in enumerate(b.blocks):
            if bi not in b.reach:
                continue
            for s in blk["s"]:
                if s["k"] != "assign":
                    continue
                for e in s["pl"].get("p", []):
                    if isinstance(e, dict) and "f" in e and (e.get("of") or "") in (BLOB, CACHE):
                        hits.add((e["of"], e.get("n")))
                rv = s["rv"]
                if rv["k"] in ("ref", "rawptr") and (rv.get("m") == "mut" or "Mut" in str(rv.get("m"))):
                    for e in rv["pl"].get("p", []):
                        if isinstance(e, dict) and "f" in e and (e.get("of") or "") in (BLOB, CACHE):
                            hits.add((e["of"], e.get("n")))
        for of, name in sorted(hits):
            n += 1
            if of == BLOB and name in ALLOWED_WRITERS:
                ok = p in ALLOWED_WRITERS[name]
                ctx.ob(R, "writer:%s.%s:%s" % (of.split("::")[-1], name, p), ok,
                       "`&mut self.%s` taken in %s; allowed only in %s" % (name, p, sorted(x.split("::")[-1] for x in ALLOWED_WRITERS[name])),
                       where=f.sp)
            elif of == CACHE:
                ok = p in CACHE_METHODS_MUT
                ctx.ob(R, "writer:%s.%s:%s" % (of.split("::")[-1], name, p), ok,
                       "cache map `%s` mutated outside BlockStatusCache's own methods (%s)" % (name, p), where=f.sp)
    ctx.floor(R, "mutable accesses to blob/cache fields", n, 15)
    # upsert/delete touch the cache only through remove_leaf/remove_internal/move_index
    for fnm, allowed in (("delete", {"remove_leaf", "remove_internal", "move_index"}), ("upsert", {"remove_leaf"})):
        b = U.body(ctx, R, BLOB + "::" + fnm)
        if not b:
            continue
        used = set()
        for bi, name, t in b.calls():
            if name.startswith(CACHE + "::") and t["args"]:
                a0 = b.operand_term(t["args"][0])
                if a0[0] == "refmut":
                    used.add(name.split("::")[-1])
        ctx.ob(R, "cache-ops:" + fnm, used <= allowed, "%s mutates the cache only via %s (found %s)" % (fnm, sorted(allowed), sorted(used)))
    # insert_entry_to_blob: every Ok exit passes add_leaf / add_internal
    b = U.body(ctx, R, BLOB + "::insert_entry_to_blob")
    if b:
        adds = [U.call_succ(b, bi) for bi, n_, t in b.calls() if n_ in (CACHE + "::add_leaf", CACHE + "::add_internal")]
        U.must_pass(ctx, R, b, "insert_entry_to_blob:updates-cache", b.ok_exits(), adds,
                    "every Ok return of insert_entry_to_blob has updated the BlockStatusCache")
        # add_leaf receives the same index and the leaf of the written block
        for bi, n_, t in b.calls():
            if n_ == CACHE + "::add_leaf":
                it = strip_all(b.operand_term(t["args"][1]))
                lt = strip_all(b.operand_term(t["args"][2]))
                ctx.ob(R, "insert_entry_to_blob:add_leaf-args", it == ("arg", 1, "index") and U.has_arg(lt, "block"),
                       "add_leaf(index, leaf of the written block)", found=[show(it), show(lt)])
    # add_leaf inserts key->index and hash->index
    b = U.body(ctx, R, CACHE + "::add_leaf")
    if b:
        ins = [(n_, [strip_all(b.operand_term(a)) for a in t["args"]]) for bi, n_, t in b.calls() if U.flat(n_).endswith("HashMap::insert")]
        ok = len(ins) == 2
        maps = set()
        for n_, a in ins:
            if U.has_field(a[0], "key_to_index") and U.has_field(a[1], "key") and a[2] == ("arg", 1, "index"):
                maps.add("key")
            if U.has_field(a[0], "leaf_hash_to_index") and U.has_field(a[1], "hash") and a[2] == ("arg", 1, "index"):
                maps.add("hash")
        ctx.ob(R, "add_leaf:maps", ok and maps == {"key", "hash"},
               "add_leaf records leaf.key->index and leaf.hash->index", found=[[show(x) for x in a] for _, a in ins])
    # remove_leaf removes both
    b = U.body(ctx, R, CACHE + "::remove_leaf")
    if b:
        rm = [[strip_all(b.operand_term(a)) for a in t["args"]] for bi, n_, t in b.calls() if U.flat(n_).endswith("HashMap::remove")]
        maps = set()
        for a in rm:
            if U.has_field(a[0], "key_to_index") and U.has_field(a[1], "key"):
                maps.add("key")
            if U.has_field(a[0], "leaf_hash_to_index") and U.has_field(a[1], "hash"):
                maps.add("hash")
        ctx.ob(R, "remove_leaf:maps", maps == {"key", "hash"}, "remove_leaf removes node.key and node.hash entries")
    # BlockStatusCache::new rejects duplicates: both inserts' is_some() results lead to Err
    b = U.body(ctx, R, CACHE + "::new")
    if b:
        for fld, err in (("key", "KeyAlreadyPresent"), ("hash", "HashAlreadyPresent")):
            def dup(t, lab, fld=fld):
                c = U.find_call(t, "HashMap::insert")
                return bool(c) and U.has_call(t, "::is_some") and lab == ("bool", True) and U.has_field(strip_all(c[2][1]), fld)
            edges = U.edges_where(b, dup)
            good = bool(edges) and all(not b.reachable_avoiding(e, b.ok_exits(), []) or _only_err(b, e) for e in edges)
            ctx.ob(R, "cache-new:dup-%s" % fld, good, "rebuilding the cache rejects a duplicate %s" % fld, where=b.fn.sp)
    # MerkleBlob::new goes through BlockStatusCache::new
    b = U.body(ctx, R, BLOB + "::new")
    if b:
        news = [U.call_succ(b, bi) for bi, n_, t in b.calls() if n_ == CACHE + "::new"]
        U.must_pass(ctx, R, b, "blob-new:rebuilds-cache", b.ok_exits(), news, "MerkleBlob::new builds the cache from the bytes")


def _only_err(b, edge):
    """from this edge, can we reach a later loop iteration / Ok exit?  a rejecting branch must go straight to an Err exit"""
    tb = b.edge_info[edge][2]
    reach = b.reachable_from(tb)
    return not any(x in reach for x in b.ok_exits()) and not any(
        x < b.n and b.blocks[x]["t"]["k"] == "call" and "Iterator" in U.callee_name(b.blocks[x]["t"]["f"]) and
        U.callee_name(b.blocks[x]["t"]["f"]).endswith("::next") for x in reach)


# ------------------------------------------------------------------ C18.3
def c18_3(ctx):
    R = "C18.3"
    mark = BLOB + "::mark_lineage_as_dirty"
    spec = {
        "insert_third_or_later": [],
        "insert_subtree_at_key": [],
        "delete": ["leaf-is-root", "parent-is-root"],
        "upsert": ["delegates-to-insert", "leaf-is-root"],
    }
    for fnm, exceptions in spec.items():
        b = U.body(ctx, R, BLOB + "::" + fnm)
        if not b:
            continue
        marks = [U.call_succ(b, bi) for bi, n_, t in b.calls() if n_ == mark]
        if not marks:
            ctx.ob(R, "dirty:" + fnm, False, "%s never calls mark_lineage_as_dirty" % fnm, where=b.fn.sp)
            continue
        def parent_none(t, lab):
            if lab != ("is", ("None",)):
                return False
            return (t[0] == "f" and t[2] == "0" and (U.has_field(t, "parent") or U.has_call(t, "Node::parent")))
        exc_edges = U.edges_where(b, parent_none) if any(x.endswith("-is-root") for x in exceptions) else []
        n_root_exc = sum(1 for x in exceptions if x.endswith("-is-root"))
        deleg = [U.call_succ(b, bi) for bi, n_, t in b.calls() if n_ == BLOB + "::insert"] \
            if "delegates-to-insert" in exceptions else []
        ctx.ob(R, "dirty-exceptions:" + fnm, len(exc_edges) <= n_root_exc,
               "%s has at most %d `no surviving ancestor` exits (found %d)" % (fnm, n_root_exc, len(exc_edges)), where=b.fn.sp)
        U.must_pass(ctx, R, b, "dirty:" + fnm, b.ok_exits(), marks + exc_edges + deleg,
                    "every Ok path of %s marks the surviving ancestor's lineage dirty (exceptions: %s)" % (fnm, exceptions or "none"))
        ctx.sample({"rule": R, "fn": fnm, "mark_calls": len(marks), "ok_exits": len(b.ok_exits())})
    # mark_lineage_as_dirty sets dirty=true and writes the block back, walking parents
    b = U.body(ctx, R, mark)
    if b:
        sets = 0
        for bi, blk in enumerate(b.blocks):
            for s in blk["s"]:
                if s["k"] == "assign" and s["pl"].get("p"):
                    last = s["pl"]["p"][-1]
                    if isinstance(last, dict) and last.get("n") == "dirty":
                        v = b.rvalue_term(s["rv"])
                        if v[0] == "c" and v[2] == 1:
                            sets += 1
        wr = [bi for bi, n_, t in b.calls() if n_ == BLOB + "::insert_entry_to_blob"]
        par = [bi for bi, n_, t in b.calls() if U.flat(n_).endswith("Node::parent")]
        ctx.ob(R, "mark:sets-and-writes", sets == 1 and len(wr) == 1 and len(par) == 1 and b.in_cycle(wr[0]),
               "mark_lineage_as_dirty sets dirty=true, writes the block back and continues with the parent (loop)",
               found={"dirty=true": sets, "writes": len(wr), "parent": len(par)})
    # calculate_lazy_hashes: update_hash(get_hash(left), get_hash(right)); update_hash = internal_hash(left,right) + dirty=false
    b = U.body(ctx, R, BLOB + "::calculate_lazy_hashes")
    if b:
        uh = [t for bi, n_, t in b.calls() if U.flat(n_).endswith("Block::update_hash")]
        ok = False
        found = None
        if len(uh) == 1:
            l = strip_all(b.operand_term(uh[0]["args"][1]))
            r = strip_all(b.operand_term(uh[0]["args"][2]))
            found = [show(l), show(r)]
            ok = (U.has_call(l, "MerkleBlob::get_hash") and U.has_field(l, "left") and not U.has_field(l, "right") and
                  U.has_call(r, "MerkleBlob::get_hash") and U.has_field(r, "right") and not U.has_field(r, "left"))
        ctx.ob(R, "lazy:children-order", ok, "lazy hashing feeds (hash(left), hash(right)) in that order", found=found)
        wr = [U.call_succ(b, bi) for bi, n_, t in b.calls() if n_ == BLOB + "::insert_entry_to_blob"]
        ctx.ob(R, "lazy:writes-back", len(wr) == 1, "recomputed block is written back")
    b = U.body(ctx, R, "chia_datalayer::merkle::format::Block::update_hash")
    if b:
        ih = [t for bi, n_, t in b.calls() if n_.endswith("blob::internal_hash")]
        ok = len(ih) == 1 and strip_all(b.operand_term(ih[0]["args"][0])) == ("arg", 1, "left") and \
            strip_all(b.operand_term(ih[0]["args"][1])) == ("arg", 2, "right")
        clears = 0
        for bi, blk in enumerate(b.blocks):
            for s in blk["s"]:
                if s["k"] == "assign" and s["pl"].get("p") and isinstance(s["pl"]["p"][-1], dict) and s["pl"]["p"][-1].get("n") == "dirty":
                    v = b.rvalue_term(s["rv"])
                    clears += 1 if (v[0] == "c" and v[2] == 0) else 0
        ctx.ob(R, "update_hash", ok and clears == 1, "update_hash = internal_hash(left, right), clears dirty")
    # get_hash_at_index refuses dirty nodes
    b = U.body(ctx, R, BLOB + "::get_hash_at_index")
    if b:
        def clean(t, lab):
            return U.has_field(t, "dirty") and lab == ("bool", False)
        edges = U.edges_where(b, clean)
        somes = [bi for bi, k, d, rv in b.ret_assignments() if k == "agg" and d[1] == "Ok" and
                 U.has_call(b.rvalue_term(rv), "Node::hash")]
        U.must_pass(ctx, R, b, "get_hash_at_index:refuses-dirty", somes, edges, "a hash is returned only for a clean node")
    # internal_hash = sha256(0x02 || left || right)
    b = U.body(ctx, R, "chia_datalayer::merkle::blob::internal_hash")
    if b:
        hl = b.local_named("hasher")
        h = b.mut_history(hl[0]) if hl else []
        seq = [strip_all(a[1]) for _, n_, a, _ in h if U.flat(n_).endswith("Sha256::update")]
        ok = (len(seq) == 3 and seq[0][0] == "cb" and bytes(seq[0][2]) == b"\x02" and U.has_arg(seq[1], "left_hash")
              and U.has_arg(seq[2], "right_hash"))
        ctx.ob(R, "internal_hash", ok, "internal_hash = sha256(0x02 || left || right)", found=[show(x) for x in seq])


def _is_leaf_parent(t):
    return U.has_call(t, "get_leaf_by_key")


# ------------------------------------------------------------------ C18.4
def c18_4(ctx):
    R = "C18.4"
    b = U.body(ctx, R, "chia_datalayer::merkle::proof_of_inclusion::ProofOfInclusion::valid")
    if b:
        calc = [t for bi, n_, t in b.calls() if n_.endswith("calculate_internal_hash")]
        ok = False
        found = None
        if len(calc) == 1:
            a = [strip_all(b.operand_term(x)) for x in calc[0]["args"]]
            found = [show(x) for x in a]
            ok = (U.has_field(a[1], "other_hash_side") and U.has_field(a[2], "other_hash") and
                  any(isinstance(x, tuple) and x[0] in ("var", "mutated") for x in subterms(b.operand_term(calc[0]["args"][0]))))
        ctx.ob(R, "valid:fold", ok, "valid() folds calculate_internal_hash(existing, layer.other_hash_side, layer.other_hash)", found=found)

        # a mismatching layer rejects: edge (calculated != combined_hash) -> false
        def mismatch(t, lab):
            c = None
            for x in subterms(t):
                if isinstance(x, tuple) and x and x[0] == "call" and "PartialEq" in x[1]:
                    c = x
            if not c:
                return False
            both = (U.has_call(c, "calculate_internal_hash") and U.has_field(c, "combined_hash"))
            if not both:
                return False
            return lab == ("bool", U.flat(c[1]).endswith("::ne"))
        edges = U.edges_where(b, mismatch)
        falses = [bi for bi, k, d, rv in b.ret_assignments() if k == "const" and d.get("v") == 0]
        good = bool(edges) and bool(falses) and all(
            not b.reachable_avoiding(e, [x for x, k, d, rv in b.ret_assignments() if x not in falses], []) for e in edges)
        ctx.ob(R, "valid:layer-mismatch-rejects", good, "a layer whose combined hash differs makes valid() return false")
        # final verdict compares with root_hash()
        finals = [b.rvalue_term(rv) if k != "call" else b.call_term(rv) for x, k, d, rv in b.ret_assignments() if x not in falses]
        ok = len(finals) == 1 and U.has_call(finals[0], "ProofOfInclusion::root_hash") and "PartialEq" in str(finals[0])
        ctx.ob(R, "valid:root", ok, "final verdict is existing_hash == self.root_hash()", found=[show(x) for x in finals])
    b = U.body(ctx, R, "chia_datalayer::merkle::blob::calculate_internal_hash")
    if b:
        ok = True
        seen = {}
        for bi, n_, t in b.calls():
            if n_.endswith("blob::internal_hash"):
                conds = b.dominating_conditions(bi)
                side = [lab for tm, lab in conds if lab[0] == "is"]
                a = [strip_all(b.operand_term(x)) for x in t["args"]]
                seen[side[0][1][0] if side else "?"] = (a[0], a[1])
        want = {"Left": (("arg", 2, "other_hash"), ("arg", 0, "hash")), "Right": (("arg", 0, "hash"), ("arg", 2, "other_hash"))}
        ctx.ob(R, "calculate_internal_hash", seen == want,
               "other side Left => internal_hash(other, hash); Right => internal_hash(hash, other)",
               found={k: [show(x) for x in v] for k, v in seen.items()})
    b = U.body(ctx, R, BLOB + "::get_proof_of_inclusion")
    if b:
        aggs = []
        for bi, blk in enumerate(b.blocks):
            for s in blk["s"]:
                if s["k"] == "assign" and s["rv"]["k"] == "agg" and (s["rv"].get("adt") or "").endswith("ProofOfInclusionLayer"):
                    aggs.append(dict(zip(s["rv"]["fields"], [strip_all(b.operand_term(o)) for o in s["rv"]["ops"]])))
        ok = False
        if len(aggs) == 1:
            a = aggs[0]
            ok = (U.has_call(a["other_hash_side"], "InternalNode::get_sibling_side") and
                  U.has_call(a["other_hash"], "Node::hash") and U.has_call(a["other_hash"], "InternalNode::sibling_index") and
                  U.has_field(a["combined_hash"], "hash") and U.has_call(a["combined_hash"], "expect_internal"))
        ctx.ob(R, "proof:layer", ok, "each layer = (side of the sibling, hash of the sibling, hash of the parent)",
               found=[{k: show(v) for k, v in a.items()} for a in aggs])

        def clean(t, lab):
            return U.has_field(t, "dirty") and lab == ("bool", False)
        layer_blocks = [bi for bi, blk in enumerate(b.blocks) for s in blk["s"]
                        if s["k"] == "assign" and s["rv"]["k"] == "agg" and (s["rv"].get("adt") or "").endswith("ProofOfInclusionLayer")]
        U.must_pass(ctx, R, b, "proof:refuses-dirty", layer_blocks, U.edges_where(b, clean), "layers are emitted only for clean ancestors")
    for nm, eqfield, ret in (("sibling_index", None, None), ("get_sibling_side", None, None)):
        b = U.body(ctx, R, "chia_datalayer::merkle::format::InternalNode::" + nm)
        if not b:
            continue
        table = {}
        for bi, k, d, rv in b.ret_assignments():
            if k == "agg" and d[1] == "Ok":
                conds = [(tm, lab) for tm, lab in b.dominating_conditions(bi) if lab == ("bool", True)]
                val = strip_all(b.rvalue_term(rv))[3][0]
                for tm, lab in conds:
                    f = [x[2] for x in subterms(tm) if isinstance(x, tuple) and x and x[0] == "f" and x[2] in ("left", "right")]
                    if f:
                        table[f[-1]] = show(val)
        if nm == "sibling_index":
            ok = len(table) == 2 and "left" in table.get("right", "") and "right" in table.get("left", "")
        else:
            ok = len(table) == 2 and "Right" in table.get("left", "") and "Left" in table.get("right", "")
        ctx.ob(R, "format:" + nm, ok, "%s maps a child to the opposite side" % nm, found=table)


# ------------------------------------------------------------------ C18.5 / C18.6
def c18_5(ctx):
    """parent links follow the node: on every accepting path, update_parent(child, Some(P)) is accompanied by a block written
    at P on the same path (the node whose child it is) — a child never points at an index where its parent was not written"""
    from .. import apnf
    from .. import paths as P
    R = "C18.5"
    fb = ctx.fb
    n_sites = 0
    for p, f in sorted(fb.fns.items()):
        if not p.startswith(BLOB + "::") or f.e["kind"] != "AssocFn":
            continue
        if not any((c.get("def") or "").endswith("::update_parent") for c in f.e["calls"]):
            continue
        b = Body(f, fb)
        ctx.touched(b.path)
        try:
            ps = P.enumerate_paths(b, max_paths=300000)
        except P.Budget:
            ctx.missing(R, "parent-link:" + p.split("::")[-1], "path budget exceeded")
            continue
        bad = []
        n_ok = 0
        for ev, ex in ps:
            if ex[0] != "return" or P.ret_class(ev) != "Ok":
                continue
            ups = [e for e in P.calls(ev) if e[2].endswith("::update_parent")]
            if not ups:
                continue
            n_ok += 1
            ins = [apnf.N(strip_all(e[3][1])) for e in P.calls(ev) if e[2].endswith("::insert_entry_to_blob")]
            for e in ups:
                par = apnf.N(strip_all(e[3][2]))
                pi = par[1] if isinstance(par, tuple) and par and par[0] == "Some" and len(par) == 2 else par
                if pi not in ins:
                    bad.append("update_parent(.., %s) but blocks are written at %s" % (str(pi)[:80], [str(x)[:60] for x in ins][:3]))
        n_sites += 1
        ctx.ob(R, "parent-link:" + p.split("::")[-1], not bad and n_ok > 0,
               "%s: every re-parenting on an accepting path names an index at which a block is written on that path (%d paths)" % (p.split("::")[-1], n_ok),
               found=sorted(set(bad))[:3] or None, where=f.sp)
    ctx.floor(R, "functions that re-parent nodes", n_sites, 5)


PUBLIC_MUTATORS = ("insert", "upsert", "delete", "batch_insert")


def c18_6(ctx):
    """a refused operation leaves the blob unchanged: in the public mutators every explicit refusal (`return Err(<error value>)`,
    as opposed to the `?` of an internal failure) is decided before the first call that takes the blob or its cache mutably"""
    R = "C18.6"
    fb = ctx.fb
    n = 0
    for m in PUBLIC_MUTATORS:
        fs = [f for p, f in fb.fns.items() if (p == BLOB + "::" + m or p.startswith(BLOB + "::" + m + "::<")) and f.e["kind"] == "AssocFn"]
        if len(fs) != 1:
            ctx.missing(R, "refuse-before-effect:" + m, "method not found")
            continue
        b = Body(fs[0], fb)
        ctx.touched(b.path)
        writers = []
        for bi, nm, t in b.calls():
            for a in t["args"]:
                at = b.operand_term(a)
                while isinstance(at, tuple) and at and at[0] == "mutated":
                    at = at[1]
                if isinstance(at, tuple) and at and at[0] == "refmut" and at[1] == 1 and _writes_state(nm):
                    writers.append((bi, nm))
                    break
        refusals = [bi for bi, k, d, rv in b.ret_assignments() if k == "agg" and d[1] == "Err"]
        bad = []
        for wb, nm in writers:
            nxt = b.blocks[wb]["t"].get("t")
            if nxt is None:
                continue
            for r in refusals:
                if nxt == r or b.reachable_avoiding(nxt, [r], []):
                    bad.append("%s (%s) can be followed by the explicit refusal at %s" % (U.flat(nm).split("::")[-1], b.where(wb), b.where(r)))
        n += len(refusals)
        ctx.ob(R, "refuse-before-effect:" + m, not bad, "%s: no explicit refusal is reachable after a state-changing call (%d refusals, %d writers)" % (m, len(refusals), len(writers)),
               found=sorted(set(bad))[:3] or None, where=fs[0].sp)
    ctx.floor(R, "explicit refusals in public mutators", n, 3)


def c18_6b(ctx):
    """batch_insert attaches the pre-built subtree beside an existing leaf, which insert_subtree_at_key refuses (after the
    batch's blocks are already written) when that leaf is the root.  So the bulk phase may only start once the tree is known
    to hold two leaves: every path to the first bulk write passes the test of the *leaf count* (`leaf_count() <= 1` selects the
    one-by-one bootstrap).  The blob's byte length is not a substitute: freed blocks stay allocated after deletes."""
    from .. import apnf
    R = "C18.6"
    fb = ctx.fb
    fs = [f for p, f in fb.fns.items() if p == BLOB + "::batch_insert" and f.e["kind"] == "AssocFn"]
    if len(fs) != 1:
        return ctx.missing(R, "bulk-needs-two-leaves", "batch_insert not found")
    b = Body(fs[0], fb)

    def leafcount(t, lab):
        s_ = str(apnf.N(t))
        return ("leaf_count" in s_ and ".block_status_cache" in s_ and s_.startswith(("('Le', ", "('Lt', ", "('Gt', ", "('Ge', "))
                and (s_.endswith(", 1)") or s_.endswith(", 2)")))
    edges = U.edges_where(b, leafcount)
    bulk = [bi for bi, nm, t in b.calls() if U.flat(nm).endswith("::insert_entry_to_blob") or U.flat(nm).endswith("::insert_subtree_at_key")]
    U.must_pass(ctx, R, b, "bulk-needs-two-leaves", bulk, edges,
                "batch_insert reaches its bulk phase only after testing block_status_cache.leaf_count() against 1")
    boots = [bi for bi, nm, t in b.calls() if U.flat(nm) == BLOB + "::insert"]
    ok = bool(boots) and bool(edges) and all(any(b.dominates(e, x) for e in edges) for x in boots)
    ctx.ob(R, "bootstrap-under-leaf-count", ok, "the one-by-one bootstrap inserts run under the leaf-count test", where=fs[0].sp)


def c18_7(ctx):
    """content and reload: (a) get_keys_values reports, for every key of the cache, the `value` field of the leaf *decoded*
    from that key's block (MerkleBlob::get_node -> expect_leaf); a raw read at a fixed offset is wrong whenever the variable-
    length parent field is short (root leaf).  (b) BlockStatusCache::new -- run on every load -- marks as free exactly the
    blocks the traversal from the root did not reach: one pass over the whole seen-bit vector, inserting index i iff bit i is
    clear.  Deletes leave holes in the middle of the blob, so 'everything after the last used block' is not the free set."""
    from .. import apnf
    R = "C18.7"
    fb = ctx.fb
    b = U.body(ctx, R, BLOB + "::get_keys_values")
    if b:
        ins = [[str(apnf.N(b.operand_term(a))) for a in t["args"]] for bi, n_, t in b.calls() if U.flat(n_).endswith("HashMap::insert")]
        it = "('BlockStatusCache::iter_keys_indexes', ('.block_status_cache', 'self'))"
        ok = len(ins) == 1 and ins[0][1] == "('.0', ('next', ('into_iter', %s)))" % it and \
            ins[0][2].startswith("('.value', ('Node::expect_leaf', ('MerkleBlob::get_node', 'self', ('.1', ('next', %s)))" % it)
        ctx.ob(R, "get_keys_values:decoded-leaf", ok,
               "get_keys_values maps each cached key to the value field of the leaf decoded from that key's index", found=ins[:1], where=b.fn.sp)
        U.loop_no_skip(ctx, R, b, "get_keys_values:every-key", [bi for bi, n_, t in b.calls() if U.flat(n_).endswith("HashMap::insert")],
                       "every key of the cache is reported")
    b = U.body(ctx, R, CACHE + "::new")
    if b:
        ins = [(bi, [str(apnf.N(b.operand_term(a))) for a in t["args"]]) for bi, n_, t in b.calls() if U.flat(n_).endswith("IndexSet::insert")]
        ok = len(ins) == 1
        detail = None
        if ok:
            bi, a = ins[0]
            bits = "('Iterator::enumerate', ('iter', ('BitVec::repeat', 0, ('Div', ('len', 'blob'), "
            elem = "('next', ('into_iter', " + bits
            ok = a[1].startswith("('TreeIndex::TreeIndex', ('as u32', ('.0', " + elem)
            conds = [(str(apnf.N(c[0])), c[1]) for c in b.dominating_conditions(bi)]
            clear = [c for c in conds if c[0].startswith("('not', ('.1', ('next', " + bits) and c[1] == ("bool", True)] + \
                    [c for c in conds if c[0].startswith("('.1', ('next', " + bits) and c[1] == ("bool", False)]
            ok = ok and len(clear) == 1
            detail = [a[1][:160]] + [c[0][:120] for c in conds]
        ctx.ob(R, "cache-new:free-set", ok,
               "free indexes = { i in 0..block_count : bit i of the traversal's seen-vector is clear } (whole vector, no adaptor)",
               found=detail, where=b.fn.sp)
        sets = [[str(apnf.N(b.operand_term(a))) for a in t["args"]] for bi, n_, t in b.calls() if U.flat(n_).endswith("BitSlice::set")]
        ok = len(sets) == 1 and "LeftChildFirstIterator::new', 'blob'" in sets[0][1] and sets[0][2] in ("1", "True", "true")
        ctx.ob(R, "cache-new:seen-set", ok, "the seen bit of every block yielded by the traversal from the root is set", found=sets[:1])


def c18_8(ctx):
    """'every key has an inclusion proof that is valid and ends in that root':
    (a) the lineage walk behind get_proof_of_inclusion / get_lineage_* follows parent links until the root and stops for no
        other reason than a block that cannot be read: its only branch tests are `next_index is Some/None` and the `?` of
        get_block (no depth cap: insert-at-leaf histories build trees of arbitrary depth);
    (b) ProofOfInclusion::valid rejects only where a layer's recorded combined hash differs from
        calculate_internal_hash(running hash, side, other hash) and otherwise answers `running hash == root_hash()`:
        no additional plausibility test on the hashes (leaf-hash uniqueness says nothing about internal hashes)."""
    from .. import apnf
    from .. import paths as P
    R = "C18.8"
    b = U.body(ctx, R, BLOB + "::get_lineage_blocks_with_indexes")
    if b:
        seen = set()
        for node in b.edge_info:
            if b.edge_info[node][0] in b.reach:
                t, l = b.edge_condition(node)
                seen.add((str(apnf.N(t)), l[0]))
        exp = {("('MerkleBlob::get_block', 'self', 'var:next_index')", "try"), ("var:next_index", "is")}
        ctx.ob(R, "lineage-walk:tests", seen == exp, "the lineage walk branches only on `next_index` and on get_block's result",
               found=sorted(map(str, seen ^ exp))[:3] or None, where=b.fn.sp)
    f = ctx.fb.fns.get("chia_datalayer::merkle::proof_of_inclusion::ProofOfInclusion::valid")
    if f is None:
        return ctx.missing(R, "valid:table", "ProofOfInclusion::valid not found")
    b = Body(f, ctx.fb)
    ctx.touched(b.path)
    bad = []
    classes = set()
    for ev, ex in P.enumerate_paths(b):
        if ex[0] != "return":
            bad.append("exit " + str(ex[0]))
            continue
        r = str(apnf.N(P.ret_of(ev)))
        kinds = {"next": [], "mismatch": []}
        other = []
        for t, l in P.conds(ev):
            st = str(apnf.N(t))
            if st.startswith("('next', "):
                kinds["next"].append(l[1])
            elif st.startswith("('PartialEq::ne', ('calculate_internal_hash', ") and ".combined_hash" in st:
                kinds["mismatch"].append(l[1])
            else:
                other.append(st[:100])
        if other:
            bad.append("branch on an unlisted test: " + other[0])
        elif r in ("0", "False", "false"):
            classes.add("false")
            if True not in kinds["mismatch"]:
                bad.append("returns false without a failed layer")
        elif r.startswith("('eq', ") and r.endswith("('ProofOfInclusion::root_hash', 'self'))"):
            classes.add("verdict")
            if any(kinds["mismatch"]) or not kinds["next"] or kinds["next"][-1] != ("None",):
                bad.append("final comparison reached with " + str(kinds))
        else:
            bad.append("unlisted verdict " + r[:100])
    ctx.ob(R, "valid:table", not bad and classes == {"false", "verdict"},
           "ProofOfInclusion::valid: false only after a layer's combined hash mismatch, otherwise running hash == root_hash()",
           found=sorted(set(bad))[:3] or None, where=f.sp)


READ_ONLY_MUT = ("get_mut", "iter_mut", "as_mut")


def _writes_state(name):
    last = U.flat(name).split("::")[-1]
    return last not in READ_ONLY_MUT
