"""Helpers shared by the per-property rule modules."""
from .. import mir
from ..mir import Body, strip_all, show, callee_name


def body(ctx, rule, suffix):
    """Body of the unique production function whose path ends with `suffix`;
    records an undischargeable obligation (fail closed) if the anchor is gone."""
    fs = ctx.fb.find(suffix)
    if len(fs) != 1:
        # prefer exact path match
        ex = [f for f in fs if f.path == suffix]
        if len(ex) == 1:
            fs = ex
    if len(fs) != 1:
        ctx.missing(rule, suffix, "anchor function not found uniquely (%d matches)" % len(fs))
        return None
    ctx.touched(fs[0].path)
    return Body(fs[0], ctx.fb)


def bodies(ctx, suffix):
    out = []
    for f in ctx.fb.find(suffix):
        ctx.touched(f.path)
        out.append(Body(f, ctx.fb))
    return out


def name_is(name, what):
    """callee name matches `what`: exact, path suffix, or `Type::method` tail"""
    if name == what or name.endswith("::" + what):
        return True
    # generic instantiations print as  path::<T>::method
    import re
    flat = re.sub(r"::<[^>]*>", "", name)
    return flat == what or flat.endswith("::" + what)


def flat(name):
    """drop generic argument lists from a path"""
    out = []
    depth = 0
    i = 0
    while i < len(name):
        c = name[i]
        if c == "<" and out and out[-1] == ":" and i >= 2 and name[i - 2:i] == "::":
            # turbofish: skip to matching '>'
            depth = 1
            i += 1
            while i < len(name) and depth:
                if name[i] == "<":
                    depth += 1
                elif name[i] == ">":
                    depth -= 1
                i += 1
            # remove trailing '::'
            while out and out[-1] == ":":
                out.pop()
            continue
        out.append(c)
        i += 1
    return "".join(out)


def calls_named(b, what):
    """[(bb, name, term)] of calls whose flattened callee ends with `what`"""
    out = []
    for bi, name, t in b.calls():
        f = flat(name)
        if f == what or f.endswith("::" + what) or f.endswith(what):
            out.append((bi, name, t))
    return out


def call_succ(b, bi):
    """node entered when the call in block bi returns"""
    return b.blocks[bi]["t"]["t"]


def edges_where(b, pred):
    """edge nodes whose normalised condition (term, label) satisfies pred"""
    out = []
    for node in b.edge_info:
        sb = b.edge_info[node][0]
        if sb not in b.reach:
            continue
        t, lab = b.edge_condition(node)
        try:
            if pred(t, lab):
                out.append(node)
        except Exception:
            pass
    return out


def has_call(t, what):
    """term contains a call whose flattened name ends with what"""
    def p(x):
        return isinstance(x, tuple) and x and x[0] == "call" and (flat(x[1]).endswith(what))
    return mir.contains(t, p)


def find_call(t, what):
    for x in mir.subterms(t):
        if isinstance(x, tuple) and x and x[0] == "call" and flat(x[1]).endswith(what):
            return x
    return None


def has_field(t, fname):
    def p(x):
        return isinstance(x, tuple) and x and x[0] == "f" and x[2] == fname
    return mir.contains(t, p)


def has_arg(t, aname):
    def p(x):
        return isinstance(x, tuple) and x and x[0] == "arg" and x[2] == aname
    return mir.contains(t, p)


def has_const(t, value):
    def p(x):
        return isinstance(x, tuple) and x and x[0] == "c" and x[2] == value
    return mir.contains(t, p)


def must_pass(ctx, rule, b, construct, targets, through, what, where=None):
    """MPT: every path entry -> targets passes a node of `through`."""
    if not targets:
        return ctx.missing(rule, construct, "no target site (%s)" % what)
    if not through:
        return ctx.ob(rule, construct, False, "%s: required check is absent" % what,
                      where=b.where(targets[0]))
    p = b.witness_path(0, targets, through)
    if p is None:
        return ctx.ob(rule, construct, True, what, where=b.where(targets[0]))
    return ctx.ob(rule, construct, False,
                  "%s: path avoiding the check exists: %s" % (what, path_str(b, p)),
                  where=b.where(p[-1]))


def path_str(b, p):
    out = []
    for x in p:
        if x < b.n:
            out.append("bb%d" % x)
        else:
            sb, lab, tb = b.edge_info[x]
            out.append("[bb%d %s%s]" % (sb, "" if lab[0] == "in" else "!", list(lab[1])))
    if len(out) > 14:
        out = out[:6] + ["..."] + out[-6:]
    return "->".join(out)


def lock_regions(b):
    """[(lock_bb, guard_local, region_nodes, drop_bbs)]: region = nodes reachable from
    the lock call's return until the MutexGuard (the `expect`/`unwrap` result) is dropped"""
    out = []
    for bi, name, t in b.calls():
        if "Mutex" in name and flat(name).endswith("::lock"):
            # guard = result of expect/unwrap on the lock result, or the lock result itself
            dest = t["dest"]["l"]
            guard_locals = {dest}
            # follow: _g = Result::expect(move dest, ..)
            for bj, n2, t2 in b.calls():
                f2 = flat(n2)
                if f2.endswith("::expect") or f2.endswith("::unwrap"):
                    a0 = t2["args"][0]
                    pl = a0.get("mv") or a0.get("cp")
                    if pl and pl["l"] == dest and not pl.get("p"):
                        guard_locals.add(t2["dest"]["l"])
            drops = [i for i in range(b.n) if i in b.reach and b.blocks[i]["t"]["k"] == "drop"
                     and b.blocks[i]["t"]["pl"]["l"] in guard_locals and not b.blocks[i]["t"]["pl"].get("p")]
            start = t["t"]
            if start is None:
                continue
            region = b.reachable_from(start, avoid=drops)
            out.append((bi, guard_locals, region, drops))
    return out


def named_root(b, op, depth=0):
    """debug name of the local an operand is (a chain of plain copies of), or None"""
    pl = op.get("cp") or op.get("mv")
    if not pl or pl.get("p") or depth > 8:
        return None
    l = pl["l"]
    if l in b.names:
        return b.names[l]
    ds = b.defs().get(l, [])
    if len(ds) == 1 and ds[0][0] == "s" and ds[0][3]["rv"]["k"] == "use":
        return named_root(b, ds[0][3]["rv"]["a"], depth + 1)
    return None


def loop_no_skip(ctx, rule, b, construct, must_bbs, what, header_pred=None):
    """Every iteration of the loop around `must_bbs` passes one of them: from the loop's element-fetching call (the
    in-cycle `next`-style call dominating the must-call) no path returns to that call without entering a must-call.
    Early exits (return/break) are fine; a `continue` that drops an element is not."""
    if not must_bbs:
        return ctx.missing(rule, construct, "no call to guard (%s)" % what)
    m = must_bbs[0]
    heads = []
    for bi, name, t in b.calls():
        if not b.in_cycle(bi) or bi == m:
            continue
        f = flat(name)
        if header_pred(f) if header_pred else (f.endswith("::next") or f.endswith("validation_error::next")):
            if b.dominates(bi, m) and b.reachable_avoiding(m, [bi], []):
                heads.append(bi)
    if not heads:
        return ctx.missing(rule, construct, "loop head (element fetch dominating the call, in the same cycle) not found (%s)" % what)
    # innermost head = the one dominated by all the others
    h = max(heads, key=lambda x: len(b.dominators().get(x) or ()))
    start = call_succ(b, h)
    p = b.witness_path(start, [h], must_bbs) if start is not None else None
    return ctx.ob(rule, construct, p is None, what if p is None else "%s: an iteration can return to the loop head without it: %s" % (what, path_str(b, p)),
                  where=b.where(h))


def loop_exits(b, head):
    """[(src, dst)] edges leaving the natural loop around `head` (nodes that are reachable from head's return and can reach head)"""
    start = call_succ(b, head)
    if start is None:
        return None
    fwd = b.reachable_from(start)
    inloop = {x for x in fwd if b.reachable_avoiding(x, [head], [])} | {head}
    out = []
    for x in inloop:
        for s in b.succ[x]:
            if s not in inloop:
                out.append((x, s))
    return out


def loop_only_ends_when_exhausted(ctx, rule, b, construct, head, what):
    """the loop fed by the element fetch `head` is left only (a) by the fetch reporting the end of the list or (b) towards
    exits that cannot reach an accepting return: no `break` hands a truncated result to the accepting path"""
    exits = loop_exits(b, head)
    if exits is None:
        return ctx.missing(rule, construct, "loop not found")
    bad = []
    for src, dst in exits:
        # (a) an edge whose condition is the fetch result being None / Err
        en = dst if dst in b.edge_info else (src if src in b.edge_info else None)
        if en is not None:
            t, lab = b.edge_condition(en)
            st = strip_all(t)
            hs = strip_all(b.call_term(b.blocks[head]["t"]))
            if (st == hs or contains_term(st, hs)) and lab[0] in ("is", "try") and ("None" in str(lab[1]) or lab[1] is False or "Err" in str(lab[1])):
                continue
        if not b.reachable_avoiding(dst, b.ok_exits(), []) and not _reaches_plain_return(b, dst):
            continue
        bad.append("%s -> %s" % (b.where(src if src < b.n else b.edge_info[src][0]), b.where(dst if dst < b.n else b.edge_info[dst][0])))
    return ctx.ob(rule, construct, not bad, what if not bad else "%s: the loop can be left early towards an accepting return: %s" % (what, bad[:2]),
                  where=b.where(head))


def contains_term(t, sub):
    return mir.contains(t, lambda x: x == sub)


def _reaches_plain_return(b, node):
    """for functions that do not return Result/Option: any return counts as accepting"""
    if b.ok_exits() or b.err_exits():
        return False
    return b.reachable_avoiding(node, b.return_blocks(), [])


def loop_head_for(b, must_bb, header_pred=None):
    """innermost in-cycle element fetch (`next`-style call) that dominates must_bb and lies on a cycle with it"""
    heads = []
    for bi, name, t in b.calls():
        if not b.in_cycle(bi) or bi == must_bb:
            continue
        f = flat(name)
        if header_pred(f) if header_pred else (f.endswith("::next") or f.endswith("validation_error::next")):
            if b.dominates(bi, must_bb) and b.reachable_avoiding(must_bb, [bi], []):
                heads.append(bi)
    if not heads:
        return None
    return min(heads, key=lambda x: len(b.dominators().get(x) or ()))


def whole_list(ctx, rule, b, construct, must_bbs, what):
    """outermost loop around the must-call: no element skipped, and the loop ends only when the list is exhausted"""
    if not must_bbs:
        return ctx.missing(rule, construct, "no call to guard (%s)" % what)
    h = loop_head_for(b, must_bbs[0])
    if h is None:
        return ctx.missing(rule, construct, "loop head not found (%s)" % what)
    return loop_only_ends_when_exhausted(ctx, rule, b, construct, h, what)


def phi_alternatives(b, term, limit=16):
    """A local assigned on several branches (`let x = if c { a } else { b };`, or the result slot of an inlined helper
    with several returns) is opaque ('var') in a definition-based term.  Expand it: [(term', extra_conditions)] with one
    alternative per definition, each carrying the branch conditions that dominate that definition.  Terms without such
    locals come back unchanged with no extra conditions."""
    from ..mir import subterms

    def multi(t):
        for x in subterms(t):
            if isinstance(x, tuple) and len(x) == 3 and x[0] == "var" and isinstance(x[1], int):
                ds = b.defs().get(x[1], [])
                if len(ds) >= 2 and not b.defs().get(("p", x[1])) and x[1] not in b.mut_borrowed() and x not in done:
                    return x, ds
        return None, None

    def subst(t, old, new):
        if t == old:
            return new
        if isinstance(t, tuple):
            return tuple(subst(y, old, new) for y in t)
        return t
    out = []
    done = set()
    work = [(term, [])]
    while work and len(out) < limit:
        t, conds = work.pop()
        v, ds = multi(t)
        if v is None:
            out.append((t, conds))
            continue
        vals = [(b.call_term(x) if kind == "c" else b.rvalue_term(x["rv"]), bi) for kind, bi, si, x in ds]
        if any(v in list(subterms(val)) for val, _ in vals):
            done.add(v)          # loop-carried (an accumulator): stays opaque
            work.append((t, conds))
            continue
        for val, bi in vals:
            work.append((subst(t, v, val), conds + list(b.dominating_conditions(bi))))
    return out


def orient(x):
    """one spelling per comparison / checked arithmetic in rendered (apnf.N) terms: a > b is b < a, a >= b is b <= a, and the
    value of a guarded `a - b` is Sub(a, b) whether it was written `a - b` (overflow-asserted) or taken from `checked_sub`"""
    if isinstance(x, tuple):
        x = tuple(orient(y) for y in x)
        if len(x) == 3 and x[0] == "Gt":
            return ("Lt", x[2], x[1])
        if len(x) == 3 and x[0] == "Ge":
            return ("Le", x[2], x[1])
        if len(x) == 3 and x[0] == "checked_sub":      # the Some payload (only reachable where the subtraction cannot wrap)
            return ("Sub", x[1], x[2])
        if len(x) == 2 and x[0] == ".0" and isinstance(x[1], tuple) and len(x[1]) == 3 and x[1][0] in ("SubWithOverflow", "AddWithOverflow", "MulWithOverflow"):
            return (x[1][0][:3], x[1][1], x[1][2])
        return x
    if isinstance(x, frozenset):
        return frozenset(orient(y) for y in x)
    return x


def canon_int_conds(conds):
    """[(term, label)] -> the same constraints with all tests of one integer term against literals (`x == 0` false then
    `x == 1` true; `match x { 1 => .. }`) folded into a single ('in', values) / ('notin', values) label on that term, so an
    if-chain and a `match` over the same values give the same condition set.  Other conditions are passed through."""
    from ..mir import strip_all
    by = {}
    order = []
    rest = []
    for t, lab in conds:
        x = strip_all(t)
        key = None
        if x and x[0] == "bin" and x[1] in ("Eq", "Ne") and lab[0] == "bool":
            a, c = strip_all(x[2]), strip_all(x[3])
            if a and a[0] == "c" and isinstance(a[2], int):
                a, c = c, a
            if c and c[0] == "c" and isinstance(c[2], int) and not (a and a[0] == "c"):
                pos = (x[1] == "Eq") == bool(lab[1])
                key, con = a, (("in", (c[2],)) if pos else ("notin", (c[2],)))
        elif lab[0] in ("in", "notin") and all(isinstance(v, int) for v in lab[1]):
            key, con = x, (lab[0], tuple(lab[1]))
        if key is None:
            rest.append((t, lab))
            continue
        if key not in by:
            by[key] = []
            order.append(key)
        by[key].append(con)
    out = list(rest)
    for key in order:
        ins = [set(v) for k, v in by[key] if k == "in"]
        notin = set()
        for k, v in by[key]:
            if k == "notin":
                notin |= set(v)
        if ins:
            s = set.intersection(*ins) - notin
            out.append((key, ("in", tuple(sorted(s)))))
        else:
            out.append((key, ("notin", tuple(sorted(notin)))))
    return out
