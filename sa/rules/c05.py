"""C05 — signature acceptance binds each AGG_SIG condition to its domain-separated text.

  C05.1 message recipes: for each of the 8 AGG_SIG variants the bytes pushed to pkm_pairs are, in order, the
        condition's message atom, the coin attributes of spec (aggsig table), the ConsensusConstants field of that
        opcode; the key is to_key(pk) of the same condition; pushed iff DONT_VALIDATE_SIGNATURE is off; the same
        (key, msg-node) goes to the per-opcode summary vector
  C05.2 make_aggsig_final_message appends the same attribute sequence and constants field per opcode
  C05.3 AGG_SIG_UNSAFE suffix ban iterates all seven additional-data fields and dominates the unsafe push
  C05.4 to_key returns Ok only after checked PublicKey::from_bytes succeeded and is_inf() was false
  C05.5 verification is reached: validate_signature returns Ok without verifying only under DONT_VALIDATE_SIGNATURE;
        both branches verify the same (pk, msg) pairs and signature; validate_clvm_and_signature keys each pairing
        with sha256(pk || msg) of the same bytes and rejects unless aggregate_verify_gt is true
"""
from .. import apnf
from .. import paths as P
from ..mir import Body, strip_all, show, subterms
from . import util as U
from . import regions as RG
from . import c01_effects as E

CC = "chia_consensus::"
DONT = ("contains", "flags", "chia_consensus::flags::ConsensusFlags::DONT_VALIDATE_SIGNATURE")

# spec B.4: opcode -> (summary vector, attributes appended after the message, constants field)
AGGSIG = {
    "AggSigMe": ("spend.agg_sig_me", ["coin_id"], "agg_sig_me_additional_data", 50),
    "AggSigParent": ("spend.agg_sig_parent", ["parent"], "agg_sig_parent_additional_data", 43),
    "AggSigPuzzle": ("spend.agg_sig_puzzle", ["puzzle"], "agg_sig_puzzle_additional_data", 44),
    "AggSigAmount": ("spend.agg_sig_amount", ["amount"], "agg_sig_amount_additional_data", 45),
    "AggSigPuzzleAmount": ("spend.agg_sig_puzzle_amount", ["puzzle", "amount"], "agg_sig_puzzle_amount_additional_data", 46),
    "AggSigParentAmount": ("spend.agg_sig_parent_amount", ["parent", "amount"], "agg_sig_parent_amount_additional_data", 47),
    "AggSigParentPuzzle": ("spend.agg_sig_parent_puzzle", ["parent", "puzzle"], "agg_sig_parent_puzzle_additional_data", 48),
    "AggSigUnsafe": ("ret.agg_sig_unsafe", [], None, 49),
}

ATTR = {
    "coin_id": ("BytesImpl::as_slice", (".coin_id", "spend")),
    "parent": ("Allocator::atom", (".parent_id", "spend")),
    "puzzle": ("Allocator::atom", (".puzzle_hash", "spend")),
    "amount": ("Vec::as_slice", ("u64_to_bytes", (".coin_amount", "spend"))),
}


def flatten(t):
    """('after', ('extend', X, piece)) chains -> [base, piece, ...]"""
    pieces = []
    while isinstance(t, tuple) and len(t) == 2 and t[0] == "after" and isinstance(t[1], tuple) and t[1][0] in ("extend", "extend_from_slice"):
        pieces.append(t[1][2])
        t = t[1][1]
    pieces.append(t)
    return list(reversed(pieces))


def run(ctx):
    ctx.explanation = (
        "PROV/TBL/SIB/MPT rules: for every AGG_SIG variant the region of parse_conditions is extracted and the byte string "
        "pushed to pkm_pairs is read off as an ordered list of pieces (message atom, coin attributes, constants field) and "
        "compared with the hand-written recipe table; the public helper make_aggsig_final_message is compared with the same "
        "table; suffix ban, key validity and reachability of verification are must-pass-through rules. Validity of a signature "
        "for exactly that multiset is BLS soundness inside blst and not decided.")
    ctx.trusted += ["blst aggregate verification", "Allocator::atom", "u64_to_bytes canonical (C11)"]
    ctx.assumptions += ["N: that the signature is valid exactly for that multiset (BLS soundness); equality of verdicts between verifiers (C15)"]
    c05_1(ctx)
    c05_amount(ctx)
    c05_2(ctx)
    c05_3(ctx)
    c05_4(ctx)
    c05_5(ctx)
    # no accepting path of an entry point skips signature validation (shared with C01.5)
    from . import c01_effects
    c01_effects.entry_points_validate(ctx, "C05.2")
    # "the verdict is the same whether or not a pairing cache is supplied": the cached verifier hands aggregate_verify_gt one
    # factor per pair and nothing short-circuits it (shared with C15.5)
    from . import c15
    c15.c15_5(ctx, R="C05.5")
    # the per-opcode signature lists handed to make_aggsig_final_message by callers are the owned copies: field-by-field (shared C01.8)
    from . import c01_owned
    c01_owned.run(ctx, R="C05.2")


def c05_1(ctx):
    R = "C05.1"
    b, regs = RG.variant_regions(ctx.fb)
    if b is None or regs is None:
        return ctx.missing(R, "parse_conditions", "dispatch not found")
    ctx.touched(b.path)
    n = 0
    for variant, (vec, attrs, field, op) in AGGSIG.items():
        if variant not in regs:
            ctx.missing(R, "recipe:" + variant, "no arm")
            continue
        n += 1
        pk = E.V(variant, 0)
        msgn = E.V(variant, 1)
        key = ("to_key", pk)
        holder, fname = vec.split(".")
        want_summary = ("Vec::push", ("." + fname, holder), ("tuple", key, msgn))
        want_pieces = [("to_vec", ("Allocator::atom", msgn))] + [ATTR[a] for a in attrs]
        if field:
            want_pieces.append(("BytesImpl::as_slice", ("." + field, "constants")))
        bad = []
        n_cont = 0
        for ex, facts_, eff in regs[variant]:
            flag = [v for t, v in facts_ if t == DONT]
            calls = [e[1] for e in eff if e[0] == "call"]
            pk_pushes = [c for c in calls if c[0] == "Vec::push" and c[1] == (".pkm_pairs", "state")]
            sum_pushes = [c for c in calls if c[0] == "Vec::push" and c[1] != (".pkm_pairs", "state")]
            if ex == "continue":
                n_cont += 1
                if sum_pushes != [want_summary]:
                    bad.append("summary push %s" % (sum_pushes,))
                if flag == [True]:
                    if pk_pushes:
                        bad.append("pair pushed although DONT_VALIDATE_SIGNATURE is set")
                elif flag == [False]:
                    if len(pk_pushes) != 1:
                        bad.append("expected exactly one pkm_pairs push, found %d" % len(pk_pushes))
                    else:
                        tup = pk_pushes[0][2]
                        if not (tup[0] == "tuple" and tup[1] == key):
                            bad.append("key is %s" % (tup[1],))
                        got = flatten(tup[2])
                        if got != want_pieces:
                            bad.append("message pieces %s, expected %s" % (got, want_pieces))
                else:
                    bad.append("accepting path without a DONT_VALIDATE_SIGNATURE decision")
            else:
                # rejecting paths only through to_key / the unsafe suffix check
                errs = [t for t, v in facts_ if v == "err"]
                if not errs or not all(t[0] in ("to_key", "check_agg_sig_unsafe_message") for t in errs):
                    bad.append("unexpected rejecting path %s" % sorted(map(str, facts_)))
        ctx.ob(R, "recipe:" + variant, not bad and n_cont == 2,
               "%s signs msg || %s || %s under to_key(pk); pushed iff signatures are validated" % (
                   variant, " || ".join(attrs) or "(nothing)", field or "(no domain constant)"),
               where=b.fn.sp, found=bad[:3] or None)
        if variant in ("AggSigPuzzleAmount", "AggSigUnsafe"):
            ctx.sample({"rule": R, "variant": variant, "pieces": [str(x) for x in want_pieces]})
    ctx.floor(R, "AGG_SIG recipes", n, 8)
    # variant <-> opcode bijection is C01.2 (produced variant per opcode row)


def c05_amount(ctx):
    """the `amount` attribute of the signed text is the canonical CLVM encoding of the coin amount (the table of C11.1)"""
    from . import c11
    c11.ladder(ctx, CC + "make_aggsig_final_message::u64_to_bytes", "u64_to_bytes", rule="C05.1")


def c05_2(ctx):
    R = "C05.2"
    b = U.body(ctx, R, CC + "make_aggsig_final_message::make_aggsig_final_message")
    if not b:
        return
    names = b.fn.e["arg_names"]
    opl = names.index("opcode") + 1
    attr2 = {
        "parent": ("BytesImpl::as_slice", (".parent_id", "spend")),
        "puzzle": ("BytesImpl::as_slice", (".puzzle_hash", "spend")),
        "amount": ("Vec::as_slice", ("u64_to_bytes", (".coin_amount", "spend"))),
        "coin_id": ("BytesImpl::as_slice", ("Coin::coin_id", ("Coin::new", (".parent_id", "spend"), (".puzzle_hash", "spend"), (".coin_amount", "spend")))),
    }
    for variant, (vec, attrs, field, op) in AGGSIG.items():
        ps = P.enumerate_paths(b, env0={opl: op})
        seqs = set()
        for ev, ex in ps:
            seq = []
            for e in P.calls(ev):
                n_ = U.flat(e[2])
                if n_.endswith("::extend") or n_.endswith("extend_from_slice"):
                    seq.append(apnf.N(e[3][1]))
            seqs.add(tuple(seq))
        want = tuple([attr2[a] for a in attrs] + ([("BytesImpl::as_slice", ("." + field, "constants"))] if field else []))
        ctx.ob(R, "helper:" + variant, seqs == {want},
               "make_aggsig_final_message(%d) appends %s || %s" % (op, " || ".join(attrs) or "(nothing)", field or "(nothing)"),
               found=None if seqs == {want} else [str(s)[:300] for s in seqs])
    # any other opcode appends nothing
    ps = P.enumerate_paths(b, env0={opl: 51})
    ok = all(not [e for e in P.calls(ev) if "extend" in e[2]] for ev, ex in ps)
    ctx.ob(R, "helper:other", ok, "for non-AGG_SIG opcodes the helper appends nothing")


def c05_3(ctx):
    R = "C05.3"
    fb = ctx.fb
    b = U.body(ctx, R, CC + "conditions::check_agg_sig_unsafe_message")
    if b:
        adt = fb.adts.get(CC + "consensus_constants::ConsensusConstants")
        fields = sorted(f["name"] for f in adt["variants"][0]["fields"] if f["name"].startswith("agg_sig_") and f["name"].endswith("_additional_data")) if adt else []
        used = set()
        for bi, blk in enumerate(b.blocks):
            if bi not in b.reach:
                continue
            for s in blk["s"]:
                if s["k"] == "assign":
                    for x in subterms(b.rvalue_term(s["rv"])):
                        if isinstance(x, tuple) and x and x[0] == "f" and x[2].endswith("_additional_data"):
                            used.add(x[2])
        ctx.ob(R, "all-seven-constants", sorted(used) == fields and len(fields) == 7,
               "the suffix ban covers every agg_sig_*_additional_data field of ConsensusConstants", expected=fields, found=sorted(used))

        def ends(t, lab):
            return U.has_call(t, "ends_with") and lab == ("bool", True)
        edges = U.edges_where(b, ends)
        ok = bool(edges) and all(not b.reachable_avoiding(e, b.ok_exits(), []) for e in edges)
        ctx.ob(R, "ends_with-rejects", ok, "a message ending in one of the constants is rejected")

        def short(t, lab):
            return t[0] == "bin" and t[1] == "Lt" and U.has_call(t, "atom_len") and U.has_const(t, 32) and lab == ("bool", True)
        ctx.ob(R, "short-circuit-32", len(U.edges_where(b, short)) == 1,
               "the only shortcut is `len < 32` (sound because every constant is a Bytes32)")
        if adt:
            tys = {f["ty"] for f in adt["variants"][0]["fields"] if f["name"] in fields}
            ctx.ob(R, "constants-are-bytes32", tys == {"chia_protocol::bytes::BytesImpl<32>"}, "all seven constants are 32 bytes", found=sorted(tys))
    pb, regs = RG.variant_regions(fb)
    if regs:
        ok = True
        for ex, facts_, eff in regs.get("AggSigUnsafe", []):
            pushes = [e for e in eff if e[0] == "call" and e[1][0] == "Vec::push"]
            chk = [v for t, v in facts_ if isinstance(t, tuple) and t[0] == "check_agg_sig_unsafe_message" and t[1] == E.V("AggSigUnsafe", 1)]
            if pushes and chk != ["ok"]:
                ok = False
        ctx.ob(R, "ban-dominates-push", ok, "every AGG_SIG_UNSAFE pair is recorded only after the suffix check passed on its own message")


def c05_4(ctx, R="C05.4"):
    b = U.body(ctx, R, CC + "conditions::to_key")
    if not b:
        return
    got = set()
    for ev, ex in P.enumerate_paths(b):
        if ex[0] == "return" and P.ret_class(ev) == "Ok":
            got.add((frozenset(apnf.fact(t, l) for t, l in P.conds(ev)), apnf.N(P.ret_of(ev))))
    fb_ = ("Result::map_err", ("PublicKey::from_bytes", ("Result::expect", ("try_into", ("Allocator::atom", "pk")), b"internal error")), ("closure", "{closure#0}"))
    ok = len(got) == 1
    if ok:
        f, r = list(got)[0]
        fs = {str(x) for x in f}
        ok = any("PublicKey::from_bytes" in s and "'ok'" in s for s in fs) and any("PublicKey::is_inf" in s and "False" in s for s in fs) \
            and "from_bytes_unchecked" not in str(f) and "PublicKey::from_bytes" in str(r)
    ctx.ob(R, "to_key", ok, "to_key accepts only keys that pass the checked decoder and are not the point at infinity",
           found=None if ok else [str(x)[:400] for x in got])


def c05_5(ctx, R="C05.5"):
    fb = ctx.fb
    b = U.body(ctx, R, CC + "conditions::validate_signature")
    if b:
        paths = []
        for ev, ex in P.enumerate_paths(b):
            if ex[0] != "return":
                continue
            rc = P.ret_class(ev)
            f = frozenset(apnf.fact(t, l) for t, l in P.conds(ev))
            ver = [e[2] for e in P.calls(ev) if e[2].endswith("aggregate_verify") or "aggregate_verify" in U.flat(e[2])]
            paths.append((rc, f, ver))
        oks = [(f, ver) for rc, f, ver in paths if rc == "Ok"]
        unverified = [f for f, ver in oks if not ver]
        ok1 = len(unverified) == 1 and (DONT, True) in unverified[0]
        # both verifiers receive the complete multiset of collected pairs: state.pkm_pairs.iter().map(pair -> (pk, msg bytes)),
        # with no dedup / filter / sort / take in between (every repetition of an AGG_SIG condition needs its own signature)
        pairs_ok = True
        seen_ = []
        for bi, n, t in b.calls():
            if "aggregate_verify" in U.flat(n).split("::")[-1]:
                args = [str(apnf.N(strip_all(b.operand_term(a)))) for a in t["args"]]
                data = [a for a in args if "pkm_pairs" in a]
                seen_.append(data)
                if len(data) != 1 or not (data[0].startswith("('Iterator::map', ('iter', ('.pkm_pairs', 'state')), ('closure', ") and data[0].count("(") == 4):
                    pairs_ok = False
                if not data:
                    pairs_ok = False
        ctx.ob(R, "all-pairs-verified", pairs_ok and len(seen_) == 2,
               "with and without a cache the verifier receives state.pkm_pairs.iter().map(..) unmodified (the full multiset, in either branch)",
               found=seen_)
        ctx.ob(R, "skip-only-when-flagged", ok1, "validate_signature returns Ok without verifying only under DONT_VALIDATE_SIGNATURE",
               found=[sorted(map(str, f)) for f in unverified])
        ver_ok = [f for f, ver in oks if ver]
        ok2 = len(ver_ok) == 2 and all(any("aggregate_verify" in str(t) and v is True for t, v in f) for f in ver_ok)
        ctx.ob(R, "accept-needs-true", ok2, "with validation on, Ok requires aggregate verification (cache or plain) to return true")
        # same pairs and signature in both branches
        args = []
        for bi, n_, t in b.calls():
            if "aggregate_verify" in U.flat(n_):
                ts = [strip_all(b.operand_term(a)) for a in t["args"]]
                sig = [x for x in ts if x == ("arg", 1, "signature")]
                it = [x for x in ts if U.has_field(x, "pkm_pairs")]
                args.append((len(sig), len(it)))
        ctx.ob(R, "same-inputs", args == [(1, 1), (1, 1)], "both verifiers receive state.pkm_pairs and the given signature", found=args)
    vb = U.body(ctx, R, CC + "spendbundle_validation::validate_clvm_and_signature")
    if vb:
        al = vb.local_named("aug_msg")
        hist = vb.mut_history(al[0]) if al else []
        seq = [(U.flat(n_).split("::")[-1], show(strip_all(a[1])) if len(a) > 1 else "") for _, n_, a, _ in hist]
        ok = [s[0] for s in seq] == ["clear", "extend_from_slice", "extend"] and "to_bytes" in seq[1][1]
        ctx.ob(R, "mempool:aug_msg", ok, "aug_msg is rebuilt per pair as pk.to_bytes() || msg", found=seq)
        pair = [t for bi, n_, t in vb.calls() if n_.endswith("Signature::pair")]
        h2g = [t for bi, n_, t in vb.calls() if n_.endswith("signature::hash_to_g2")]
        upd = [t for bi, n_, t in vb.calls() if U.flat(n_).endswith("Sha256::update")]
        ok = len(pair) == 1 and len(h2g) == 1 and len(upd) == 1 and al and \
            _is_local_ref(vb, h2g[0]["args"][0], al[0]) and _is_local_ref(vb, upd[0]["args"][1], al[0])
        ctx.ob(R, "mempool:pairing-and-key", bool(ok), "pairing = hash_to_g2(aug_msg).pair(pk), cache key = sha256(aug_msg) of the same bytes")

        # multiset: every (pk, msg) taken from the iterator yields exactly one pushed pairing — no iteration of the loop
        # gets back to `next` without passing the push; `pairs` is only ever pushed to; the verifier folds all of `pairs`
        pl = vb.local_named("pairs")
        nxt = [bi for bi, n_, t in vb.calls() if U.flat(n_).endswith("Iterator::next") or n_.endswith("::next")]
        hist = vb.mut_history(pl[0]) if pl else []
        pushes = [h for h in hist if U.flat(h[1]).endswith("Vec::push")]
        okm = len(pl) == 1 and len(nxt) == 1 and len(pushes) == 1 and len(hist) == 1
        if okm:
            after_next = vb.succ[nxt[0]]
            okm = vb.in_cycle(pushes[0][0]) and not any(vb.reachable_avoiding(x, [nxt[0]], [pushes[0][0]]) for x in after_next)
            ver = [t for bi, n_, t in vb.calls() if n_.endswith("aggregate_verify_gt") or "aggregate_verify_gt::<" in n_]
            okm = okm and len(ver) == 1
            if okm:
                it = strip_all(vb.operand_term(ver[0]["args"][1]))
                its = str(apnf.N(it))
                okm = "pairs" in its or str(apnf.N(strip_all(vb.local_term(pl[0])))) in its
                okm = okm and not any(k in its for k in ("skip", "take", "filter", "step_by", "dedup"))
        ctx.ob(R, "mempool:multiset", bool(okm), "every (pk, msg) pair contributes exactly one pairing (no skipping / deduplication) and the verifier folds all of them",
               found={"pairs": len(pl), "next": len(nxt), "push": len(pushes), "mutations": [U.flat(h[1]) for h in hist]})

        def verdict(t, lab):
            return U.has_call(t, "aggregate_verify_gt") and lab == ("bool", True)
        edges = U.edges_where(vb, verdict)
        # `if !result { Err }`: the accepting edge is the one where the verdict is true
        U.must_pass(ctx, R, vb, "mempool:accept-needs-true", vb.ok_exits(), edges,
                    "validate_clvm_and_signature returns Ok only if aggregate_verify_gt returned true")


def _is_local_ref(b, op, l):
    t = b.operand_term(op)
    lt = strip_all(b.local_term(l))
    return lt in list(subterms(strip_all(t))) or strip_all(t) == lt
