"""C08 — what the mempool validated is what the block yields.

  C08.1 run_spendbundle vs run_block_generator2: same per-spend sequence (run_program -> subtract cost -> tree hash
        -> process_single_spend with the same role mapping), same post-loop validation, equivalent spend-count limit,
        amount atom built by Allocator::new_number (canonical) and validated by parse_amount on both sides
  C08.2 build_generator, BlockBuilder::add_spend_bundles, InternedBlockBuilder::{spend_vbytes, add_spend_bundles}
        construct the spend item with the same cons order (parent, puzzle, amount, solution) from the same sources
  C08.3 clvm_bytes_len equals 1 + canonical length with the single-byte case (C11.1 table); the constants of
        calculate_generator_length: 39 = 33 + 6 per spend, 5 outer bytes, QUOTE_BYTES = 2 subtracted by the mempool
"""
from .. import apnf
from .. import paths as P
from ..mir import Body, strip_all, show, subterms
from . import util as U
from .c02 import _fn
from . import c07

CC = "chia_consensus::"


def role(t):
    s = str(t)
    names = [x[2] for x in subterms(t) if isinstance(x, tuple) and x and x[0] == "f"]
    for nm in names:
        if nm == "parent_coin_info":
            return "parent"
        if nm == "amount":
            return "amount"
        if nm == "puzzle_reveal":
            return "puzzle"
        if nm == "solution":
            return "solution"
    # tuple items of build_generator: (Coin, puzzle, solution)
    if names and names[0] == "1":
        return "puzzle"
    if names and names[0] == "2":
        return "solution"
    return "?"


def cons_shape(t, depth=0):
    t = strip_all(t)
    if depth > 12:
        return "…"
    if t[0] == "call":
        fl = U.flat(t[1])
        args = [a for a in t[2]]
        if fl.endswith("Allocator::new_pair"):
            return ("cons", cons_shape(args[-2], depth + 1), cons_shape(args[-1], depth + 1))
        if fl.endswith("Allocator::new_atom"):
            return ("atom", role(args[-1]))
        if fl.endswith("Allocator::new_number"):
            return ("number", role(args[-1]))
        if fl.endswith("node_from_bytes_backrefs") or fl.endswith("node_from_bytes"):
            return ("tree", role(args[-1]))
        if fl.endswith("Allocator::nil"):
            return "nil"
        if fl.endswith("Allocator::one"):
            return "one"
    if t[0] in ("c", "cs") and "NIL" in str(t):
        return "nil"
    # payload of `?`
    if t[0] == "f" and t[2] == "0" and t[1][0] == "dc" and t[1][2] == "Continue":
        br = strip_all(t[1][1])
        if br[0] == "call" and br[2]:
            return cons_shape(br[2][0], depth + 1)
    if t[0] in ("f",) and t[2] in ("sentinel", "spend_list"):
        return "LIST"
    if t[0] in ("var", "mutated", "out"):
        return "LIST"
    return "?"


ITEM = ("cons", ("atom", "parent"), ("cons", ("tree", "puzzle"), ("cons", ("number", "amount"), ("cons", ("tree", "solution"), "nil"))))


def item_shapes(b):
    out = set()
    try:
        ps = P.enumerate_paths(b, max_paths=4000)
    except P.Budget:
        return None
    for ev, ex in ps:
        for e in P.calls(ev):
            if U.flat(e[2]).endswith("Allocator::new_pair"):
                sh = cons_shape(e[5])
                # the item itself: a 4-deep cons chain ending in nil
                def find_items(s):
                    if isinstance(s, tuple) and s and s[0] == "cons":
                        if _depth(s) == 4 and _tail(s) == "nil":
                            out.add(s)
                        find_items(s[1])
                        find_items(s[2])
                find_items(sh)
    return out


def _depth(s):
    d = 0
    while isinstance(s, tuple) and s and s[0] == "cons":
        d += 1
        s = s[2]
    return d


def _tail(s):
    while isinstance(s, tuple) and s and s[0] == "cons":
        s = s[2]
    return s


def run(ctx):
    ctx.explanation = (
        "SIB/DT/CONST rules: the mempool spend loop (run_spendbundle) is compared with the native block loop on per-spend "
        "call sequence, role routing and post-loop validation; the four hand copies of the spend-item constructor are reduced "
        "to a cons-shape with source roles and compared; the generator length predictor's constants are recomputed from the "
        "construction (pairs per spend, terminators). Equality of conditions/costs needs clvmr serialisation and is not decided.")
    ctx.trusted += ["clvmr serialisation / back-references / interning", "Allocator::new_number is canonical"]
    ctx.assumptions += ["N: equality of conditions and of concrete costs between the two runs"]
    c08_1(ctx)
    c08_dialect(ctx)
    c08_2(ctx)
    # the block a builder emits contains every spend of every accepted bundle (the block run can only equal the mempool runs if
    # none is dropped): one running spend list per attempt, shared with C10.2
    from . import c10
    c10.c10_accumulator(ctx, R="C08.2")
    c08_triples(ctx)
    c08_3(ctx)
    # builders emit spends in the reverse of bundle order: the cross-spend ephemeral rule must not depend on positions
    from . import c01_effects
    c01_effects.is_ephemeral_exact(ctx, "C08.1")
    c08_flags(ctx)
    # mempool admission verifies the aggregate signature on every accepting path, as the block path does (shared with C05.5);
    # the fingerprint computed only on the mempool path must accept exactly the argument shapes parse_args accepts (shared with C19.4)
    from . import c05, c19
    c05.c05_5(ctx, R="C08.1")
    from . import c01_effects as _E
    _E.entry_points_validate(ctx, "C08.1")
    # limits that count *conditions* must not count distinct nodes: a compressed / interned generator shares identical atoms
    # that the plainly parsed bundle holds as separate nodes (announcement arms of the effect table, shared with C01.4)
    _E.c01_4(ctx, R="C08.1", only=("CreateCoinAnnouncement", "CreatePuzzleAnnouncement"))
    c19.c19_4(ctx, R="C08.1")


def c08_dialect(ctx):
    """both paths run puzzles under the CLVM dialect selected by the caller's flags, unmodified"""
    R = "C08.1"
    fb = ctx.fb
    got = {}
    for nm, path in (("run_spendbundle", CC + "spendbundle_conditions::run_spendbundle"), ("run_block_generator2", CC + "run_block_generator::run_block_generator2")):
        f = _fn(fb, path)
        if not f:
            return ctx.missing(R, "dialect", nm + " not found")
        b = Body(f, fb)
        got[nm] = [str(apnf.N(strip_all(b.operand_term(t["args"][0])))) for bi, n, t in b.calls() if n.endswith("ChiaDialect::new")]
    want = [str(("ConsensusFlags::to_clvm_flags", "flags"))]
    ctx.ob(R, "dialect", got["run_spendbundle"] == want and got["run_block_generator2"] == want,
           "both paths build ChiaDialect::new(flags.to_clvm_flags()) from the caller's flags: a puzzle runs under the same CLVM rules in the mempool and in the block",
           found=got)


def c08_triples(ctx, R="C08.2"):
    """wherever a (coin, puzzle, solution) triple is assembled from a CoinSpend the puzzle reveal is second and the solution third
    (both are byte strings: a swap compiles)"""
    fb = ctx.fb
    n = 0
    bad = []
    for p, f in fb.fns.items():
        if not (p.startswith("chia_consensus::") or p.startswith("chia_rs::") or p.startswith("chia_protocol::")):
            continue
        if not any("puzzle_reveal" in str(c.get("args", "")) or True for c in f.e.get("calls", [])[:1]) and False:
            continue
        try:
            body = f.body
        except Exception:
            continue
        if "puzzle_reveal" not in str(body):
            continue
        b = Body(f, fb)
        for bi, blk in enumerate(b.blocks):
            if bi not in b.reach:
                continue
            for st in blk["s"]:
                if st["k"] == "assign" and st["rv"]["k"] == "agg" and st["rv"].get("ak") == "tuple" and len(st["rv"]["ops"]) == 3:
                    ops = [str(apnf.N(strip_all(b.operand_term(o)))) for o in st["rv"]["ops"]]
                    if any("puzzle_reveal" in o for o in ops) and any("'.solution'" in o for o in ops):
                        n += 1
                        ctx.touched(b.path)
                        if not ("puzzle_reveal" in ops[1] and "'.solution'" not in ops[1] and "'.solution'" in ops[2] and "puzzle_reveal" not in ops[2] and "'.coin'" in ops[0]):
                            bad.append("%s: %s" % (p, [o[:60] for o in ops]))
    ctx.ob(R, "triple-order", not bad, "every (coin, puzzle_reveal, solution) triple built from a CoinSpend keeps that order (%d sites)" % n, found=bad[:3] or None)
    ctx.floor(R, "spend-triple construction sites", n, 2)


def c08_1(ctx):
    R = "C08.1"
    fb = ctx.fb
    f = _fn(fb, CC + "spendbundle_conditions::run_spendbundle")
    g = _fn(fb, CC + "run_block_generator::run_block_generator2")
    if not f or not g:
        return ctx.missing(R, "entry-points", "run_spendbundle / run_block_generator2 not found")
    b, b2 = Body(f, fb), Body(g, fb)
    ctx.touched(b.path, b2.path)

    def seq(bb):
        names = {"run_program": "run", "subtract_cost": "sub", "tree_hash": "hash", "tree_hash_cached": "hash", "process_single_spend": "process"}
        calls = []
        for bi, n, t in bb.calls():
            if not bb.in_cycle(bi):
                continue
            key = U.flat(n).split("::")[-1].split("<")[0]
            if key in names and (key != "subtract_cost" or True):
                calls.append((bi, names[key]))
        calls.sort(key=lambda x: len(bb.dominators().get(x[0]) or ()))
        # keep the last loop (the processing loop)
        s = [k for _, k in calls]
        return s[-4:] if len(s) >= 4 else s
    s1, s2 = seq(b), seq(b2)
    ctx.ob(R, "per-spend-sequence", sorted(s1) == sorted(s2) == ["hash", "process", "run", "sub"] and s1.index("run") < s1.index("process")
           and s2.index("run") < s2.index("process") and s1.index("hash") < s1.index("process"),
           "both loops: run_program, subtract its cost, tree-hash the puzzle, process_single_spend", found={"mempool": s1, "block": s2})
    p1, p2 = c07._post_loop(b), c07._post_loop(b2)
    ctx.ob(R, "post-loop", p1["order"] == ["validate_conditions"] and p2["order"] == ["validate_conditions", "validate_signature"],
           "mempool path validates conditions (signature checked by its caller, C05.5); block path validates both", found={"mempool": p1, "block": p2})
    # role routing on the mempool side
    a1 = [t for bi, n, t in b.calls() if n.startswith(CC + "conditions::process_single_spend")]
    ok = False
    if len(a1) == 1:
        r = [strip_all(b.operand_term(x)) for x in a1[0]["args"]]
        s = [show(x) for x in r]
        ok = ("new_atom" in s[3] and "parent_coin_info" in s[3] and "new_atom" in s[4] and "tree_hash" in s[4]
              and "new_number" in s[5] and "amount" in s[5] and "run_program" in s[6])
        runs = [t for bi, n, t in b.calls() if U.flat(n).endswith("run_program::run_program")]
        if len(runs) == 1:
            pz = show(strip_all(b.operand_term(runs[0]["args"][2])))
            so = show(strip_all(b.operand_term(runs[0]["args"][3])))
            ok = ok and "puzzle_reveal" in pz and "solution" in so
    ctx.ob(R, "roles:mempool", ok,
           "run_spendbundle routes atom(coin.parent_coin_info), atom(tree_hash(puzzle_reveal)), number(coin.amount), run(puzzle_reveal, solution)")

    # spend-count limit: `LIMIT_SPENDS && len > MAX_SPENDS_PER_BLOCK => Err`  == countdown from MAX with `== 0` test before each spend
    def limit(t, lab):
        t = strip_all(t)
        return t[0] == "bin" and t[1] == "Gt" and "len" in str(t[2]) and strip_all(t[3])[0] == "c" and \
            (strip_all(t[3])[3] or "").endswith("MAX_SPENDS_PER_BLOCK") and lab == ("bool", True)
    edges = U.edges_where(b, limit)
    ok = len(edges) == 1 and not b.reachable_avoiding(edges[0], b.ok_exits(), [])
    if ok:
        conds = [apnf.fact(t, l) for t, l in b.dominating_conditions(edges[0])]
        ok = any("LIMIT_SPENDS" in str(c[0]) and c[1] is True for c in conds)
    ctx.ob(R, "spend-limit", ok, "mempool: more than MAX_SPENDS_PER_BLOCK spends are rejected exactly under LIMIT_SPENDS "
                                 "(same table as the block path's countdown: n spends pass iff n <= MAX)")


def c08_2(ctx):
    R = "C08.2"
    fb = ctx.fb
    targets = {
        "build_generator": CC + "solution_generator::build_generator",
        "BlockBuilder::add_spend_bundles": CC + "build_compressed_block::BlockBuilder::add_spend_bundles",
        "InternedBlockBuilder::add_spend_bundles": CC + "build_interned_block::InternedBlockBuilder::add_spend_bundles",
        "InternedBlockBuilder::spend_vbytes": CC + "build_interned_block::InternedBlockBuilder::spend_vbytes",
    }
    n = 0
    for nm, path in targets.items():
        fs = [f for p, f in fb.fns.items() if (p == path or p.startswith(path + "::<")) and f.e["kind"] in ("Fn", "AssocFn")]
        if len(fs) != 1:
            ctx.missing(R, "constructor:" + nm, "not found")
            continue
        b = Body(fs[0], fb)
        ctx.touched(b.path)
        shapes = item_shapes(b)
        n += 1
        ctx.ob(R, "constructor:" + nm, shapes == {ITEM},
               "%s builds each spend as (parent-id puzzle amount solution) from coin.parent_coin_info, puzzle_reveal, coin.amount, solution" % nm,
               found=None if shapes == {ITEM} else [str(s) for s in (shapes or [])][:3], where=fs[0].sp)
    ctx.floor(R, "spend-item constructors", n, 4)
    ctx.sample({"rule": R, "item": str(ITEM)})
    # the generator skeleton (q . ((spends))) in build_generator and InternedBlockBuilder::finalize
    for nm, path in (("build_generator", CC + "solution_generator::build_generator"),
                     ("InternedBlockBuilder::finalize", CC + "build_interned_block::InternedBlockBuilder::finalize")):
        fs = [f for p, f in fb.fns.items() if (p == path or p.startswith(path + "::<")) and f.e["kind"] in ("Fn", "AssocFn")]
        if len(fs) != 1:
            continue
        b = Body(fs[0], fb)
        found = set()
        for ev, ex in P.enumerate_paths(b, max_paths=4000):
            for e in P.calls(ev):
                if U.flat(e[2]).endswith("Allocator::new_pair"):
                    sh = cons_shape(e[5])
                    if isinstance(sh, tuple) and sh[0] == "cons" and sh[1] == "one":
                        found.add(str(_skeleton(sh)))
        ok_sk = bool(found) and found <= {"('cons', 'one', ('cons', 'LIST', 'nil'))", "('cons', 'one', ('cons', 'nil', 'nil'))"} and \
            "('cons', 'one', ('cons', 'LIST', 'nil'))" in found
        ctx.ob(R, "skeleton:" + nm, ok_sk,
               "%s wraps the spend list as (q . (spends))" % nm, found=sorted(found))


def _skeleton(sh):
    if isinstance(sh, tuple) and sh and sh[0] == "cons":
        a = sh[1]
        if isinstance(a, tuple) and a and a[0] == "cons":
            a = "LIST"
        return ("cons", a if a in ("one", "nil", "LIST") else "LIST", _skeleton(sh[2]))
    return sh if sh in ("nil", "one") else "LIST"


def c08_3(ctx):
    R = "C08.3"
    fb = ctx.fb
    path = CC + "solution_generator::calculate_generator_length"
    fs = [f for p, f in fb.fns.items() if (p == path or p.startswith(path + "::<")) and f.e["kind"] == "Fn"]
    if len(fs) != 1:
        return ctx.missing(R, "calculate_generator_length", "not found")
    b = Body(fs[0], fb)
    ctx.touched(b.path)
    lits = set()
    for bi, blk in enumerate(b.blocks):
        if bi not in b.reach:
            continue
        for s in blk["s"]:
            if s["k"] == "assign" and not s.get("exp"):
                for x in subterms(b.rvalue_term(s["rv"])):
                    if isinstance(x, tuple) and x and x[0] == "c" and x[1] == "usize" and isinstance(x[2], int):
                        lits.add(x[2])
    # per spend: 33 (32-byte parent + 1 length byte) + 5 pairs (4 in the item, 1 linking it) + 1 item terminator = 39
    pairs_per_spend = 5
    per_spend = 33 + pairs_per_spend + 1
    # outer: ff 01 ff (3 bytes: quote pair, `1`, outer list pair) + 2 terminators (spend list, outer list)
    outer = 3 + 2
    ctx.ob(R, "length-constants", {per_spend, outer} <= lits and per_spend == 39 and outer == 5,
           "per spend 39 = 33 + 5 cons bytes + 1 terminator; outer 5 = `ff 01 ff` + two terminators (recomputed from the construction)",
           found=sorted(lits))
    # the per-spend sum adds puzzle.len() + clvm_bytes_len(amount) + solution.len()
    calls_ = [U.flat(n) for bi, n, t in b.calls()]
    ok = any(n.endswith("clvm_bytes_len") for n in calls_) and sum(1 for n in calls_ if n.endswith("::len")) >= 2
    amt = [strip_all(b.operand_term(t["args"][0])) for bi, n, t in b.calls() if n.endswith("clvm_bytes_len")]
    ctx.ob(R, "length-terms", ok and len(amt) == 1 and U.has_field(amt[0], "amount"),
           "each spend adds len(puzzle) + clvm_bytes_len(coin.amount) + len(solution)")
    q = fb.consts.get(CC + "spendbundle_conditions::QUOTE_BYTES")
    ctx.ob(R, "QUOTE_BYTES", bool(q) and q.get("value") == 2, "the mempool does not pay for the 2-byte quote wrapper (`ff 01`)", found=q.get("value") if q else None)
    cb = U.body(ctx, R, CC + "spendbundle_conditions::calculate_base_cost")
    if cb:
        r = []
        for bi, k, d, rv in cb.ret_assignments():
            if k == "agg":
                r.append(apnf.N(cb.rvalue_term(rv)))
        s = " ".join(map(str, r))
        ctx.ob(R, "base-cost", "calculate_generator_length" in s and "SubWithOverflow" in s and "cost_per_byte" in s and "interned_vbytes" in s,
               "base cost = (predicted length - QUOTE_BYTES) * cost_per_byte, or interned vbytes * cost_per_byte", found=s[:300])


def c08_flags(ctx):
    """the mempool entry points run the bundle under the flags of the block that would include it: fork flags are those
    get_flags_for_height_and_constants derives from the caller's prev_tx_height *unmodified* (the same call block validation
    makes), with only mempool strictness (MEMPOOL_MODE) and DONT_VALIDATE_SIGNATURE added; validate_clvm_and_signature passes
    the caller's flags through untouched.  An adjusted height shifts every fork activation by one block."""
    R = "C08.1"
    fb = ctx.fb
    f = _fn(fb, CC + "spendbundle_conditions::get_conditions_from_spendbundle")
    if not f:
        return ctx.missing(R, "mempool-flags", "get_conditions_from_spendbundle not found")
    b = Body(f, fb)
    ctx.touched(b.path)
    rs = [t for bi, n, t in b.calls() if n.startswith(CC + "spendbundle_conditions::run_spendbundle")]
    ok = len(rs) == 1
    got = None
    if ok:
        got = str(apnf.N(strip_all(b.operand_term(rs[0]["args"][3]))))
        base = "('get_flags_for_height_and_constants', 'prev_tx_height', 'constants')"
        m = "'chia_consensus::flags::MEMPOOL_MODE'"
        d = "'chia_consensus::flags::ConsensusFlags::DONT_VALIDATE_SIGNATURE'"
        ok = got in ("('bitor', ('bitor', %s, %s), %s)" % (base, m, d), "('bitor', ('bitor', %s, %s), %s)" % (base, d, m))
    ctx.ob(R, "mempool-flags:get_conditions_from_spendbundle", ok,
           "flags = get_flags_for_height_and_constants(prev_tx_height, constants) | MEMPOOL_MODE | DONT_VALIDATE_SIGNATURE", found=got, where=f.sp)
    f = _fn(fb, CC + "spendbundle_validation::validate_clvm_and_signature")
    if f:
        b = Body(f, fb)
        ctx.touched(b.path)
        rs = [t for bi, n, t in b.calls() if n.startswith(CC + "spendbundle_conditions::run_spendbundle")]
        got = [str(apnf.N(strip_all(b.operand_term(t["args"][3])))) for t in rs]
        ctx.ob(R, "mempool-flags:validate_clvm_and_signature", got == ["flags"], "validate_clvm_and_signature runs the bundle under the caller's flags, unmodified", found=got)
