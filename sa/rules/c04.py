"""C04 — cost charged equals the consensus cost table and the limit is exact.

  C04.1 constants (values and stated relations), the 256-slot two-byte cost table recomputed with exact rationals,
        compute_unknown_condition_cost table, softfork scale
  C04.2 charge classes: for each opcode class and each value of COST_CONDITIONS the pre-charge region of
        parse_conditions charges exactly the class cost of spec/costs.json (also: unknown opcodes, per-spend cost)
  C04.3 the three accumulators stay consistent: every `*max_cost -= X` is guarded by `*max_cost < X => CostExceeded`
        with the same X (strict <) and accompanied on the same path by ret.condition_cost += X and
        spend.condition_cost += X; there are no other writers
  C04.4 totals: subtract_cost rejects iff subtract > cost_left (strict); every entry point subtracts the byte cost
        once and every run_program cost, passes the remaining budget to run_program, and reports max_cost - cost_left
"""
import json
import os
from fractions import Fraction

from .. import apnf
from .. import facts as F
from .. import paths as P
from ..mir import Body, strip_all, show, subterms
from . import util as U
from . import regions as RG
from . import c01_effects as E

CC = "chia_consensus::"
COSTC = E.COSTC


def load():
    with open(os.path.join(F.VERIF, "spec", "costs.json")) as f:
        return json.load(f)


def canonical_two_byte_table():
    out = []
    for i in range(256):
        v = int(Fraction(100) * Fraction(17, 16) ** i)
        p = 1000
        while p < v:
            p *= 10
        p //= 1000
        out.append((v // p) * p)
    return out


def run(ctx):
    ctx.explanation = (
        "CONST/TBL/MPT rules: cost constants and the 256-entry two-byte table are compared with independently recomputed "
        "values; the pre-charge region of parse_conditions is extracted per opcode class and per COST_CONDITIONS value and "
        "compared with spec/costs.json; every budget decrement in the crate is checked to be guarded by a strict < test on the "
        "same term and mirrored in both condition-cost accumulators; subtract_cost and the cost bookkeeping of the entry "
        "points are checked structurally. The CLVM execution cost and byte lengths themselves are external (clvmr).")
    ctx.trusted += ["clvmr run_program cost", "serialized length of the generator"]
    ctx.assumptions += ["MESSAGE_CONDITION_COST / GENERIC_CONDITION_COST rows are frozen from the reviewed tree (no independent offline source)",
                        "N: the numeric value of any total"]
    spec = load()
    c04_1(ctx, spec)
    c04_2(ctx, spec)
    c04_3(ctx)
    c04_4(ctx)
    # the interned size cost is computed on the generator the bundle would be emitted as: (coin, puzzle, solution) order (shared with C08.2)
    from . import c08
    c08.c08_triples(ctx, R="C04.4")
    # the cost of a reserved two-byte opcode is its table slot (plus the generic charge made by parse_conditions): shared with C01.2
    from . import c01
    from . import cond_spec as _S
    c01.c01_2(ctx, _S.load(), rule="C04.2", only={"two-byte"})
    c01.c01_1(ctx, _S.load(), R="C04.2")


def c04_1(ctx, spec):
    R = "C04.1"
    fb = ctx.fb
    vals = {}
    for name, row in spec["constants"].items():
        c = fb.consts.get(CC + "opcodes::" + name)
        v = c.get("value") if c else None
        vals[name] = v
        ctx.ob(R, "const:" + name, v == row["value"], "%s == %d (%s)" % (name, row["value"], row.get("source") or row.get("relation")),
               found=v)
    ctx.ob(R, "relation:SPEND_COST", vals.get("SPEND_COST") == (vals.get("CREATE_COIN_COST") or 0) // 4, "SPEND_COST == CREATE_COIN_COST / 4")
    ctx.ob(R, "relation:NEW_CREATE_COIN_COST",
           vals.get("NEW_CREATE_COIN_COST") == (vals.get("CREATE_COIN_COST") or 0) - (vals.get("SPEND_COST") or 0),
           "NEW_CREATE_COIN_COST == CREATE_COIN_COST - SPEND_COST")
    c = fb.consts.get(CC + "opcodes::COSTS")
    tab = c.get("value") if c else None
    want = canonical_two_byte_table()
    bad = [i for i in range(256) if not tab or len(tab) != 256 or tab[i] != want[i]]
    ctx.ob(R, "two-byte-table", not bad, "COSTS[i] == floor(100*(17/16)^i) truncated to 3 significant figures for all 256 slots",
           found=bad[:8], where=c.get("sp", "") if c else "")
    ctx.sample({"rule": R, "COSTS[0..4]": (tab or [])[:5], "COSTS[255]": (tab or [None])[-1]})
    b = U.body(ctx, R, CC + "opcodes::compute_unknown_condition_cost")
    if b:
        got = set()
        for ev, ex in P.enumerate_paths(b):
            if ex[0] == "return":
                got.add((frozenset(apnf.fact(t, l) for t, l in P.conds(ev)), apnf.N(P.ret_of(ev))))
        idx = ("as usize", ("BitAnd", "op", 255))
        exp = {(frozenset({(("Lt", "op", 256), True)}), 0),
               (frozenset({(("Lt", "op", 256), False)}), ("[]", "COSTS", idx))}
        got2 = {(f, _costs_name(r)) for f, r in got}
        ctx.ob(R, "compute_unknown_condition_cost", got2 == exp, "op < 256 => 0, else COSTS[op & 0xff]",
               found=None if got2 == exp else [str(x) for x in got2])
    ctx.ob(R, "softfork-scale", spec["softfork_scale"] == 10000, "SOFTFORK argument is scaled by 10000 (checked in the parse_args row, C01.2)", trivial=True)


def _costs_name(r):
    if isinstance(r, tuple) and r and r[0] == "[]":
        return ("[]", "COSTS", r[2])
    return r


def c04_2(ctx, spec, R="C04.2"):
    fb = ctx.fb
    b = RG.parse_conditions_body(fb)
    if b is None:
        return ctx.missing(R, "parse_conditions", "not found")
    ctx.touched(b.path)
    consts = {k: v["value"] for k, v in spec["constants"].items()}
    sws = [bi for bi, blk in enumerate(b.blocks) if blk["t"]["k"] == "switch" and bi in b.reach and blk["t"]["dty"] == "u16"]
    pa = [bi for bi, n, t in b.calls() if n.endswith("conditions::parse_args")]
    if len(sws) != 1 or len(pa) != 1:
        return ctx.missing(R, "pre-charge-region", "cannot locate the opcode dispatch / parse_args call")
    paths = RG.region_paths(b, sws[0], pa)
    classes = {}
    for ex, f, eff in paths:
        key = [x for x in f if isinstance(x[1], tuple) and x[1][0] in ("in", "notin")]
        if len(key) != 1:
            ctx.missing(R, "pre-charge-region:shape", "path without a unique opcode class")
            return
        rest_ = frozenset(x for x in f if x != key[0] and not (isinstance(x[0], tuple) and x[0][:1] == ("rest",)))
        cont = ex == "continue" or any(isinstance(x[0], tuple) and x[0][:1] == ("rest",) for x in f)
        classes.setdefault(key[0][1], set()).add(("charged" if cont else "Err", rest_, frozenset(eff)))
    known17 = tuple(sorted([51] + list(range(43, 51)) + list(range(60, 68))))
    want_classes = {("in", (51,)): ("CREATE_COIN_COST", "NEW_CREATE_COIN_COST"),
                    ("in", tuple(range(43, 51))): ("AGG_SIG_COST", "AGG_SIG_COST"),
                    ("in", tuple(range(60, 68))): (None, "MESSAGE_CONDITION_COST"),
                    ("notin", known17): (None, "GENERIC_CONDITION_COST")}
    ctx.ob(R, "classes", set(classes) == set(want_classes), "the pre-charge dispatch has exactly the four opcode classes of the cost table",
           found=sorted(map(str, set(classes) ^ set(want_classes))))
    for key, (off, on) in want_classes.items():
        got = classes.get(key, set())
        exp = set()
        if off == on and off is not None:
            x = consts[off]
            exp.add(("charged", frozenset({(("Lt", "max_cost", x), False)}), frozenset(E.charge(x))))
            exp.add(("Err", frozenset({(("Lt", "max_cost", x), True)}), frozenset()))
        else:
            for flag, nm in ((False, off), (True, on)):
                if nm is None:
                    exp.add(("charged", frozenset({(COSTC, flag)}), frozenset()))
                else:
                    x = consts[nm]
                    exp.add(("charged", frozenset({(COSTC, flag), (("Lt", "max_cost", x), False)}), frozenset(E.charge(x))))
                    exp.add(("Err", frozenset({(COSTC, flag), (("Lt", "max_cost", x), True)}), frozenset()))
        ok = got == exp
        ctx.ob(R, "class:%s" % (str(key[1]) if key[0] == "in" else "other"), ok,
               "opcodes %s are charged (%s / %s) without / with COST_CONDITIONS" % (key, off, on),
               found=None if ok else {"unexpected": [str(x) for x in list(got - exp)[:2]], "missing": [str(x) for x in list(exp - got)[:2]]})
    ctx.sample({"rule": R, "classes": {str(k): len(v) for k, v in classes.items()}})
    # unknown opcode (parse_opcode == None)
    po = [bi for bi, n, t in b.calls() if n.endswith("opcodes::parse_opcode")]
    sw0, heads = RG.locate(b)
    if len(po) == 1:
        ps = RG.region_paths(b, b.blocks[po[0]]["t"]["t"], set(heads) | {sws[0]})
        got = set()
        for ex, f, eff in ps:
            none = [x for x in f if x[1] == "None"]
            if not none:
                continue
            got.add((ex, frozenset(x for x in f if x not in none), frozenset(eff)))
        g = consts["GENERIC_CONDITION_COST"]
        NOUNK = ("contains", "flags", "chia_consensus::flags::ConsensusFlags::NO_UNKNOWN_CONDS")
        exp = {("Err", frozenset({(NOUNK, True)}), frozenset()),
               ("continue", frozenset({(NOUNK, False), (COSTC, False)}), frozenset()),
               ("continue", frozenset({(NOUNK, False), (COSTC, True), (("Lt", "max_cost", g), False)}), frozenset(E.charge(g))),
               ("Err", frozenset({(NOUNK, False), (COSTC, True), (("Lt", "max_cost", g), True)}), frozenset())}
        ctx.ob(R, "unknown-opcode", got == exp,
               "unknown opcodes: rejected under NO_UNKNOWN_CONDS, else ignored and charged GENERIC only with COST_CONDITIONS",
               found=None if got == exp else [str(x) for x in list(got ^ exp)[:3]])
    # per-spend cost in process_single_spend
    fs = [f for p, f in fb.fns.items() if p.startswith(CC + "conditions::process_single_spend") and f.e["kind"] == "Fn"]
    if len(fs) == 1:
        pb = Body(fs[0], fb)
        ctx.touched(pb.path)
        s = consts["SPEND_COST"]
        sets = []
        for ev, ex in P.enumerate_paths(pb, want_assign=True):
            f = frozenset(apnf.fact(t, l) for t, l in P.conds(ev))
            eff = [RG.effect_of(e) for e in ev]
            ch = frozenset(e for e in eff if e and e[0] == "set" and ("condition_cost" in str(e[1]) or e[1] == "max_cost"))
            flag = [x[1] for x in f if x[0] == COSTC]
            guard = [x[1] for x in f if x[0] == ("Lt", "max_cost", s)]
            if flag:
                sets.append((flag[0], guard[0] if guard else None, ch, ex[0] == "return" and P.ret_class(ev)))
        want_ch = frozenset({("set", "max_cost", (".0", ("SubWithOverflow", "max_cost", s))),
                             ("set", (".condition_cost", "ret"), (".0", ("AddWithOverflow", (".condition_cost", "ret"), s))),
                             ("set", (".condition_cost", "SPEND"), (".0", ("AddWithOverflow", (".condition_cost", "SPEND"), s)))})
        ok = bool(sets)
        for flag, guard, ch, rc in sets:
            chn = frozenset(_unmut(e) for e in ch)
            if flag is False and chn:
                ok = False
            if flag is True and guard is False and chn != want_ch:
                ok = False
            if flag is True and guard is True and (chn or rc != "Err"):
                ok = False
        ctx.ob(R, "per-spend", ok, "each spend is charged SPEND_COST exactly when COST_CONDITIONS is set (guarded, all three accumulators)",
               found=None if ok else [str(x)[:300] for x in sets[:3]])
    else:
        ctx.missing(R, "per-spend", "process_single_spend not found")


def _unmut(e):
    """the new spend is the value of SpendConditions::new(..): call it SPEND"""
    def w(x):
        if isinstance(x, tuple):
            if x and x[0] == "SpendConditions::new":
                return "SPEND"
            return tuple(w(y) for y in x)
        return x
    return w(e)


def c04_3(ctx, R="C04.3"):
    """every decrement of a cost budget in chia_consensus: guarded by strict < on the same term, mirrored in both
    condition_cost accumulators; no other writers of condition_cost"""
    fb = ctx.fb
    n_dec = 0
    writers = set()
    for p, f in sorted(fb.fns.items()):
        if not p.startswith(CC) or "::tests" in p:
            continue
        b = Body(f, fb)
        for bi, blk in enumerate(b.blocks):
            if bi not in b.reach:
                continue
            for s in blk["s"]:
                if s["k"] != "assign" or not s["pl"].get("p"):
                    continue
                last = s["pl"]["p"][-1]
                if isinstance(last, dict) and last.get("n") in ("condition_cost",) and (last.get("of") or "") in (
                        CC + "conditions::SpendConditions", CC + "conditions::SpendBundleConditions"):
                    writers.add(p)
    allowed = {x for x in fb.fns if x.startswith(CC + "conditions::parse_conditions") or x.startswith(CC + "conditions::process_single_spend")}
    ctx.ob(R, "writers:condition_cost", writers <= allowed and len(writers) >= 2,
           "condition_cost (bundle and spend) is written only by parse_conditions and process_single_spend", found=sorted(writers - allowed))
    # per function: every path that decrements max_cost by X has fact (Lt(max_cost, X), False) and both += X
    for p in sorted(allowed):
        f = fb.fns[p]
        if f.e["kind"] != "Fn":
            continue
        b = Body(f, fb)
        bad = []
        # dominance formulation: each block storing `(*max_cost) = Sub(..)` is dominated by the false edge of Lt(max_cost, X)
        for bi, blk in enumerate(b.blocks):
            if bi not in b.reach:
                continue
            for s in blk["s"]:
                if s["k"] != "assign":
                    continue
                pt = strip_all(b.place_term(s["pl"]))
                if pt == ("arg", f.e["arg_names"].index("max_cost"), "max_cost") and s["pl"].get("p"):
                    rv = strip_all(b.rvalue_term(s["rv"]))
                    x = None
                    for y in subterms(rv):
                        if isinstance(y, tuple) and y and y[0] == "bin" and y[1] in ("SubWithOverflow", "Sub"):
                            x = strip_all(y[3])
                    n_dec += 1
                    ok = False
                    for dt_, lab in b.dominating_conditions(bi):
                        d = strip_all(dt_)
                        if d[0] == "bin" and d[1] == "Lt" and strip_all(d[3]) == x and lab == ("bool", False) and \
                                strip_all(d[2]) == pt:
                            ok = True
                    if not ok:
                        bad.append((b.where(bi), show(x) if x else "?"))
        # converse: the budget is *read* in a branch condition only by such a guard -- `*max_cost < X` whose false side
        # subtracts the same X.  Any other test of the budget (== 0, <= X, a threshold without a charge) rejects or accepts
        # depending on how much earlier spends/conditions happened to leave, i.e. on order, and breaks "limit == total passes".
        mc = ("arg", f.e["arg_names"].index("max_cost"), "max_cost")
        unpaired = []
        for node in b.edge_info:
            sb = b.edge_info[node][0]
            if sb not in b.reach:
                continue
            ct, lab = b.edge_condition(node)
            d = strip_all(ct)
            if not any(y == mc for y in subterms(d)):
                continue
            if lab != ("bool", False):
                continue
            okg = False
            if d[0] == "bin" and d[1] == "Lt" and strip_all(d[2]) == mc:
                x = strip_all(d[3])
                # a decrement by the same X dominated by this false edge
                for bj, blk in enumerate(b.blocks):
                    if bj not in b.reach or not b.dominates(node, bj):
                        continue
                    for st in blk["s"]:
                        if st["k"] == "assign" and st["pl"].get("p") and strip_all(b.place_term(st["pl"])) == mc:
                            rv = strip_all(b.rvalue_term(st["rv"]))
                            if any(isinstance(y, tuple) and y and y[0] == "bin" and y[1] in ("SubWithOverflow", "Sub") and strip_all(y[3]) == x
                                   for y in subterms(rv)):
                                okg = True
            if not okg:
                unpaired.append((b.where(sb), show(d)[:100]))
        ctx.ob(R, "budget-tests:" + p.split("::")[-1][:40], not unpaired,
               "the cost budget is tested only by `*max_cost < X` guards whose passing side subtracts the same X", found=unpaired[:3] or None)
        ctx.ob(R, "guarded-decrement:" + p.split("::")[-1][:40], not bad,
               "every `*max_cost -= X` is dominated by `*max_cost < X` being false for the same X (strict: a limit equal to the total passes)",
               found=bad)
    ctx.floor(R, "budget decrements", n_dec, 7)
    # execution_cost of a spend is only ever the clvm_cost parameter
    nb = U.body(ctx, R, CC + "conditions::SpendConditions::new")
    if nb:
        ok = False
        for bi, blk in enumerate(nb.blocks):
            for s in blk["s"]:
                if s["k"] == "assign" and s["rv"]["k"] == "agg" and (s["rv"].get("adt") or "").endswith("SpendConditions"):
                    d = dict(zip(s["rv"]["fields"], [strip_all(nb.operand_term(o)) for o in s["rv"]["ops"]]))
                    ok = d.get("execution_cost") == ("arg", 4, "clvm_cost") and d.get("condition_cost", ("",))[0] == "c" and d["condition_cost"][2] == 0
        ctx.ob(R, "spend-execution-cost", ok, "a spend's execution_cost is the clvm_cost it was created with; condition_cost starts at 0")


def c04_4(ctx, R="C04.4", eps_only=None):
    fb = ctx.fb
    b = U.body(ctx, R, CC + "run_block_generator::subtract_cost")
    if b:
        got = set()
        for ev, ex in P.enumerate_paths(b, want_assign=True):
            got.add((P.ret_class(ev), frozenset(apnf.fact(t, l) for t, l in P.conds(ev)),
                     frozenset(x for x in (RG.effect_of(e) for e in ev) if x)))
        g = ("Gt", "subtract", "cost_left")
        exp = {("Err", frozenset({(g, True)}), frozenset()),
               ("Ok", frozenset({(g, False)}), frozenset({("set", "cost_left", (".0", ("SubWithOverflow", "cost_left", "subtract")))}))}
        got, exp = set(U.orient(x) for x in got), set(U.orient(x) for x in exp)
        ctx.ob(R, "subtract_cost", got == exp, "subtract_cost rejects iff subtract > cost_left (strict), else subtracts",
               found=None if got == exp else [str(x) for x in got])
    eps = {
        "run_block_generator": {"byte": "len", "runs": 1},
        "run_block_generator2": {"byte": "len|interned_vbytes", "runs": 2},
        "run_spendbundle": {"byte": "calculate", "runs": 1},
    }
    for ep, want in eps.items():
        if eps_only is not None and ep not in eps_only:
            continue
        fs = [f for p, f in fb.fns.items() if (p.startswith(CC + "run_block_generator::" + ep) or p.startswith(CC + "spendbundle_conditions::" + ep))
              and f.e["kind"] == "Fn" and p.split("::")[-1].split("<")[0] == ep]
        if len(fs) != 1:
            ctx.missing(R, "entry:" + ep, "not found (%d)" % len(fs))
            continue
        eb = Body(fs[0], fb)
        ctx.touched(eb.path)
        subs = [(bi, t) for bi, n, t in eb.calls() if n.endswith("subtract_cost")]
        runs = [(bi, t) for bi, n, t in eb.calls() if U.flat(n).endswith("run_program::run_program")]
        # each run_program receives the remaining budget and its cost is subtracted afterwards
        ok_runs = len(runs) == want["runs"]
        for bi, t in runs:
            bud = strip_all(eb.operand_term(t["args"][-1]))
            if not (bud[0] in ("var", "mutated", "arg") and "cost_left" in str(bud)) and "cost_left" not in str(bud) and "max_cost" not in str(bud):
                ok_runs = False
            # the budget is the remaining cost itself -- not reduced by an anticipated charge (which is only due under some
            # fork rules and would make a limit equal to the total fail)
            if _root_name(eb, t["args"][-1]) != "cost_left":
                ok_runs = False
            after = [sb for sb, st in subs if eb.dominates(bi, sb) and "run_program" in str(strip_all(eb.operand_term(st["args"][1])))]
            if not after:
                ok_runs = False
        ctx.ob(R, "entry:%s:clvm-cost" % ep, ok_runs,
               "%s passes the remaining budget to each run_program and subtracts each returned cost" % ep,
               found={"run_program": len(runs), "subtract_cost": len(subs)})
        # the condition parser is handed the *remaining* budget (the local that subtract_cost decrements), not the caller's limit
        cps = [(bi, n_, t) for bi, n_, t in eb.calls() if n_.startswith(CC + "conditions::parse_spends") or n_.startswith(CC + "conditions::process_single_spend")]
        okb = len(cps) == 1
        found_root = None
        if okb:
            bi, n_, t = cps[0]
            cal = fb.fns.get(U.flat(n_))
            idx = None
            if cal is not None:
                cb_ = Body(cal, fb)
                pn = [cb_.names.get(i) for i in range(1, cb_.argc + 1)]
                idx = pn.index("max_cost") if "max_cost" in pn else None
            if idx is None:
                okb = False
            else:
                found_root = _root_name(eb, t["args"][idx])
                okb = found_root == "cost_left"
        ctx.ob(R, "entry:%s:condition-budget" % ep, okb,
               "%s gives the condition parser its remaining budget `cost_left` (condition costs count against what CLVM and size left over)" % ep,
               found=found_root)
        # the byte (or vbyte) cost is subtracted once before any CLVM run
        def _is_size_cost(st):
            op_ = st["args"][1]
            nm = U.named_root(eb, op_)
            return nm in ("base_cost", "byte_cost") or "cost_per_byte" in str(eb.operand_term(op_))
        # where the size cost is the raw byte cost it is `program.len() as u64 * cost_per_byte` -- the length of the buffer the
        # caller supplied, the same quantity on both generator paths (not a re-measured length: trailing bytes are charged)
        if ep in ("run_block_generator", "run_block_generator2"):
            terms = []
            for l_ in eb.local_named("byte_cost"):
                for d_ in eb.defs().get(l_, []):
                    if d_[0] == "s":
                        terms.append(str(apnf.N(eb.rvalue_term(d_[3]["rv"]))))
            ctx.ob(R, "entry:%s:byte-cost-term" % ep, terms == ["('.0', ('MulWithOverflow', ('as u64', ('len', 'program')), ('.cost_per_byte', 'constants')))"],
                   "%s: byte cost = program.len() as u64 * constants.cost_per_byte" % ep, found=terms)
        byte_subs = [sb for sb, st in subs if _is_size_cost(st)]
        ok_b = len(byte_subs) == 1 and all(eb.dominates(byte_subs[0], bi) for bi, _ in runs)
        ctx.ob(R, "entry:%s:byte-cost" % ep, ok_b, "%s subtracts the size cost exactly once, before running any CLVM" % ep,
               found=len(byte_subs))
        # reported cost = max_cost - cost_left (native) / += (legacy)
        rep = []
        for bi, blk in enumerate(eb.blocks):
            if bi not in eb.reach:
                continue
            for s in blk["s"]:
                if s["k"] == "assign" and s["pl"].get("p") and isinstance(s["pl"]["p"][-1], dict) and s["pl"]["p"][-1].get("n") == "cost" \
                        and (s["pl"]["p"][-1].get("of") or "").endswith("SpendBundleConditions"):
                    rep.append(eb.rvalue_term(s["rv"]))
        ok_r = False
        cl = eb.local_named("cost_left")
        if len(rep) == 1 and cl:
            for y in subterms(rep[0]):
                if isinstance(y, tuple) and y and y[0] == "bin" and y[1] in ("SubWithOverflow", "Sub"):
                    lhs, rhs = y[2], y[3]
                    if strip_all(lhs)[0] == "arg" and strip_all(lhs)[2] == "max_cost" and isinstance(rhs, tuple) and rhs[0] == "mutated" and rhs[2] == cl[0]:
                        ok_r = True
        ctx.ob(R, "entry:%s:reported-cost" % ep, ok_r, "%s reports cost = max_cost - cost_left (so cost <= max_cost by construction)" % ep,
               found=[show(x)[:200] for x in rep])
    # a budget exhausted *inside* CLVM surfaces as the same CostExceeded as one exhausted by a size or condition charge
    fe = fb.fns.get("<chia_consensus::validation_error::ValidationErr as core::convert::From<clvmr::error::EvalErr>>::from")
    if fe is None:
        ctx.missing(R, "evalerr-cost-exceeded", "impl From<EvalErr> for ValidationErr not found")
    else:
        eb_ = Body(fe, fb)
        rows = set()
        for ev, ex in P.enumerate_paths(eb_):
            cs = tuple((str(apnf.N(t)), l[0], len(l[1])) for t, l in P.conds(ev))
            rows.add((ex[0], str(apnf.N(P.ret_of(ev))) if ex[0] == "return" else "", cs))
        exp = {("return", "('ValidationErr::Err', ('ErrorCode::CostExceeded',))", (("e", "in", 1),)),
               ("return", "('ValidationErr::Eval', 'e')", (("e", "notin", 1),))}
        ctx.ob(R, "evalerr-cost-exceeded", rows == exp,
               "From<EvalErr>: exactly one EvalErr variant (the interpreter's cost-exceeded) becomes ErrorCode::CostExceeded, every other error stays Eval(e)",
               found=sorted(map(str, rows))[:3], where=fe.sp)
    b = U.body(ctx, R, CC + "generator_cost::interned_vbytes")
    if b:
        r = None
        for bi, k, d, rv in b.ret_assignments():
            r = apnf.N(b.rvalue_term(rv)) if k != "call" else apnf.N(b.call_term(rv))
        s = str(r)
        consts = sorted(set(x[2] for x in subterms(strip_all(b.rvalue_term(b.ret_assignments()[0][3]))) if isinstance(x, tuple) and x and x[0] == "c")) \
            if b.ret_assignments() and b.ret_assignments()[0][1] != "call" else []
        ctx.ob(R, "interned_vbytes", ("2" in s and "3" in s) or set(consts) >= {2, 3},
               "interned_vbytes = sum(atom bytes) + 2*atoms + 3*pairs (weights 2 and 3 present)", found=s[:300])


def _root_name(b, op, depth=0):
    """debug name of the local an operand is a copy / (re)borrow of"""
    pl = op.get("cp") or op.get("mv")
    if not pl or depth > 10:
        return None
    l = pl["l"]
    if l in b.names and not [e for e in pl.get("p", []) if e != "*"]:
        return b.names[l]
    ds = b.defs().get(l, [])
    if len(ds) == 1 and ds[0][0] == "s":
        rv = ds[0][3]["rv"]
        if rv["k"] == "use":
            return _root_name(b, rv["a"], depth + 1)
        if rv["k"] in ("ref", "rawptr"):
            l2 = rv["pl"]["l"]
            if not [e for e in rv["pl"].get("p", []) if e != "*"]:
                if l2 in b.names:
                    return b.names[l2]
                return _root_name(b, {"cp": {"l": l2}}, depth + 1)
    return None
