"""C13.1b for the hand-written struct codecs that are not one linear sequence (versioned blocks, ProofOfSpace, the
option-pair helper users): *re-stream matching*.

For every accepting path P of `parse` the value it constructs is substituted into the data conditions of every accepting
path S of `stream`.  Exactly one S must be selected; its token sequence — with Option tokens expanded to their tag byte
and payload, literal prefix bytes compared with the set of byte values P's own branch conditions admit for the u8 it
read at that position (decided on the 256-value table), and `len as u32` + raw bytes folded into a `Bytes` read — must
equal P's read sequence position by position, each streamed field being filled from the read at its own position.
Conversely every accepting S must be selected by some P (otherwise `stream` can emit what `parse` never accepts)."""
from .. import paths as P
from ..mir import Body, strip_all, show
from . import util as U

EXEMPT = {
    # dedicated rules elsewhere (C13.3 / C13.4 / C16) — leaf types whose bytes are produced by external code
    "chia_bls::gtelement::GTElement", "chia_bls::public_key::PublicKey", "chia_bls::secret_key::SecretKey",
    "chia_bls::signature::Signature", "chia_protocol::bytes::Bytes", "chia_protocol::bytes::BytesImpl<N>",
    "chia_protocol::program::Program",
}
HELPER_PARSE = "chia_protocol::utils::parse"
HELPER_STREAM = "chia_protocol::utils::stream"
OPT = "core::option::Option<"


def _short(name):
    fl = U.flat(name)
    return fl.split("::")[-1]


def _key(ct):
    return repr(strip_all(ct))


class PSide:
    """one accepting parse path"""

    def __init__(self, c13, bp, events, fields):
        self.reads = c13.parse_tokens(bp, events)          # [(kind, type|fn, callterm)]
        self.index = {_key(t[2]): k for k, t in enumerate(self.reads)}
        self.c13 = c13
        agg = strip_all(P.ret_of(events))
        self.built = None
        if agg[0] == "agg" and agg[2] == "Ok":
            inner = strip_all(agg[3][0])
            if inner[0] == "agg" and len(inner[3]) == len(fields):
                self.built = {f: self.abs(v) for f, v in zip(fields, inner[3])}
        self.facts = [(self.abs(t), lab) for t, lab in P.conds(events) if lab[0] != "try"]

    def abs(self, t):
        ps = self.c13._payload_site(t)
        if ps is not None and _key(ps) in self.index:
            return ("rd", self.index[_key(ps)])
        x = strip_all(t)
        if not isinstance(x, tuple) or not x:
            return ("opaque", str(x))
        k = x[0]
        if k == "c":
            return ("c", x[2])
        if k == "bin":
            return ("bin", x[1], self.abs(x[2]), self.abs(x[3]))
        if k == "un":
            return ("un", x[1], self.abs(x[2]))
        if k == "cast":
            return ("cast", x[2], self.abs(x[1]))
        if k == "agg":
            if x[1] == "core::option::Option":
                return ("none",) if x[2] == "None" else ("some", self.abs(x[3][0]))
            return ("agg", x[1], x[2], tuple(self.abs(a) for a in x[3]))
        if k == "f":
            return ("fld", x[2], self.abs(x[1]))
        if k == "dc":
            return ("as", x[2], self.abs(x[1]))
        if k == "call":
            return ("call", _short(x[1]), tuple(self.abs(a) for a in x[2]))
        return ("opaque", show(x)[:80])

    def admissible(self, k):
        """byte values of the u8 read at position k that this path's own branch conditions admit"""
        rel = [(t, lab) for t, lab in self.facts if _leaves(t) == {("rd", k)} and lab[0] in ("bool", "in", "notin")]
        out = set()
        for v in range(256):
            ok = True
            for t, lab in rel:
                r = _eval(t, {k: v})
                if r is None or not _holds(r, lab):
                    ok = False
                    break
            if ok:
                out.add(v)
        return out, len(rel)


def _holds(r, lab):
    if lab[0] == "bool":
        return bool(r) == bool(lab[1])
    if lab[0] == "in":
        return r in lab[1]
    if lab[0] == "notin":
        return r not in lab[1]
    return False


def _leaves(t):
    out = set()

    def go(x):
        if not isinstance(x, tuple) or not x:
            return
        if x[0] == "rd":
            out.add(x)
        elif x[0] == "c":
            pass
        elif x[0] in ("bin", "un", "cast"):
            for y in x[1:]:
                go(y)
        else:
            out.add(("other", repr(x)[:40]))
    go(t)
    return out


def _eval(t, env):
    k = t[0]
    if k == "rd":
        return env.get(t[1])
    if k == "c":
        return t[1] if isinstance(t[1], int) else None
    if k == "cast":
        v = _eval(t[2], env)
        if v is None:
            return None
        bits = {"u8": 8, "u16": 16, "u32": 32, "u64": 64, "usize": 64, "bool": 1}.get(t[1])
        return v & ((1 << bits) - 1) if bits else None
    if k == "un":
        v = _eval(t[2], env)
        return None if v is None else (int(not v) if t[1] == "Not" else None)
    if k == "bin":
        a, b = _eval(t[2], env), _eval(t[3], env)
        if a is None or b is None or t[1] not in P.FOLD:
            return None
        return P.FOLD[t[1]](a, b) & 0xFF if t[1] in ("Shl",) else P.FOLD[t[1]](a, b)
    return None


class SSide:
    """one accepting stream path"""

    def __init__(self, c13, bs, events, data_args=None, sink=2):
        self.c13 = c13
        self.data_args = data_args      # {arg index: name} for free-function codecs; None: fields of `self`
        self.conds = []
        for t, lab in P.conds(events):
            if lab[0] == "try":
                continue
            a = self.abs(t)
            if _mentions_self(a):
                self.conds.append((a, lab))
        self.toks = []
        for e in P.calls(events):
            _, bb, name, args, dest, ct = e
            pos = [i for i, a in enumerate(args) if c13._is_sink(a, sink)]
            if not pos:
                continue
            m = c13.RX.match(name)
            if m is None and name.endswith("Streamable>::stream") and name.startswith("<"):
                m = c13.RX.match(name.split(" as ")[0] + " as chia_traits::streamable::Streamable>::stream")
            if m and m.group(2) == "stream":
                self.toks.append(("T", m.group(1), self.abs(args[0])))
                continue
            fl = U.flat(name)
            if fl == HELPER_STREAM:
                self.toks.append(("H", tuple(self.abs(a) for i, a in enumerate(args) if i not in pos)))
                continue
            if fl.split("::")[-1] in ("extend_from_slice", "extend", "write_all"):
                others = [a for i, a in enumerate(args) if i not in pos]
                self.toks.append(("B", self.abs(others[0])))
                continue
            self.toks.append(("?", fl))

    def abs(self, t):
        x = strip_all(t)
        if not isinstance(x, tuple) or not x:
            return ("opaque", str(x))
        k = x[0]
        if k == "arg":
            if self.data_args is not None:
                return ("self", self.data_args[x[1]]) if x[1] in self.data_args else ("opaque", "arg%d" % x[1])
            return ("selfv",) if x[1] == 0 else ("opaque", "arg%d" % x[1])
        if k == "c":
            return ("c", x[2])
        if k == "f":
            inner = strip_all(x[1])
            if inner[0] == "dc" and inner[2] == "Some" and x[2] == "0":
                return ("some_payload", self.abs(inner[1]))
            a = self.abs(x[1])
            if a == ("selfv",):
                return ("self", x[2])
            return ("fld", x[2], a)
        if k == "bin":
            return ("bin", x[1], self.abs(x[2]), self.abs(x[3]))
        if k == "un":
            return ("un", x[1], self.abs(x[2]))
        if k == "cast":
            return ("cast", x[2], self.abs(x[1]))
        if k == "dc":
            return ("as", x[2], self.abs(x[1]))
        if k == "call":
            nm = _short(x[1])
            args = tuple(self.abs(a) for a in x[2])
            if nm in ("as_ref", "deref", "as_slice", "borrow", "clone", "as_deref") and len(args) == 1:
                return args[0]
            return ("call", nm, args)
        return ("opaque", show(x)[:80])


def _mentions_self(a):
    if not isinstance(a, tuple):
        return False
    if a and a[0] in ("self", "selfv"):
        return True
    return any(_mentions_self(x) for x in a if isinstance(x, tuple))


def subst(a, built):
    if not isinstance(a, tuple) or not a:
        return a
    if a[0] == "self":
        return built.get(a[1], ("opaque", "no-field:" + a[1]))
    r = tuple(subst(x, built) if isinstance(x, tuple) else x for x in a)
    if r[0] == "some_payload" and isinstance(r[1], tuple) and r[1] and r[1][0] == "some":
        return r[1][1]
    return r


def selected(p, s):
    """True / False / reason-string (undecidable)"""
    for t, lab in s.conds:
        v = subst(t, p.built)
        if lab[0] == "is":
            if v == ("none",):
                got = "None"
            elif isinstance(v, tuple) and v and v[0] == "some":
                got = "Some"
            else:
                return "stream branches on the variant of %s, which parse fills with a value not known on this path" % (t,)
            if got not in lab[1]:
                return False
            continue
        if lab[0] == "bool":
            known = [l for ft, l in p.facts if ft == v and l[0] == "bool"]
            if known:
                if bool(known[0][1]) != bool(lab[1]):
                    return False
                continue
            ls = _leaves(v)
            if len(ls) == 1 and next(iter(ls))[0] == "rd":
                k = next(iter(ls))[1]
                adm, n = p.admissible(k)
                vals = {bool(_eval(v, {k: b})) for b in adm}
                if vals == {bool(lab[1])}:
                    continue
                if vals == {not bool(lab[1])}:
                    return False
                return "condition %s is not decided by the bytes parse accepted on this path" % (v,)
            if not ls:
                r = _eval(v, {})
                if r is not None:
                    if bool(r) != bool(lab[1]):
                        return False
                    continue
            return "condition %s cannot be evaluated on the value parse constructs" % (v,)
        return "unsupported condition label %s" % (lab,)
    return True


def match_tokens(p, s):
    """None if the selected stream path re-emits exactly what this parse path read, else a reason"""
    k = 0          # next parse read
    toks = list(s.toks)
    i = 0
    n = len(p.reads)

    def expect_byte(vals):
        nonlocal k
        if k >= n or p.reads[k][0] != "T" or p.reads[k][1] != "u8":
            return "stream emits a literal byte %s where parse does not read a u8 (read #%d)" % (sorted(vals), k)
        adm, nf = p.admissible(k)
        if adm != set(vals):
            return "stream emits byte %s but parse's conditions on read #%d admit %s" % (sorted(vals), k, _fmtset(adm))
        k += 1
        return None

    def emit(ty, v):
        nonlocal k
        if isinstance(v, tuple) and v and v[0] == "rd":
            if v[1] != k:
                return "value read at #%d is streamed at position #%d" % (v[1], k)
            if p.reads[k][0] != "T" or p.reads[k][1] != ty:
                return "read #%d has type %s but is streamed as %s" % (k, p.reads[k][1], ty)
            k += 1
            return None
        if ty.startswith(OPT):
            inner = ty[len(OPT):-1]
            if v == ("none",):
                return expect_byte({0})
            if isinstance(v, tuple) and v and v[0] == "some":
                r = expect_byte({1})
                return r or emit(inner, v[1])
        if ty == "u8" and isinstance(v, tuple) and v and v[0] == "c" and isinstance(v[1], int):
            return expect_byte({v[1]})
        return "cannot relate streamed %s value %s to a read" % (ty, _fmt(v))

    while i < len(toks):
        t = toks[i]
        if t[0] == "T":
            v = subst(t[2], p.built)
            # `(buf.len() as u32).stream(out); out.extend_from_slice(buf)`  ==  Bytes read
            if t[1] == "u32" and isinstance(v, tuple) and v[0] == "cast" and isinstance(v[2], tuple) and v[2][0] == "call" and v[2][1] == "len" \
                    and i + 1 < len(toks) and toks[i + 1][0] == "B" and subst(toks[i + 1][1], p.built) == v[2][2][0]:
                buf = v[2][2][0]
                if isinstance(buf, tuple) and buf[0] == "call" and buf[1] in ("into_inner", "into", "to_vec") and buf[2] and buf[2][0] == ("rd", k) \
                        and p.reads[k][0] == "T" and p.reads[k][1] == "chia_protocol::bytes::Bytes":
                    k += 1
                    i += 2
                    continue
                return "length-prefixed raw bytes %s are not the Bytes value read at #%d" % (_fmt(buf), k)
            r = emit(t[1], v)
            if r:
                return r
            i += 1
            continue
        if t[0] == "H":
            vs = [subst(a, p.built) for a in t[1]]
            if k < n and p.reads[k][0] == "?" and p.reads[k][1] == HELPER_PARSE and \
                    vs == [("fld", "0", ("rd", k)), ("fld", "1", ("rd", k))]:
                k += 1
                i += 1
                continue
            return "option-pair helper streams %s, parse read #%d is %s" % ([_fmt(v) for v in vs], k, p.reads[k][:2] if k < n else None)
        return "unrecognised stream token %s" % (t[:2],)
    if k != n:
        return "parse reads %d items, the selected stream path re-emits %d" % (n, k)
    return None


def _fmtset(s):
    s = sorted(s)
    return str(s) if len(s) <= 8 else "%d values %s.." % (len(s), s[:4])


def _fmt(v):
    return str(v)[:100]


def run(ctx, impls, special):
    R = "C13.1b"
    fb = ctx.fb
    from . import c13
    n = 0
    for ty in special:
        if ty in EXEMPT:
            continue
        ms = impls[ty]
        adt = fb.adts.get(ty.split("<")[0])
        if not adt or "parse" not in ms or "stream" not in ms:
            ctx.missing(R, "versioned:" + ty, "impl / ADT facts missing")
            continue
        fields = [f["name"] for f in adt["variants"][0]["fields"]]
        bs, bp = Body(ms["stream"], fb), Body(ms["parse"], fb)
        ctx.touched(bs.path, bp.path)
        try:
            S = [SSide(c13, bs, e) for e, x in P.enumerate_paths(bs) if x[0] == "return" and P.ret_class(e) in ("Ok", "call")]
            Pp = [PSide(c13, bp, e, fields) for e, x in P.enumerate_paths(bp) if x[0] == "return" and P.ret_class(e) == "Ok"]
        except P.Budget:
            ctx.missing(R, "versioned:" + ty, "path budget exceeded")
            continue
        # drop-flag duplicates
        S = _dedup(S, lambda s: (repr(s.conds), repr(s.toks)))
        Pp = _dedup(Pp, lambda p: (repr(p.facts), repr([(r[0], r[1]) for r in p.reads]), repr(p.built)))
        n += 1
        problems = []
        hit = set()
        if not S or not Pp:
            problems.append("no accepting path found (stream %d, parse %d)" % (len(S), len(Pp)))
        for pi, p in enumerate(Pp):
            if p.built is None:
                problems.append("parse path %d does not return Ok(Self{..})" % pi)
                continue
            sel = []
            for si, s in enumerate(S):
                r = selected(p, s)
                if r is True:
                    sel.append(si)
                elif r is not False:
                    problems.append("parse path %d vs stream path %d: %s" % (pi, si, r))
            if len(sel) != 1:
                problems.append("parse path %d (reads %s) selects %d stream paths" % (pi, [r[1].split("::")[-1] for r in p.reads], len(sel)))
                continue
            hit.add(sel[0])
            r = match_tokens(p, S[sel[0]])
            if r:
                problems.append("parse path %d (reads %s): %s" % (pi, [r_[1].split("::")[-1] for r_ in p.reads], r))
        for si in range(len(S)):
            if si not in hit and not problems:
                problems.append("stream path %d (conditions %s) is produced by no accepting parse path" % (si, [(_fmt(t), l) for t, l in S[si].conds]))
        ctx.ob(R, "versioned:" + ty, not problems,
               "every accepting parse path of %s is re-emitted byte for byte by the stream path its value selects (%d parse / %d stream paths)" % (
                   ty.split("::")[-1], len(Pp), len(S)), found=problems[:4], where=ms["parse"].sp)
        if n <= 2:
            ctx.sample({"rule": R, "type": ty, "parse_paths": len(Pp), "stream_paths": len(S),
                        "reads": [[r[1].split("::")[-1] for r in p.reads] for p in Pp][:4]})
    ctx.floor(R, "versioned / helper struct codecs", n, 6)


def helper(ctx, R, bs, bp, names):
    """parse vs stream of the option-pair helper: the pair parse returns, fed to stream, re-emits what parse read"""
    from . import c13
    data_args = {0: names[0], 1: names[1]}
    S = [SSide(c13, bs, e, data_args=data_args, sink=3) for e, x in P.enumerate_paths(bs) if x[0] == "return" and P.ret_class(e) in ("Ok", "call")]
    Pp = [PSide(c13, bp, e, names) for e, x in P.enumerate_paths(bp) if x[0] == "return" and P.ret_class(e) == "Ok"]
    S = _dedup(S, lambda s: (repr(s.conds), repr(s.toks)))
    Pp = _dedup(Pp, lambda p: (repr(p.facts), repr([(r[0], r[1]) for r in p.reads]), repr(p.built)))
    problems = []
    hit = set()
    for pi, p in enumerate(Pp):
        if p.built is None:
            problems.append("parse path %d does not return Ok((first, second))" % pi)
            continue
        sel = [si for si, s in enumerate(S) if selected(p, s) is True]
        und = [selected(p, s) for s in S if selected(p, s) not in (True, False)]
        if len(sel) != 1 or und:
            problems.append("parse path %d selects %d stream paths %s" % (pi, len(sel), und[:1]))
            continue
        hit.add(sel[0])
        r = match_tokens(p, S[sel[0]])
        if r:
            problems.append("parse path %d (reads %s): %s" % (pi, [r_[1].split("::")[-1] for r_ in p.reads], r))
    if not problems and len(hit) != len(S):
        problems.append("%d stream paths are produced by no accepting parse path" % (len(S) - len(hit)))
    ctx.ob(R, "helper:parse-vs-stream", not problems and len(Pp) == 4 and len(S) == 4,
           "option-pair helper: each of the four accepted prefix values is re-emitted by stream with the members in the order they were read",
           found=problems[:4] or {"parse": len(Pp), "stream": len(S)}, where=bp.fn.sp)


def _dedup(xs, key):
    seen = set()
    out = []
    for x in xs:
        k = key(x)
        if k not in seen:
            seen.add(k)
            out.append(x)
    return out
