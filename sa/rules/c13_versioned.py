"""C13.1b for the hand-written (versioned) struct codecs — placeholder wired in below."""


def run(ctx, impls, special):
    pass
