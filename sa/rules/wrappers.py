"""Rule W — binding-wrapper fidelity (DESIGN 2.3).

The Python suite is not part of the pinned baseline: an edit in wheel/src/*.rs or in a `#[cfg(feature = "py-bindings")]`
method passes every pinned test.  For every wrapper listed in spec/wrappers.json the rule decides, on the wrapper's MIR
(and the MIR of the closures it hands to `py.detach`):

  * the native callee is called exactly `calls` times (default once) and no `forbid`-den sibling is called;
  * for every parameter of the native callee (roles are the callee's own parameter names from debug info) the set of
    wrapper parameters the argument is built from (backward provenance through copies, conversions, iterator adaptors and
    closure captures) equals the row, and the scalar literals it is built from equal the row;
  * rows with `ret` additionally require that the value returned on the accepting path is built from the native result.

Nothing is executed.  A wrapper or callee that has disappeared, or a callee parameter named in the row that no longer exists,
is reported as an undischargeable obligation (fail closed)."""
import json
import os

from .. import mir
from ..mir import Body
from .util import flat

SPEC = os.path.join(os.path.dirname(os.path.dirname(os.path.dirname(os.path.abspath(__file__)))), "spec", "wrappers.json")


def _closure_aggs(b):
    """closure path -> tuple of captured operand terms, for closures created in body b"""
    out = {}
    for bi, blk in enumerate(b.blocks):
        if bi not in b.reach:
            continue
        for s in blk["s"]:
            if s["k"] == "assign" and s["rv"]["k"] == "agg" and s["rv"].get("ak") == "closure":
                out[s["rv"]["closure"]] = tuple(b.operand_term(o) for o in s["rv"]["ops"])
    return out


class Scope:
    """a wrapper body or one of its (nested) closures, with the mapping from its leaves to wrapper parameter names"""

    def __init__(self, b, parent=None, captured=None):
        self.b = b
        self.parent = parent
        self.captured = captured or ()

    def direct(self, x):
        """`param` / `param.field.field` when the term is a wrapper parameter or a named field of one (through
        references, clones and closure captures); None otherwise"""
        x = mir.strip_all(x) if isinstance(x, tuple) else x
        if not isinstance(x, tuple) or not x or isinstance(x[0], tuple):
            return None
        if x[0] == "arg":
            if self.parent is None:
                return x[2]
            return None
        if x[0] == "f":
            inner = x[1]
            if self.parent is not None and isinstance(inner, tuple) and inner[:2] == ("arg", 0) and str(x[2]).isdigit():
                idx = int(x[2])
                if idx < len(self.captured):
                    return self.parent.direct(self.captured[idx])
                return None
            d = self.direct(inner)
            if d is None:
                return None
            return d if str(x[2]).isdigit() else d + "." + str(x[2])
        return None

    def sources(self, t, seen=None):
        """(set of wrapper-parameter names [with named field paths], set of scalar literals) the term is built from"""
        names, lits = set(), set()
        stack = [t]
        while stack:
            x = stack.pop()
            if not isinstance(x, tuple) or not x:
                continue
            k = x[0]
            if isinstance(k, tuple):
                stack.extend(y for y in x if isinstance(y, tuple))
                continue
            d = self.direct(x) if k != "mutated" else None
            if d is not None:
                names.add(d)
                continue
            if k == "arg":
                if self.parent is None:
                    names.add(x[2])
                elif x[1] == 0:
                    # the closure environment as a whole (rare): everything captured
                    for c in self.captured:
                        n2, l2 = self.parent.sources(c)
                        names |= n2
                        lits |= l2
                else:
                    names.add("closure-param:" + str(x[2]))
                continue
            if k == "f" and self.parent is not None and isinstance(x[1], tuple) and x[1][:2] == ("arg", 0):
                try:
                    idx = int(x[2])
                except ValueError:
                    idx = None
                if idx is not None and idx < len(self.captured):
                    n2, l2 = self.parent.sources(self.captured[idx])
                    names |= n2
                    lits |= l2
                    continue
            if k == "c":
                if x[1] in ("bool",) or x[1].startswith(("u", "i")) and x[1][1:].isdigit() or x[1] in ("usize", "isize"):
                    lits.add("%s:%s" % (x[1], x[2]))
                elif x[3]:
                    lits.add("const:" + str(x[3]))
                continue
            if k == "var":
                # a local assigned on several paths: union of the sources of every assignment
                key = ("var", x[1])
                seen = seen if seen is not None else set()
                if key in seen:
                    continue
                seen.add(key)
                for d in self.b.defs().get(x[1], []):
                    if d[0] == "c":
                        stack.append(self.b.call_term(d[3]))
                    else:
                        stack.append(self.b.rvalue_term(d[3]["rv"]))
                if 1 <= x[1] <= self.b.argc and self.parent is None:
                    names.add(x[2])
                continue
            if k == "call" and x is not t:
                # an inner call: its `&mut` arguments are state handles (allocator, cursor), not data of the role
                for y in x[2]:
                    if mir._has_refmut(y):
                        # follow the handle's initial value (an iterator built from a parameter), not its history
                        while isinstance(y, tuple) and y and y[0] in ("mutated", "refmut"):
                            y = y[1] if y[0] == "mutated" else y[2]
                    stack.append(y)
                continue
            if k == "mutated":
                # a local filled in place (`v.push(x)`, `out.extend(..)`): what the `&mut` calls were given
                stack.append(x[1])
                key = ("mut", x[2])
                seen = seen if seen is not None else set()
                if key not in seen:
                    seen.add(key)
                    for bb, nm, argterms, ai in self.b.mut_history(x[2]):
                        for j, at in enumerate(argterms):
                            if j != ai:
                                stack.append(at)
                continue
            if k == "closure":
                # a closure value passed along (iterator adaptors): what it captures
                for o in x[2]:
                    stack.append(o)
                continue
            for y in x[1:]:
                if isinstance(y, tuple):
                    stack.append(y)
        return names, lits


def scopes_of(fb, wrapper):
    """the wrapper body and all closures (transitively) defined in it"""
    top = Scope(Body(wrapper, fb))
    out = [top]
    work = [top]
    while work:
        s = work.pop()
        aggs = _closure_aggs(s.b)
        for f in fb.closures_of(s.b.path):
            cb = Body(f, fb)
            sc = Scope(cb, s, aggs.get(f.path, ()))
            out.append(sc)
            work.append(sc)
    return out


def analyse(fb, wrapper_path, native):
    """-> dict(calls=n, roles={param: [names]}, lits={param: [lits]}, sites=[where], native_params=[...]) or None"""
    w = fb.fns.get(wrapper_path)
    if w is None:
        return None
    res = {"calls": 0, "roles": {}, "lits": {}, "sites": [], "native_params": None, "all_native_calls": []}
    for sc in scopes_of(fb, w):
        for bi, name, t in sc.b.calls():
            f = flat(name)
            if f.startswith(("chia_", "clvm_")) and not f.startswith("chia_rs::"):
                res["all_native_calls"].append(f)
            if f != native:
                continue
            res["calls"] += 1
            res["sites"].append(sc.b.where(bi))
            cal = fb.fns.get(native)
            pn = None
            if cal is not None:
                cb = Body(cal, fb)
                pn = [cb.names.get(i, "_%d" % i) for i in range(1, cb.argc + 1)]
            else:
                pn = ["#%d" % i for i in range(len(t["args"]))]
            res["native_params"] = pn
            for i, a in enumerate(t["args"]):
                names, lits = sc.sources(sc.b.operand_term(a))
                key = pn[i] if i < len(pn) else "#%d" % i
                res["roles"].setdefault(key, set()).update(names)
                res["lits"].setdefault(key, set()).update(lits)
    res["roles"] = {k: sorted(v) for k, v in res["roles"].items()}
    res["lits"] = {k: sorted(v) for k, v in res["lits"].items() if v}
    return res


def load_spec():
    with open(SPEC) as f:
        return json.load(f)["rows"]


def run(ctx, pid, rule=None):
    """evaluate the rows of spec/wrappers.json attributed to property `pid`"""
    rule = rule or "%s.W" % pid
    rows = [r for r in load_spec() if pid in r["property"]]
    n = 0
    for r in rows:
        wp, native = r["wrapper"], r["native"]
        key = "%s->%s" % (wp.split("::", 1)[1] if "::" in wp else wp, native.split("::")[-1])
        if r.get("nth"):
            key += "#%s" % r["nth"]
        a = analyse(ctx.fb, wp, native)
        if a is None:
            ctx.missing(rule, key, "wrapper %s not found" % wp)
            continue
        ctx.touched(wp)
        n += 1
        want_calls = r.get("calls", 1)
        if a["calls"] != want_calls:
            ctx.ob(rule, key + ":callee", False,
                   "the wrapper must call %s exactly %d time(s)" % (native, want_calls), expected=want_calls, found=a["calls"],
                   where=ctx.fb.fns[wp].sp)
            continue
        bad = [f for f in a["all_native_calls"] if f in r.get("forbid", [])]
        ctx.ob(rule, key + ":callee", not bad, "calls %s (x%d) and none of its look-alike siblings %s" % (
            native, want_calls, r.get("forbid", [])), found=bad, where=a["sites"][0] if a["sites"] else "")
        missing_params = [p for p in r["roles"] if p not in a["roles"]]
        if missing_params:
            ctx.missing(rule, key + ":roles", "callee %s has no parameter named %s (has %s)" % (native, missing_params, a["native_params"]))
            continue
        got = {p: a["roles"][p] for p in r["roles"] if r["roles"][p] != "*"}
        want = {p: sorted(v) for p, v in r["roles"].items() if v != "*"}
        extra = [p for p in a["roles"] if p not in r["roles"]]
        ok = got == want and not extra
        ctx.ob(rule, key + ":roles", ok,
               "each argument of the native callee is built from exactly the wrapper parameters of its role",
               expected=want, found=dict(got, **({"unlisted-params": extra} if extra else {})),
               where=a["sites"][0] if a["sites"] else "")
        star = {p for p, v in r["roles"].items() if v == "*"}
        wl = {p: sorted(v) for p, v in r.get("lits", {}).items() if p not in star}
        gl = {p: v for p, v in a["lits"].items() if p not in star}
        ctx.ob(rule, key + ":literals", wl == gl, "scalar literals flowing into the native arguments equal the row",
               expected=wl, found=gl, where=a["sites"][0] if a["sites"] else "")
        # a wrapper that returns Result must not produce an Ok verdict without having gone through the native call
        # (directly, or through the closure it hands to py.detach): no early `return Ok(..)` shortcut in the binding
        if want_calls == 1 and not r.get("no_ret_guard"):
            top = Scope(Body(ctx.fb.fns[wp], ctx.fb))
            tb = top.b
            oks = tb.ok_exits()
            if oks:
                through = [tb.blocks[bi]["t"].get("t") for bi, nm, t in tb.calls() if flat(nm) == native]
                through = [x for x in through if x is not None]
                if not through:
                    # native call lives in a closure: the blocks that build a closure (transitively) containing it
                    host = set()
                    for sc in scopes_of(ctx.fb, ctx.fb.fns[wp]):
                        if sc.parent is not None and any(flat(nm) == native for bi, nm, t in sc.b.calls()):
                            x = sc
                            while x.parent is not None and x.parent.parent is not None:
                                x = x.parent
                            host.add(x.b.path)
                    for bi, blk in enumerate(tb.blocks):
                        if bi in tb.reach and any(st["k"] == "assign" and st["rv"]["k"] == "agg" and st["rv"].get("ak") == "closure" and st["rv"].get("closure") in host
                                                  for st in blk["s"]):
                            through.append(bi)
                p_ = tb.witness_path(0, oks, through) if through else [0]
                ctx.ob(rule, key + ":verdict-from-native", p_ is None,
                       "every Ok return of the wrapper has gone through the native call (no shortcut verdict in the binding)",
                       where=ctx.fb.fns[wp].sp)
        ctx.sample({"rule": rule, "wrapper": wp, "native": native, "roles": got, "literals": gl})
    return n


# number of rows per property confirmed by hand when the table was frozen (anti-vacuity floor)
FLOORS = {"C01": 4, "C03": 1, "C04": 1, "C05": 1, "C07": 2, "C08": 6, "C09": 7, "C10": 8, "C12": 5, "C15": 7,
          "C16": 11, "C17": 1, "C18": 12, "C19": 2}


def run_for(ctx):
    """evaluate rule W for the property of ctx (no-op for properties without a Python-facing wrapper row)"""
    pid = ctx.pid
    if pid not in FLOORS:
        return
    n = run(ctx, pid)
    ctx.floor("%s.W" % pid, "wrapper rows", n, FLOORS[pid])
    ctx.trusted.append("pyo3 argument extraction / result conversion (rule W checks which native function is called with which "
                       "wrapper parameter in which role, not the conversions themselves)")
