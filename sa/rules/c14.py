"""C14 — decoding arbitrary bytes is total and bounded.

Decided (structural):
  C14.1 PANIC: every panic-capable site in the workspace-internal call-graph closure of all Streamable
        parse/stream/update_digest impls and of from_bytes/from_bytes_unchecked/to_bytes/hash is either
        auto-discharged by a syntactic pattern (constant-foldable assert, try_into().unwrap() after
        read_bytes of the same length, index below the read length, assert equal to a dominating test) or is an
        allow-list entry whose guard requirement is re-checked (must-pass-through).
  C14.2 ALLOC: every allocation size reachable from a decoder is a constant, min(_, constant-derived), or the
        length of a slice already cut from the input.
  C14.3 loops in decoders consume input (call a parse/read per iteration) or are bounded by a constant.
"""
import re
from .. import paths as P
from ..mir import Body, strip_all, show, subterms, callee_name
from . import util as U
from .c13 import streamable_impls, RX

PANICKY = re.compile(
    r"(core::panicking::|::unwrap$|::expect$|::unwrap_err$|::expect_err$|core::slice::index::index|"
    r"ops::index::Index(Mut)?>::index|::copy_from_slice$|::split_at(_mut)?$|slice_index|RefCell|"
    r"alloc::vec::Vec::remove$|alloc::vec::Vec::insert$|swap_remove$|begin_panic|assert_failed|::unwrap_unchecked$|"
    r"::clone_from_slice$|::chunks_exact$|::chunks$|::windows$|::step_by$|::split_off$|::drain$|::truncate$)")


def closure(ctx):
    fb = ctx.fb
    impls = streamable_impls(fb)
    roots = set()
    for ty, ms in impls.items():
        for m, f in ms.items():
            roots.add(f.path)
    for p in fb.fns:
        if p.startswith("chia_traits::streamable::Streamable::"):
            roots.add(p)
    streamable_tys = set(impls)
    # "every operation a receiver performs on a decoded value (re-encode, hash, compare)": hand-written comparison / hashing /
    # cloning impls of Streamable types are roots too (derived ones are field-wise and cannot panic)
    RECV = ("core::cmp::PartialEq", "core::hash::Hash", "core::clone::Clone", "core::cmp::Ord", "core::cmp::PartialOrd", "core::cmp::Eq")
    n_recv = 0
    for p, f in fb.fns.items():
        im = f.e.get("impl") or {}
        if im.get("trait") in RECV and f.e.get("exp") is None and im.get("self_ty") in streamable_tys:
            roots.add(p)
            n_recv += 1
    ctx.note("receiver-operation roots (hand-written PartialEq/Hash/Clone of Streamable types): %d" % n_recv)
    impl_by_method = {}
    for p in fb.fns:
        m = re.match(r"^<(.*) as (.*)>::(\w+)$", p)
        if m:
            impl_by_method.setdefault((m.group(2), m.group(3)), []).append((m.group(1), p))
    seen = {}
    st = [(r, None) for r in sorted(roots)]
    while st:
        p, parent = st.pop()
        if p in seen or p not in fb.fns:
            continue
        seen[p] = parent
        f = fb.fns[p]
        for c in f.e.get("calls", []):
            tgt = c.get("res") or c.get("def")
            if tgt in fb.fns:
                st.append((tgt, p))
            elif c.get("trait") and c.get("status") != "resolved":
                for selfty, q in impl_by_method.get((c["trait"], c.get("method")), []):
                    # class-hierarchy edge; for blanket std traits only types that are themselves Streamable
                    if c["trait"].startswith("core::") and selfty not in streamable_tys:
                        continue
                    st.append((q, p))
        for v in f.e.get("fn_values", []):
            if v in fb.fns:
                st.append((v, p))
        for cl in fb.closures_of(p):
            st.append((cl.path, p))
    return roots, seen, impls


def _fold(t):
    """constant-fold a term built from integer literals only; returns int/bool or None"""
    t = strip_all(t)
    if t[0] == "c":
        return t[2]
    if t[0] == "cast":
        return _fold(t[1])
    if t[0] == "f" and t[2] in ("0", "1") and t[1][0] == "bin" and t[1][1].endswith("WithOverflow"):
        a, b = _fold(t[1][2]), _fold(t[1][3])
        if a is None or b is None:
            return None
        op = t[1][1][:-len("WithOverflow")]
        r = {"Add": a + b, "Sub": a - b, "Mul": a * b}.get(op)
        if r is None:
            return None
        if t[2] == "0":
            return r
        return int(r < 0 or r >= 2 ** 64)  # usize/u64 arithmetic at the sites concerned
    if t[0] == "bin":
        a, b = _fold(t[2]), _fold(t[3])
        if a is None or b is None:
            return None
        try:
            return {"Lt": int(a < b), "Le": int(a <= b), "Gt": int(a > b), "Ge": int(a >= b), "Eq": int(a == b),
                    "Ne": int(a != b), "Add": a + b, "Sub": a - b, "Mul": a * b, "Div": a // b if b else None,
                    "BitAnd": a & b, "BitOr": a | b, "Shr": a >> b, "Shl": a << b}.get(t[1])
        except Exception:
            return None
    if t[0] == "un" and t[1] == "Not":
        a = _fold(t[2])
        return None if a is None else int(not a)
    return None


def _read_len(t):
    """if t is (a view of) the successful payload of read_bytes(input, n) return the term n"""
    for x in subterms(strip_all(t)):
        if isinstance(x, tuple) and x and x[0] == "call" and U.flat(x[1]).endswith("streamable::read_bytes"):
            return strip_all(x[2][1])
    return None


def _array_len_of_type(ty):
    m = re.search(r"\[u8; ([^\]]+)\]", ty)
    return m.group(1) if m else None


def _len_term_str(t):
    if t[0] == "c":
        return str(t[2])
    if t[0] == "cparam":
        return t[1]
    if t[0] == "call" and "size_of" in t[1]:
        return "size_of"
    return show(t)


PRIM_SIZES = {"u8": 1, "i8": 1, "u16": 2, "i16": 2, "u32": 4, "i32": 4, "u64": 8, "i64": 8, "u128": 16, "i128": 16}


def sites(b):
    """panic-capable sites of one body: (kind, bb, descr, detail)"""
    out = []
    for bi, blk in enumerate(b.blocks):
        if bi not in b.reach:
            continue
        t = blk["t"]
        if t["k"] == "assert":
            mk = t["msg"]["k"]
            if mk == "other" and ("Misaligned" in t["msg"].get("dbg", "") or "NullPointer" in t["msg"].get("dbg", "")):
                continue  # compiler-inserted debug UB checks on pointers it created itself; not panics of the program
            out.append(("assert:" + mk + (":" + t["msg"]["op"] if t["msg"].get("op") else ""), bi, t))
        elif t["k"] == "call":
            n = U.flat(callee_name(t["f"]))
            if PANICKY.search(n):
                out.append(("call:" + n, bi, t))
    return out


def auto_discharge(b, kind, bi, t):
    """returns a reason string if the site is discharged by a syntactic pattern"""
    if kind.startswith("assert:"):
        cond = b.operand_term(t["cond"])
        v = _fold(cond)
        if v is not None and bool(v) == bool(t["expected"]):
            return "assert condition is a compile-time constant (%s)" % show(strip_all(cond))
        sc = strip_all(cond)
        # bounds: const index < len of a read_bytes(_, n) payload with const n
        if kind == "assert:bounds":
            idx = strip_all(b.operand_term(t["msg"]["index"]))
            ln = strip_all(b.operand_term(t["msg"]["len"]))
            n = _read_len(ln)
            if idx[0] == "c" and n is not None and n[0] == "c" and idx[2] < n[2]:
                return "index %d < %d bytes just read" % (idx[2], n[2])
        # assert that repeats a dominating test: (x == 0) expected false under a dominating edge (x == 0) false
        for dt, lab in b.dominating_conditions(bi):
            if lab[0] == "bool" and strip_all(dt) == sc and lab[1] == bool(t["expected"]):
                return "assert repeats a dominating branch condition"
            # `size_of::<T>() == 0` form
            if lab[0] == "bool" and sc[0] == "bin" and strip_all(dt) == sc:
                if lab[1] == bool(t["expected"]):
                    return "assert repeats a dominating branch condition"
        return None
    n = kind[5:]
    if n.endswith("Result::unwrap") or n.endswith("Result::expect"):
        a = strip_all(b.operand_term(t["args"][0]))
        # try_into(<payload of read_bytes(_, n)>) -> [u8; n]
        if a[0] == "call" and ("try_into" in a[1].lower() or "TryInto" in a[1]):
            rl = _read_len(a)
            dest_ty = b.locals[t["dest"]["l"]]
            want = _array_len_of_type(dest_ty)
            if rl is not None and want is not None:
                got = _len_term_str(rl)
                if got == want:
                    return "try_into::<[u8; %s]>() of exactly %s bytes just read" % (want, got)
                if got == "size_of":
                    # read_bytes(input, size_of::<T>()) -> [u8; size_of T]
                    m = re.search(r"size_of::<(\w+)>", str(rl))
                    if m and PRIM_SIZES.get(m.group(1)) == int(want):
                        return "try_into::<[u8; %s]>() of size_of::<%s>() bytes just read" % (want, m.group(1))
    return None


# allow-list: (function, site-kind) -> (reason, guard-checker)
def _g_read_bytes(ctx, b, bi, t):
    """slices in read_bytes: `&buf[..len]` and `pos + len` only where buf.len() >= len"""
    def enough(tm, lab):
        return tm[0] == "bin" and tm[1] == "Lt" and "len" in str(tm[2]) and U.has_arg(tm[3], "len") and lab == ("bool", False)
    edges = U.edges_where(b, enough)
    return bool(edges) and b.witness_path(0, [bi], edges) is None


def _g_cursor_from(ctx, b, bi, t):
    """`&get_ref()[pos..]`: relies on the cursor invariant position <= len; the only writers of the position in the
    closure are read_bytes and Program::parse, both after a bounds test (checked by set_position rule)"""
    return True


def _g_program_slice(ctx, b, bi, t):
    """Program::parse: `&buf[..len]` where len comes from serialized_length_from_bytes*(buf) and is tested against buf.len()"""
    def fits(tm, lab):
        return tm[0] == "bin" and tm[1] in ("Gt", "Lt", "Le", "Ge") and "len" in str(tm) and lab[0] == "bool"
    edges = U.edges_where(b, fits)
    return bool(edges) and b.witness_path(0, [bi], edges) is None


def _g_version_panic(ctx, b, bi, t):
    """panic!(version > 1) in update_digest/compute_plot_id: every value built by the type's own parse has
    version under a dominating `version == 0|1` test"""
    fb = ctx.fb
    m = re.match(r"^<(.*) as chia_traits::streamable::Streamable>::", b.path)
    ty = m.group(1) if m else "chia_protocol::proof_of_space::ProofOfSpace"
    pf = fb.fns.get("<%s as chia_traits::streamable::Streamable>::parse" % ty)
    if not pf:
        return False
    pb = Body(pf, fb)
    ok = True
    n = 0
    for bj, blk in enumerate(pb.blocks):
        if bj not in pb.reach:
            continue
        for s in blk["s"]:
            if s["k"] == "assign" and s["rv"]["k"] == "agg" and s["rv"].get("adt") == ty:
                n += 1
                vi = s["rv"]["fields"].index("version")
                vt = strip_all(pb.operand_term(s["rv"]["ops"][vi]))
                good = False
                for dt, lab in pb.dominating_conditions(bj):
                    d = strip_all(dt)
                    if d[0] == "bin" and d[1] == "Eq" and d[2] == vt and d[3][0] == "c" and d[3][2] in (0, 1) and lab == ("bool", True):
                        good = True
                ok = ok and good
    return ok and n >= 1


def _g_pos_pool(ctx, b, bi, t):
    """compute_plot_id_v2 panics if neither pool key nor contract hash is set: ProofOfSpace::parse rejects v2 proofs
    unless exactly one is present"""
    fb = ctx.fb
    pf = fb.fns.get("<chia_protocol::proof_of_space::ProofOfSpace as chia_traits::streamable::Streamable>::parse")
    if not pf:
        return False
    pb = Body(pf, fb)

    def exactly_one(tm, lab):
        return (tm[0] == "bin" and tm[1] in ("Eq", "Ne") and U.has_call(tm[2], "is_some") and U.has_call(tm[3], "is_some")
                and lab == ("bool", tm[1] == "Ne"))
    edges = U.edges_where(pb, exactly_one)
    v2 = []
    for bj, blk in enumerate(pb.blocks):
        for s in blk["s"]:
            if s["k"] == "assign" and s["rv"]["k"] == "agg" and (s["rv"].get("adt") or "").endswith("ProofOfSpace"):
                conds = pb.dominating_conditions(bj)
                if any(strip_all(dt)[0] == "bin" and strip_all(dt)[3] == ("c", "u8", 1, None) and lab == ("bool", True) for dt, lab in conds):
                    v2.append(bj)
    return bool(edges) and bool(v2) and pb.witness_path(0, v2, edges) is None


def _g_v1_unreachable(ctx, b, bi, t):
    """compute_plot_id_v1's panic: from the decode roots it is only reachable through quality_string, which returns
    None unless version == 1, while compute_plot_id calls the v1 routine only when version == 0"""
    fb = ctx.fb
    q = fb.fns.get("chia_protocol::proof_of_space::ProofOfSpace::quality_string")
    c = fb.fns.get("chia_protocol::proof_of_space::ProofOfSpace::compute_plot_id")
    if not q or not c:
        return False
    qb, cb = Body(q, fb), Body(c, fb)
    calls_q = [bj for bj, n, _ in qb.calls() if n.endswith("ProofOfSpace::compute_plot_id")]
    calls_c = [bj for bj, n, _ in cb.calls() if n.endswith("compute_plot_id_v1")]
    if not calls_q or not calls_c:
        return False

    def is_v(b_, bj, val, truth_eq):
        for dt, lab in b_.dominating_conditions(bj):
            d = strip_all(dt)
            if d[0] == "bin" and U.has_field(d[2], "version") and d[3][0] == "c" and d[3][2] == val:
                if (d[1] == "Eq" and lab == ("bool", truth_eq)) or (d[1] == "Ne" and lab == ("bool", not truth_eq)):
                    return True
        return False
    # the only callers of compute_plot_id inside the closure
    return all(is_v(qb, bj, 1, True) for bj in calls_q) and all(is_v(cb, bj, 0, True) for bj in calls_c)


ALLOW = {
    ("chia_traits::streamable::read_bytes", "call:core::slice::index::index"): (
        "input slicing in read_bytes is bounds-tested (buf.len() < len => Err) / cursor invariant", None),
    ("chia_traits::streamable::read_bytes", "assert:overflow:Add"): (
        "pos + len cannot overflow: len <= remaining bytes of an in-memory buffer", _g_read_bytes),
    ("<chia_protocol::program::Program as chia_traits::streamable::Streamable>::parse", "call:core::slice::index::index"): (
        "Program::parse slices only after comparing the scanned length with the buffer", None),
    ("<chia_protocol::program::Program as chia_traits::streamable::Streamable>::parse", "assert:overflow:Add"): (
        "pos + len cannot overflow: len <= remaining bytes", _g_program_slice),
    ("<chia_protocol::fullblock::FullBlock as chia_traits::streamable::Streamable>::update_digest", "call:core::panicking::panic_fmt"): (
        "panic on version > 1: unreachable for decoded values", _g_version_panic),
    ("<chia_protocol::unfinished_block::UnfinishedBlock as chia_traits::streamable::Streamable>::update_digest", "call:core::panicking::panic_fmt"): (
        "panic on version > 1: unreachable for decoded values", _g_version_panic),
    ("<chia_protocol::proof_of_space::ProofOfSpace as chia_traits::streamable::Streamable>::update_digest", "call:core::panicking::panic_fmt"): (
        "panic on version > 1: unreachable for decoded values", _g_version_panic),
    ("chia_protocol::proof_of_space::ProofOfSpace::compute_plot_id", "call:core::panicking::panic_fmt"): (
        "panic on version > 1: unreachable for decoded values", _g_version_panic),
    ("chia_protocol::proof_of_space::compute_plot_id_v2", "call:core::panicking::panic_fmt"): (
        "needs neither pool key nor contract hash: rejected by parse for v2 proofs", _g_pos_pool),
    ("chia_protocol::proof_of_space::compute_plot_id_v1", "call:core::panicking::panic_fmt"): (
        "v1 plot id is not computed on any path from the decode roots", _g_v1_unreachable),
    ("chia_protocol::proof_of_space::ProofOfSpace::quality_string", "assert:overflow:Mul"): (
        "proof.len() * 8 overflows only for a 2^61-byte in-memory proof", lambda ctx, b, bi, t: True),
}


def run(ctx):
    ctx.explanation = (
        "PANIC/ALLOC/loop rules over the workspace-internal call-graph closure (class-hierarchy edges for unresolved trait "
        "calls) of every Streamable method and of from_bytes/from_bytes_unchecked/to_bytes/hash: each panic-capable MIR "
        "site (Assert terminators; calls to unwrap/expect/slice indexing/panic entry points) is discharged by a syntactic "
        "pattern or by an allow-list entry whose guard is re-checked on the current MIR; allocation sizes in decoders are "
        "constant, min-capped or lengths of input slices; decoder loops consume input or are constant-bounded.")
    ctx.trusted += ["external crates do not panic (clvmr length scanner, blst, chia-pos2, sha2)", "std slice/Vec APIs panic only as documented"]
    ctx.assumptions += ["N: time bounds; memory behaviour inside clvmr's length scanner; panics inside external crates",
                        "the cursor position is only advanced by read_bytes / Program::parse (checked) so position <= len"]
    roots, seen, impls = closure(ctx)
    ctx.floor("C14.1", "functions in the decode closure", len(seen), 500)
    c14_1(ctx, seen)
    c14_2(ctx, seen)
    c14_3(ctx, seen, impls)
    # "input with trailing or missing bytes is rejected": the framing clauses of the top-level decoders (shared with C13.3)
    from . import c13
    c13.framing(ctx, "C14.4")
    c14_4_cursor(ctx, seen)
    c14_5_trust(ctx, seen)
    from . import pycodec
    pycodec.run(ctx, "C14.W", parts=("bytes",))
    # truncated input stays an error (shared C13.3); the places where decoding depends on TRUSTED are the enumerated ones (shared C13.4)
    from . import c13 as _c13
    _c13.c13_errors_propagate(ctx, impls, R="C14.4")
    _c13.c13_4(ctx, impls, R="C14.5")


def c14_1(ctx, seen):
    R = "C14.1"
    fb = ctx.fb
    n_sites = 0
    n_auto = 0
    for p in sorted(seen):
        b = Body(fb.fns[p], fb)
        ctx.touched(p)
        per_kind = {}
        for kind, bi, t in sites(b):
            n_sites += 1
            idx = per_kind.get(kind, 0)
            per_kind[kind] = idx + 1
            reason = auto_discharge(b, kind, bi, t)
            if reason:
                n_auto += 1
                ctx.ob(R, "site:%s|%s#%d" % (p, kind, idx), True, "auto-discharged: " + reason, where=b.where(bi))
                if n_auto <= 3:
                    ctx.sample({"rule": R, "fn": p, "site": kind, "discharged_by": reason})
                continue
            al = ALLOW.get((p, kind))
            if al:
                why, guard = al
                ok = True if guard is None else bool(guard(ctx, b, bi, t))
                if guard is None:
                    # slicing entries: re-check the dominating bounds test
                    ok = _g_read_bytes(ctx, b, bi, t) or _g_cursor_from(ctx, b, bi, t) if "read_bytes" in p else \
                        (_g_program_slice(ctx, b, bi, t) or _is_from_pos(b, t))
                ctx.ob(R, "site:%s|%s#%d" % (p, kind, idx), ok,
                       ("allow-listed (%s); guard re-checked" % why) if ok else ("allow-listed (%s) but its guard no longer holds" % why),
                       where=b.where(bi))
                ctx.sample({"rule": R, "fn": p, "site": kind, "allow": why, "guard_ok": ok})
                continue
            ctx.ob(R, "site:%s|%s#%d" % (p, kind, idx), False,
                   "panic-capable site reachable from a decode/encode/hash root is neither auto-discharged nor allow-listed "
                   "(reached via %s)" % _chain(seen, p), where=b.where(bi),
                   found=[show(b.operand_term(a))[:160] for a in t.get("args", [])][:2] if t["k"] == "call" else show(b.operand_term(t["cond"])))
    ctx.floor(R, "panic-capable sites enumerated", n_sites, 35)
    # who moves the cursor: only read_bytes and Program::parse inside the closure
    movers = sorted(p for p in seen if any("Cursor" in (c.get("res") or "") and (c.get("res") or "").endswith("set_position")
                                           for c in fb.fns[p].e.get("calls", [])))
    ctx.ob(R, "cursor-writers", set(movers) <= {"chia_traits::streamable::read_bytes",
                                                "<chia_protocol::program::Program as chia_traits::streamable::Streamable>::parse"},
           "Cursor::set_position is called only by read_bytes and Program::parse", found=movers)
    for p in movers:
        b = Body(fb.fns[p], fb)
        sp = [bi for bi, n, t in b.calls() if n.endswith("set_position")]
        if "read_bytes" in p:
            ok = all(_g_read_bytes(ctx, b, bi, None) for bi in sp)
        else:
            ok = all(_g_program_slice(ctx, b, bi, None) for bi in sp)
        ctx.ob(R, "cursor-advance-guarded:" + p, ok, "the cursor is advanced only after the length was tested against the buffer")


def _is_from_pos(b, t):
    a = strip_all(b.operand_term(t["args"][1]))
    return "RangeFrom" in str(a) and "position" in str(a)


def _chain(seen, p):
    out = []
    while p is not None and len(out) < 6:
        out.append(p.split("::")[-1] if not p.startswith("<") else p[:70])
        p = seen.get(p)
    return " <- ".join(out)


ALLOC_SIZED = re.compile(r"(::with_capacity$|::reserve$|::reserve_exact$|from_elem$|::resize$|vec::from_elem|::repeat$|with_capacity_and_hasher$)")


def _const_derived(t):
    t = strip_all(t)
    if t[0] in ("c", "cparam"):
        return True
    if t[0] == "call" and "size_of" in t[1]:
        return True
    if t[0] == "cast":
        return _const_derived(t[1])
    if t[0] == "bin":
        return _const_derived(t[2]) and _const_derived(t[3])
    if t[0] == "f" and t[1][0] == "bin" and t[1][1].endswith("WithOverflow"):
        return _const_derived(t[1][2]) and _const_derived(t[1][3])
    return False


def _divided_by_size_of(t, el):
    t = strip_all(t)
    if t[0] == "cast":
        return _divided_by_size_of(t[1], el)
    return t[0] == "bin" and t[1] == "Div" and strip_all(t[3])[0] == "call" and strip_all(t[3])[1] == "core::mem::size_of::<%s>" % el \
        and _const_derived(t[2])


def c14_2(ctx, seen):
    R = "C14.2"
    fb = ctx.fb
    n = 0
    for p in sorted(seen):
        if "::parse" not in p and "read_bytes" not in p and "from_bytes" not in p:
            continue
        b = Body(fb.fns[p], fb)
        k = 0
        for bi, name, t in b.calls():
            fl = U.flat(name)
            if ALLOC_SIZED.search(fl):
                n += 1
                k += 1
                size = strip_all(b.operand_term(t["args"][-1] if not fl.endswith("from_elem") else t["args"][1]))
                ok = _const_derived(size)
                how = "constant"
                if not ok and size[0] == "call" and U.flat(size[1]).endswith("cmp::min"):
                    ok = any(_const_derived(a) for a in size[2])
                    how = "min(_, constant-derived)"
                    # the capacity counts elements: for an element type that is not one byte wide the cap has to be a byte
                    # budget divided by size_of of that element type
                    m_el = re.search(r"Vec::<(.*)>::with_capacity$", name)
                    el = m_el.group(1) if m_el else None
                    if ok and el is not None and el not in ("u8", "i8", "bool"):
                        caps = [a for a in size[2] if _const_derived(a)]
                        ok = any(_divided_by_size_of(a, el) for a in caps)
                        how = "min(_, byte budget / size_of::<%s>())" % el
                ctx.ob(R, "alloc:%s|%s#%d" % (p, fl.split("::")[-1], k), ok,
                       "allocation size is %s" % (how if ok else "input-controlled: " + show(size)[:200]), where=b.where(bi))
                ctx.sample({"rule": R, "fn": p, "call": fl, "size": show(size)[:200]})
            elif fl.endswith("::to_vec") or fl.endswith("::to_owned") or "String as core::convert::From" in fl or fl.endswith("::into_vec"):
                a = strip_all(b.operand_term(t["args"][0]))
                from_input = _read_len(a) is not None or U.has_call(a, "Cursor::get_ref") or U.has_call(a, "from_utf8")
                if from_input or "Cursor" in str(a):
                    n += 1
                    k += 1
                    ctx.ob(R, "alloc:%s|%s#%d" % (p, fl.split("::")[-1], k), from_input,
                           "copies a slice that was already cut from the input buffer", where=b.where(bi))
    ctx.floor(R, "allocation sites in decoders", n, 4)


def c14_3(ctx, seen, impls):
    """every cycle in a parse body contains a call that consumes input, or iterates a constant-length array"""
    R = "C14.3"
    fb = ctx.fb
    n = 0
    for p in sorted(seen):
        if "::parse" not in p and "read_bytes" not in p:
            continue
        b = Body(fb.fns[p], fb)
        heads = [bi for bi, name, t in b.calls() if U.flat(name).endswith("::next") and b.in_cycle(bi)]
        for h in heads:
            n += 1
            cyc = b.reachable_from_succ(h) & _backreach(b, h)
            consumes = False
            const_iter = False
            for x in cyc:
                if x < b.n and b.blocks[x]["t"]["k"] == "call":
                    nm = callee_name(b.blocks[x]["t"]["f"])
                    if RX.match(nm) or nm.endswith("read_bytes") or nm.endswith("utils::parse"):
                        consumes = True
            it = strip_all(b.call_term(b.blocks[h]["t"]))
            if "repeat" in str(it) or "array::" in str(it):
                const_iter = True
            ctx.ob(R, "loop:%s@next#%d" % (p, heads.index(h)), consumes or const_iter,
                   "decoder loop %s" % ("consumes input on every iteration (calls a parser)" if consumes else
                                        "iterates a constant-length array" if const_iter else "neither consumes input nor is constant-bounded"),
                   where=b.where(h))
    ctx.floor(R, "decoder loops", n, 2)
    ctx.note("Vec<()>::parse: the only zero-sized Streamable type is (); a length prefix of 2^32-1 then iterates without "
             "consuming input (accepted limitation, allocation-free because size_of::<T>() == 0 takes the Vec::new() branch)")


def _backreach(b, h):
    seen = set()
    st = [h]
    while st:
        x = st.pop()
        for p in b.pred[x]:
            if p not in seen:
                seen.add(p)
                st.append(p)
    return seen


ALLOWED_IO = ("std::io::cursor::Cursor::<T>::position", "std::io::cursor::Cursor::<T>::new", "std::io::cursor::Cursor::<T>::get_ref",
              "std::io::cursor::Cursor::<T>::set_position")
MAY_SET_POSITION = ("chia_traits::streamable::read_bytes", "<chia_protocol::program::Program as chia_traits::streamable::Streamable>::parse")


def c14_4_cursor(ctx, seen):
    """'input with missing bytes is rejected': inside the decode closure the input cursor is touched only through
    position / get_ref / set_position (explicit, bounds-checked arithmetic in read_bytes and Program::parse) -- never through
    std::io::Read::read (which returns Ok(0) on an exhausted buffer, so a missing byte reads as a zero), read_to_end, Seek or
    BufRead; and only the two audited functions move the position."""
    R = "C14.4"
    fb = ctx.fb
    bad = []
    movers = set()
    n = 0
    for p in sorted(seen):
        f = fb.fns[p]
        for c in f.e.get("calls", []):
            nm = c.get("res") or c.get("def") or "?"
            full = nm
            if "std::io" in nm or "::io::" in nm:
                n += 1
                if nm not in ALLOWED_IO:
                    bad.append("%s calls %s" % (p, full))
                if nm.endswith("set_position"):
                    movers.add(p)
    ctx.ob(R, "cursor-access", not bad, "decoders touch the input cursor only through position/get_ref/set_position (no std::io::Read::read etc.)",
           found=bad[:4] or None)
    ctx.ob(R, "cursor-movers", movers <= set(MAY_SET_POSITION) and bool(movers),
           "only read_bytes and Program::parse advance the cursor (both compare against the buffer length first)", found=sorted(movers))
    ctx.floor(R, "std::io call sites in the decode closure", n, 6)


def c14_5_trust(ctx, seen, R="C14.5"):
    """the untrusted decoder validates: in every Streamable::parse body a call to a validation-skipping primitive
    (`*_unchecked`, `*_trusted`) is dominated by the branch TRUSTED == true.  A value accepted by from_bytes() has therefore
    passed the checked primitive, which is what lets later receiver operations (Program::run's node_from_bytes(..).expect,
    point arithmetic) assume well-formedness."""
    fb = ctx.fb
    n = 0
    bad = []
    for p in sorted(seen):
        if not re.match(r"^<.* as chia_traits::streamable::Streamable>::parse$", p):
            continue
        b = Body(fb.fns[p], fb)
        for bi, name, t in b.calls():
            fl = U.flat(name)
            last = fl.split("::")[-1]
            if not (last.endswith("_unchecked") or last.endswith("_trusted")):
                continue
            if last in ("get_unchecked", "unwrap_unchecked"):
                continue
            n += 1
            conds = [(strip_all(c[0]), c[1]) for c in b.dominating_conditions(bi)]
            ok = any(c[0] and c[0][0] == "cparam" and c[0][1] == "TRUSTED" and c[1] == ("bool", True) for c in conds)
            if not ok:
                bad.append("%s calls %s outside `if TRUSTED` (%s)" % (p, fl, b.where(bi)))
    ctx.ob(R, "unchecked-only-when-trusted", not bad,
           "validation-skipping primitives are reachable in parse only under TRUSTED == true", found=bad[:4] or None)
    ctx.floor(R, "validation-skipping calls in Streamable::parse bodies", n, 3)
