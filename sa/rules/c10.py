"""C10 — block builders emit exactly the accepted bundles within the cost limit.

  C10.1 undo pairing: compressed builder — every path from the batch's Serializer::add to a `(false, _)` return
        passes Serializer::restore(state) with the state that add returned; interned builder — every path from
        Allocator::checkpoint to a `(false, _)` return passes restore_checkpoint of that checkpoint
  C10.2 all-or-nothing: writes to {block_cost, signature, spend_list / serializer, byte_cost} happen only on paths
        returning `(true, _)` and after the last fallible call; rejecting paths write only num_skipped (and the
        restored byte_cost); Err paths write none of the committed fields
  C10.3 accumulated signature/cost: signature.aggregate receives exactly the aggregate of the batch's bundle
        signatures; block_cost += the declared cost; the acceptance guard is
        byte_cost [+ wrapper] + block_cost + cost > max => reject, evaluated after the size is known
  C10.4 bookkeeping constants the returned cost depends on: initial block_cost = 20 in both builders;
        WRAPPER_VBYTES = 11 recomputed from the (q . ((x))) skeleton; cost() returns the same sum the guards use
"""
from .. import apnf
from .. import paths as P
from ..mir import Body, strip_all, show, subterms
from . import util as U

CC = "chia_consensus::"
CB = CC + "build_compressed_block::BlockBuilder"
IB = CC + "build_interned_block::InternedBlockBuilder"
COMMITTED = {"block_cost", "signature", "spend_list", "ser", "byte_cost", "allocator", "sentinel"}


def _find(fb, path):
    fs = [f for p, f in fb.fns.items() if (p == path or p.startswith(path + "::<")) and f.e["kind"] in ("Fn", "AssocFn")]
    return fs[0] if len(fs) == 1 else None


def ret_kind(ev):
    r = P.ret_of(ev)
    if r is None:
        return "?"
    r = strip_all(r)
    if r[0] == "agg" and r[2] == "Ok":
        inner = strip_all(r[3][0])
        if inner[0] == "agg" and inner[1] == "tuple" and strip_all(inner[3][0])[0] == "c":
            return "added" if strip_all(inner[3][0])[2] else "rejected"
        return "Ok"
    if r[0] == "call" and "from_residual" in r[1]:
        return "Err"
    if r[0] == "agg" and r[2] == "Err":
        return "Err"
    return "?"


def self_writes(ev):
    """field names of `self` written on a path: direct stores and &mut self.<field> handed to calls"""
    out = []
    for e in ev:
        if e[0] == "assign":
            pt = strip_all(e[2])
            f = _self_field(pt)
            if f:
                out.append(("store", f, e[3]))
        elif e[0] == "call":
            for a in e[3]:
                x = a
                while isinstance(x, tuple) and x and x[0] == "mutated":
                    x = x[1]
                if isinstance(x, tuple) and x and x[0] == "refmut":
                    f = _self_field(strip_all(x[2]))
                    if f:
                        out.append(("call", f, U.flat(e[2]).split("::")[-1]))
    return out


def _self_field(pt):
    while isinstance(pt, tuple) and pt and pt[0] == "f":
        if isinstance(pt[1], tuple) and pt[1] and pt[1][0] == "arg" and pt[1][1] == 0:
            return pt[2]
        pt = pt[1]
    return None


def run(ctx):
    ctx.explanation = (
        "MPT/EFF/PROV/CONST rules over both block builders: undo calls dominate every rejecting return after a tentative add; "
        "per-path classification of writes to builder state by outcome (added / rejected / error); provenance of the aggregated "
        "signature and of the cost terms in the acceptance guard; bookkeeping constants recomputed from the generator skeleton. "
        "That the size estimate never underestimates and that finalize's asserts hold need serializer/interning semantics.")
    ctx.trusted += ["clvmr Serializer add/restore/size", "Allocator checkpoint/restore_checkpoint", "intern_tree"]
    ctx.assumptions += ["N: estimate >= final cost (triangle inequality of interning, Serializer::size monotonicity); finalize never panics; "
                        "equality of the finalized generator with the accepted spends",
                        "heuristic constants MAX_SKIPPED_ITEMS / MIN_COST_THRESHOLD are not constrained"]
    fb = ctx.fb
    fc = _find(fb, CB + "::add_spend_bundles")
    fi = _find(fb, IB + "::add_spend_bundles")
    if not fc or not fi:
        return ctx.missing("C10.1", "add_spend_bundles", "builder methods not found")
    bc, bi_ = Body(fc, fb), Body(fi, fb)
    ctx.touched(bc.path, bi_.path)
    c10_1(ctx, bc, bi_)
    c10_2(ctx, bc, bi_)
    c10_3(ctx, bc, bi_)
    c10_derived(ctx)
    c10_4(ctx)
    c10_1b(ctx)
    c10_finalize_limit(ctx)
    c10_estimate_units(ctx)
    c10_accumulator(ctx)


def _rejected_returns(b):
    out = []
    for bi, k, d, rv in b.ret_assignments():
        if k == "agg" and d[1] == "Ok":
            t = strip_all(b.rvalue_term(rv))
            inner = strip_all(t[3][0])
            if inner[0] == "agg" and inner[1] == "tuple":
                flag = strip_all(inner[3][0])
                if flag[0] == "c" and flag[2] == 0:
                    out.append(bi)
    return out


def c10_1(ctx, bc, bi_):
    R = "C10.1"
    # compressed
    adds = [(bi, t) for bi, n, t in bc.calls() if U.flat(n).endswith("Serializer::add")]
    rest = [(bi, t) for bi, n, t in bc.calls() if U.flat(n).endswith("Serializer::restore")]
    rej = _rejected_returns(bc)
    ok = len(adds) == 1 and len(rest) == 1
    if ok:
        after_add = [r for r in rej if bc.dominates(adds[0][0], r)]
        p = bc.witness_path(U.call_succ(bc, adds[0][0]), after_add, [U.call_succ(bc, rest[0][0])]) if after_add else None
        st = strip_all(bc.operand_term(rest[0][1]["args"][1]))
        same_state = U.has_call(st, "Serializer::add") and any(isinstance(x, tuple) and x and x[0] == "f" and x[2] == "1" for x in subterms(st))
        ok = bool(after_add) and p is None and same_state
    ctx.ob(R, "compressed:restore-on-reject", ok,
           "after the batch was added to the serializer, every `(false, _)` return passes ser.restore(state of that add)", where=bc.fn.sp)
    # interned
    cps = [(bi, t) for bi, n, t in bi_.calls() if U.flat(n).endswith("Allocator::checkpoint")]
    rcs = [(bi, t) for bi, n, t in bi_.calls() if U.flat(n).endswith("Allocator::restore_checkpoint")]
    rej = _rejected_returns(bi_)
    ok = len(cps) == 1 and len(rcs) == 1
    if ok:
        after = [r for r in rej if bi_.dominates(cps[0][0], r)]
        p = bi_.witness_path(U.call_succ(bi_, cps[0][0]), after, [U.call_succ(bi_, rcs[0][0])]) if after else None
        cp = strip_all(bi_.operand_term(rcs[0][1]["args"][1]))
        ok = bool(after) and p is None and U.has_call(cp, "Allocator::checkpoint")
    ctx.ob(R, "interned:restore-on-reject", ok,
           "after the checkpoint was taken, every `(false, _)` return passes restore_checkpoint(that checkpoint)", where=bi_.fn.sp)


def c10_2(ctx, bc, bi_):
    R = "C10.2"
    for nm, b, allowed_rej, committed in (
            ("compressed", bc, {"num_skipped", "byte_cost", "ser", "allocator"}, {"block_cost", "signature"}),
            ("interned", bi_, {"num_skipped", "allocator"}, {"block_cost", "signature", "spend_list", "byte_cost"})):
        try:
            ps = P.enumerate_paths(b, want_assign=True, max_paths=20000)
        except P.Budget:
            ctx.missing(R, nm, "path budget exceeded")
            continue
        bad = []
        n = {"added": 0, "rejected": 0, "Err": 0}
        for ev, ex in ps:
            if ex[0] != "return":
                continue
            k = ret_kind(ev)
            if k not in n:
                bad.append("unclassified return")
                continue
            n[k] += 1
            w = self_writes(ev)
            fields = {f for _, f, _ in w}
            if k == "added":
                if not committed <= fields:
                    bad.append("accepted path does not commit %s" % sorted(committed - fields))
                # commits happen after the last fallible call
                last_try = max([i for i, e in enumerate(ev) if e[0] == "cond" and e[2][0] == "try"] or [-1])
                first_commit = min([i for i, e in enumerate(ev) if e[0] == "assign" and _self_field(strip_all(e[2])) in ("block_cost", "spend_list")] or [10 ** 9])
                if first_commit < last_try:
                    bad.append("a committed field is written before the last fallible call")
            elif k == "rejected":
                extra = fields - allowed_rej
                if extra:
                    bad.append("rejecting path writes %s" % sorted(extra))
            else:
                extra = fields & committed
                if extra:
                    bad.append("error path writes committed field(s) %s" % sorted(extra))
        ctx.ob(R, "all-or-nothing:" + nm, not bad and n["added"] >= 1 and n["rejected"] >= 2,
               "%s builder: %d accepting / %d rejecting / %d error paths — committed state changes only on acceptance" % (
                   nm, n["added"], n["rejected"], n["Err"]), found=sorted(set(bad))[:4] or None, where=b.fn.sp)
        ctx.sample({"rule": R, "builder": nm, "paths": n})


def c10_3(ctx, bc, bi_):
    R = "C10.3"
    for nm, b, wrapper in (("compressed", bc, False), ("interned", bi_, True)):
        aggs = [(bi, t) for bi, n, t in b.calls() if n.endswith("Signature::aggregate")]
        into_self = [(bi, t) for bi, t in aggs if _self_field(strip_all(b.operand_term(t["args"][0]))) == "signature"
                     or "signature" in show(b.operand_term(t["args"][0]))[:40] and "self" in show(b.operand_term(t["args"][0]))[:40]]
        cum = b.local_named("cumulative_signature")
        ok = False
        if cum and len(aggs) == 2:
            hist = b.mut_history(cum[0])
            per_bundle = [a for _, n_, a, _ in hist if n_.endswith("Signature::aggregate")]
            ok = len(per_bundle) == 1 and U.has_field(per_bundle[0][1], "aggregated_signature")
            # self.signature.aggregate(&cumulative_signature)
            other = [t for bi, t in aggs if not U.has_field(b.operand_term(t["args"][1]), "aggregated_signature")]
            ok = ok and len(other) == 1 and (strip_all(b.local_term(cum[0])) in list(subterms(strip_all(b.operand_term(other[0]["args"][1])))) or
                                             "Default" in show(b.operand_term(other[0]["args"][1])))
        ctx.ob(R, "signature:" + nm, ok, "self.signature absorbs exactly the aggregate of the batch's bundle signatures")
        # block_cost += cost
        bcs = []
        for bi, blk in enumerate(b.blocks):
            if bi not in b.reach:
                continue
            for s in blk["s"]:
                if s["k"] == "assign" and s["pl"].get("p") and isinstance(s["pl"]["p"][-1], dict) and s["pl"]["p"][-1].get("n") == "block_cost":
                    bcs.append(apnf.N(b.rvalue_term(s["rv"])))
        ok = len(bcs) == 1 and bcs[0] == (".0", ("AddWithOverflow", (".block_cost", "self"), "cost"))
        ctx.ob(R, "block_cost:" + nm, ok, "block_cost += the declared cost of the batch", found=[str(x) for x in bcs])
        # acceptance guard after the size is known
        guards = []
        for node in b.edge_info:
            sb = b.edge_info[node][0]
            if sb not in b.reach:
                continue
            t, lab = b.edge_condition(node)
            t = strip_all(t)
            if t[0] == "bin" and t[1] == "Gt" and lab == ("bool", True) and "max_block_cost" in show(t[3]):
                s = show(t[2])
                guards.append((sb, s))
        anchor = [bi for bi, n, t in b.calls() if U.flat(n).endswith("Serializer::size") or U.flat(n).endswith("Allocator::checkpoint")]
        final = [g for g in guards if anchor and b.dominates(min(anchor, key=lambda x: len(b.dominators().get(x) or ())), g[0])
                 and "MIN_COST_THRESHOLD" not in g[1]]
        # in the compressed builder byte_cost was just recomputed from the serializer size
        if not wrapper:
            stores = [show(strip_all(b.rvalue_term(st["rv"]))) for bi, blk in enumerate(b.blocks) if bi in b.reach for st in blk["s"]
                      if st["k"] == "assign" and st["pl"].get("p") and isinstance(st["pl"]["p"][-1], dict) and st["pl"]["p"][-1].get("n") == "byte_cost"]
            if not (stores and all("Serializer::size" in x and "cost_per_byte" in x for x in stores)):
                final = []
        ok = bool(final) and all("block_cost" in g[1] and "cost" in g[1] for g in final)
        if wrapper:
            ok = ok and all("WRAPPER_VBYTES" in g[1] or "11" in g[1] for g in final)
        ctx.ob(R, "guard:" + nm, ok,
               "the batch is rejected iff new byte cost%s + block_cost + cost > max block cost (strict >)" % (" + wrapper" if wrapper else ""),
               found=[g[1][:200] for g in guards][:4])


def c10_derived(ctx):
    """compressed builder: byte_cost is a function of the serializer state — (ser.size() + 2) * cost_per_byte. After every call that
    changes the serializer (add, restore) it is recomputed before the function returns, so a rejected attempt leaves no trace in the
    state later decisions read"""
    R = "C10.2"
    f = _find(ctx.fb, CB + "::add_spend_bundles")
    if not f:
        return ctx.missing(R, "derived-byte-cost", "add_spend_bundles not found")
    b = Body(f, ctx.fb)
    recompute = set()
    for bi, blk in enumerate(b.blocks):
        if bi not in b.reach:
            continue
        for st in blk["s"]:
            if st["k"] == "assign" and st["pl"].get("p") and isinstance(st["pl"]["p"][-1], dict) and st["pl"]["p"][-1].get("n") == "byte_cost":
                v = show(strip_all(b.rvalue_term(st["rv"])))
                if "Serializer::size" in v and "cost_per_byte" in v:
                    recompute.add(bi)
    muts = [(bi, U.flat(n).split("::")[-1]) for bi, n, t in b.calls() if U.flat(n).endswith(("Serializer::add", "Serializer::restore"))]
    exits = [e for e in b.return_blocks() if e in b.reach]
    # `?` exits after a failed add leave the builder unusable (the caller gets Err): only value returns are required
    err = set(b.err_exits())
    bad = []
    for bi, nm in muts:
        nxt = b.blocks[bi]["t"].get("t")
        if nxt is None:
            continue
        if nxt in recompute:
            continue
        # any Ok((..)) return reachable without a recomputation?
        for e in b.ok_exits():
            if b.reachable_avoiding(nxt, [e], recompute):
                bad.append("%s at %s reaches a return without recomputing byte_cost" % (nm, b.where(bi)))
                break
    ctx.ob(R, "derived-byte-cost", len(muts) >= 2 and bool(recompute) and not bad,
           "byte_cost is recomputed from the serializer size after every Serializer::add / restore before add_spend_bundles returns (%d mutation sites)" % len(muts),
           found=bad or None, where=f.sp)


def c10_4(ctx):
    R = "C10.4"
    fb = ctx.fb
    for nm, path in (("compressed", CB + "::new"), ("interned", IB + "::new_with")):
        f = _find(fb, path)
        if not f:
            ctx.missing(R, "init:" + nm, "constructor not found")
            continue
        b = Body(f, fb)
        ctx.touched(b.path)
        init = None
        for bi, blk in enumerate(b.blocks):
            for s in blk["s"]:
                if s["k"] == "assign" and s["rv"]["k"] == "agg" and (s["rv"].get("adt") or "").endswith(("BlockBuilder", "InternedBlockBuilder")):
                    d = dict(zip(s["rv"]["fields"], [strip_all(b.operand_term(o)) for o in s["rv"]["ops"]]))
                    init = {k: d[k][2] for k in ("block_cost", "byte_cost", "num_skipped") if d.get(k, ("",))[0] == "c"}
        ctx.ob(R, "init:" + nm, init == {"block_cost": 20, "byte_cost": 0, "num_skipped": 0},
               "%s builder starts with block_cost = 20 (execution cost of the outer quote), byte_cost = 0" % nm, found=init)
    w = fb.consts.get(CC + "build_interned_block::WRAPPER_VBYTES")
    # (q . ((x))) skeleton around the spend list x: pairs: (q . _) and (x . nil) = 2; atoms: q (1 byte) and nil (0 bytes) = 2
    # vbytes = atom_bytes + 2*atoms + 3*pairs = 1 + 2*2 + 3*2 = 11
    want = 1 + 2 * 2 + 3 * 2
    ctx.ob(R, "WRAPPER_VBYTES", bool(w) and w.get("value") == want == 11,
           "WRAPPER_VBYTES = vbytes of the (q . (spends)) skeleton = 1 + 2*2 + 3*2 = 11 (recomputed)", found=w.get("value") if w else None)
    cc = fb.consts.get(CC + "build_interned_block::COST_CONS")
    ctx.ob(R, "COST_CONS", bool(cc) and cc.get("value") == 3, "linking a spend into the list costs one pair = 3 vbytes", found=cc.get("value") if cc else None)
    for nm, path, want_terms in (("compressed", CB + "::cost", ("byte_cost", "block_cost")),
                                 ("interned", IB + "::cost", ("byte_cost", "block_cost", "cost_per_byte"))):
        f = _find(fb, path)
        if not f:
            ctx.missing(R, "cost():" + nm, "not found")
            continue
        b = Body(f, fb)
        r = None
        for bi, k, d, rv in b.ret_assignments():
            r = show(strip_all(b.rvalue_term(rv))) if k != "call" else ""
        ctx.ob(R, "cost():" + nm, bool(r) and all(t in r for t in want_terms), "cost() = byte_cost%s + block_cost" % (" + wrapper" if nm == "interned" else ""), found=r)
    # finalize: compressed adds size * cost_per_byte; interned recomputes exact interned cost
    f = _find(fb, CB + "::finalize")
    if f:
        b = Body(f, fb)
        s = " ".join(show(strip_all(b.rvalue_term(st["rv"]))) for bi, blk in enumerate(b.blocks) if bi in b.reach for st in blk["s"]
                     if st["k"] == "assign" and st["pl"].get("p") and isinstance(st["pl"]["p"][-1], dict) and st["pl"]["p"][-1].get("n") == "block_cost")
        ctx.ob(R, "finalize:compressed", "Serializer::size" in s and "cost_per_byte" in s and "block_cost" in s,
               "finalize returns block_cost + ser.size() * cost_per_byte", found=s[:200])
    f = _find(fb, IB + "::finalize")
    if f:
        b = Body(f, fb)
        tc = b.local_named("total_cost")
        s = show(strip_all(b.local_term(tc[0]))) if tc else ""
        ctx.ob(R, "finalize:interned", "interned_vbytes" in s and "cost_per_byte" in s and "block_cost" in s,
               "finalize returns interned_vbytes(root) * cost_per_byte + block_cost (the consensus formula, C04.4)", found=s[:200])


def c10_1b(ctx):
    """The compressed builder's incremental Serializer remembers the NodePtrs it has seen (its back-reference table survives
    Serializer::restore).  Rolling the Allocator back would let later bundles reuse those NodePtr values for different
    trees, which the serializer would then emit as back-references to the *old* content: the generator would no longer
    decode to the accepted spends.  So no method of BlockBuilder may call Allocator::restore_checkpoint; the interned
    builder (which re-interns at finalize) is the only builder allowed to."""
    R = "C10.1"
    fb = ctx.fb
    callers = sorted(p for p, f in fb.fns.items()
                     if any((c.get("res") or c.get("def") or "").endswith("Allocator::restore_checkpoint") for c in f.e.get("calls", [])))
    bad = [p for p in callers if p.startswith(CB + "::") or p.startswith("chia_consensus::build_compressed_block::")]
    ctx.ob(R, "no-allocator-rollback:compressed", not bad,
           "BlockBuilder never rolls the Allocator back while its incremental Serializer is live", found=bad or None)
    ctx.floor(R, "restore_checkpoint callers seen in the workspace (rule is live)", len(callers), 1)


def c10_finalize_limit(ctx):
    """admission rejects a batch iff the resulting cost would be `> max` (C10.3), so a block whose cost lands exactly on the
    limit has been accepted; finalize must emit it.  finalize's own limit test is therefore the same non-strict bound:
    it proceeds iff total <= max (an `>=` / `<` there refuses, or aborts on, an accepted block)."""
    from .. import apnf
    R = "C10.3"
    fb = ctx.fb
    for nm, path in (("compressed", CB + "::finalize"), ("interned", IB + "::finalize")):
        f = _find(fb, path)
        if not f:
            ctx.missing(R, "finalize-limit:" + nm, "finalize not found")
            continue
        b = Body(f, fb)
        ctx.touched(b.path)
        tests = {}
        for node in b.edge_info:
            sb = b.edge_info[node][0]
            if sb not in b.reach:
                continue
            t, lab = b.edge_condition(node)
            nt = apnf.N(t)
            if isinstance(nt, tuple) and len(nt) == 3 and nt[0] in ("Le", "Lt", "Gt", "Ge") and "max_block_cost" in str(nt) and lab[0] == "bool":
                tests.setdefault(sb, {"t": nt})[lab[1]] = b.reachable_avoiding(node, b.ok_exits(), [])
        ok = len(tests) == 1
        detail = None
        if ok:
            (sb, d), = tests.items()
            nt = d["t"]
            detail = {"op": nt[0], "true->ok": d.get(True), "false->ok": d.get(False), "bound-on-the-right": "max_block_cost" in str(nt[2])}
            bound_right = "max_block_cost" in str(nt[2]) and "max_block_cost" not in str(nt[1])
            if nt[0] == "Le":
                ok = bound_right and d.get(True) is True and d.get(False) is False
            elif nt[0] == "Gt":
                ok = bound_right and d.get(False) is True and d.get(True) is False
            else:
                ok = False
        ctx.ob(R, "finalize-limit:" + nm, ok, "%s finalize proceeds iff total cost <= max block cost (non-strict, as admission)" % nm,
               found=detail, where=f.sp)


def c10_estimate_units(ctx):
    """'the running cost estimate never underestimates the final cost' rests on a per-spend upper bound in *virtual bytes*:
    interned size of the spend tuple in isolation plus the 3 vbytes of the cons cell that links it into the list, and only then
    converted to cost by cost_per_byte.  Rule: spend_vbytes = interned_vbytes(intern_tree(tuple)) + COST_CONS with COST_CONS = 3
    (a pair's interned weight, cf. interned_vbytes' weights 2/3), and the accumulator grows by exactly
    spend_vbytes(spend) * cost_per_byte per spend (a vbyte constant added after the multiplication is 12000 times too small)."""
    from .. import apnf
    from .. import paths as P
    R = "C10.4"
    fb = ctx.fb
    cc = fb.consts.get("chia_consensus::build_interned_block::COST_CONS", {}).get("value")
    ctx.ob(R, "interned:COST_CONS", cc == 3, "COST_CONS = 3 vbytes (interned weight of one pair)", found=cc)
    f = fb.fns.get(IB + "::spend_vbytes")
    if f is None:
        ctx.missing(R, "interned:spend_vbytes", "not found")
    else:
        b = Body(f, fb)
        ctx.touched(b.path)
        oks = [str(apnf.N(P.ret_of(ev))) for ev, ex in P.enumerate_paths(b) if ex[0] == "return" and P.ret_class(ev) == "Ok"]
        okv = bool(oks) and all(o.startswith("('Ok', ('.0', ('AddWithOverflow', ('interned_vbytes', ('intern_tree', ") and o.endswith(", 3)))") for o in oks)
        ctx.ob(R, "interned:spend_vbytes", okv, "spend_vbytes = interned_vbytes(intern_tree(spend tuple)) + COST_CONS",
               found=[o[:70] + " ... " + o[-12:] for o in oks][:2])
    fi = _find(fb, IB + "::add_spend_bundles")
    if fi:
        b = Body(fi, fb)
        l = b.local_named("new_byte_cost")
        steps = []
        if l:
            for kind, bi, si, x in b.defs().get(l[0], []):
                if kind == "s" and b.in_cycle(bi):
                    steps.append(str(apnf.N(b.rvalue_term(x["rv"]))))
        want = "('.0', ('AddWithOverflow', 'var:new_byte_cost', ('.0', ('MulWithOverflow', ('InternedBlockBuilder::spend_vbytes', "
        ok = len(steps) == 1 and steps[0].startswith(want) and steps[0].endswith("('.cost_per_byte', 'self')))))")
        ctx.ob(R, "interned:estimate-step", ok, "per spend the byte-cost estimate grows by spend_vbytes(spend) * cost_per_byte, nothing else",
               found=[x[:200] for x in steps], where=fi.sp)


def c10_accumulator(ctx, R="C10.2"):
    """'the finalized generator decodes to exactly the spends of the accepted attempts': within one add attempt every spend of
    every bundle of the batch is prepended to ONE running list -- `spend_list = cons(item, spend_list)` -- that starts from the
    builder's committed list (interned: self.spend_list, compressed: the sentinel the serializer resumes from) and is what gets
    committed (interned: self.spend_list = spend_list; compressed: ser.add(spend_list)).  A per-bundle accumulator restarted from
    the committed list keeps only the last bundle of a multi-bundle batch."""
    from .. import apnf
    fb = ctx.fb
    for nm, path, init, commit in (("compressed", CB + "::add_spend_bundles", "('.sentinel', 'self')", "ser.add"),
                                   ("interned", IB + "::add_spend_bundles", "('.spend_list', 'self')", "field")):
        f = _find(fb, path)
        if not f:
            ctx.missing(R, "accumulator:" + nm, "add_spend_bundles not found")
            continue
        b = Body(f, fb)
        ls = b.local_named("spend_list")
        ok = len(ls) == 1
        detail = None
        if ok:
            defs_ = []
            for d in b.defs().get(ls[0], []):
                t = str(apnf.N(b.rvalue_term(d[3]["rv"]))) if d[0] == "s" else str(apnf.N(b.call_term(d[3])))
                defs_.append((b.in_cycle(d[1]), t))
            inits = [t for cyc, t in defs_ if not cyc]
            steps = [t for cyc, t in defs_ if cyc]
            ok = inits == [init] and len(steps) == 1 and steps[0].startswith("('Allocator::new_pair', ('.allocator', 'self'), ('Allocator::new_pair', ") \
                and steps[0].endswith(", 'var:spend_list')")
            detail = {"init": inits, "step-tail": [x[-30:] for x in steps]}
            # no other accumulator: every in-cycle cons whose tail is not a freshly built item list ends in var:spend_list
            conses = [[str(apnf.N(b.operand_term(a))) for a in t["args"]] for bi, n, t in b.calls() if U.flat(n).endswith("Allocator::new_pair") and b.in_cycle(bi)]
            outer = [c for c in conses if c[1].startswith("('Allocator::new_pair', ('.allocator', 'self'), ('Allocator::new_atom', ")]
            ok = ok and len(outer) == 1 and outer[0][2] == "var:spend_list"
            if commit == "field":
                commits = []
                for bi, blk in enumerate(b.blocks):
                    if bi not in b.reach:
                        continue
                    for st in blk["s"]:
                        if st["k"] == "assign" and st["pl"].get("p") and isinstance(st["pl"]["p"][-1], dict) and st["pl"]["p"][-1].get("n") == "spend_list":
                            commits.append(str(apnf.N(b.rvalue_term(st["rv"]))))
                ok = ok and commits == ["var:spend_list"]
            else:
                adds = [[str(apnf.N(b.operand_term(a))) for a in t["args"]] for bi, n, t in b.calls() if U.flat(n).endswith("Serializer::add")]
                ok = ok and len(adds) == 1 and adds[0][2] == "var:spend_list"
        ctx.ob(R, "accumulator:" + nm, ok, "%s builder: one running list per attempt, `spend_list = cons(item, spend_list)` from the committed list, committed as a whole" % nm,
               found=detail, where=f.sp)
