"""C01.7 / C19.3 — mempool-visitor flag bookkeeping against spec/mempool_flags.json."""
import json
import os

from .. import apnf
from .. import facts as F
from .. import paths as P
from ..mir import Body, strip_all, show, subterms
from . import util as U
from . import regions as RG

MV = "<chia_consensus::conditions::MempoolVisitor as chia_consensus::spend_visitor::SpendVisitor>::"
PARENT_BIT = 4     # messages::PARENT


def load():
    with open(os.path.join(F.VERIF, "spec", "mempool_flags.json")) as f:
        return json.load(f)


def extract_condition_table(fb):
    """{variant: {frozenset(extra facts): frozenset(cleared flag bits)}} from MempoolVisitor::condition"""
    f = fb.fns.get(MV + "condition")
    if not f:
        return None, None
    b = Body(f, fb)
    table = {}
    counter_ok = True
    for ev, ex in P.enumerate_paths(b, want_assign=True):
        facts_ = [apnf.fact(t, l) for t, l in P.conds(ev)]
        variants = None
        extra = []
        for t, v in facts_:
            if t == "c" and isinstance(v, str):
                variants = v.split("|")
            else:
                extra.append((t, v))
        cleared = set()
        bumps = 0
        for e in ev:
            x = RG.effect_of(e)
            if not x or x[0] != "set":
                continue
            if x[1] == (".flags", "spend"):
                val = x[2]
                if isinstance(val, tuple) and val[0] == "BitAnd" and val[1] == (".flags", "spend") and isinstance(val[2], tuple) and val[2][0] == "Not":
                    cleared.add(val[2][1])
                else:
                    cleared.add("?" + str(val)[:60])
            elif x[1] == (".condition_counter", "self"):
                bumps += 1
        if bumps != 1:
            counter_ok = False
        for v in variants or ["?"]:
            table.setdefault(v, {})[frozenset(extra)] = frozenset(cleared)
    return table, counter_ok


def run(ctx, rule="C01.7"):
    R = rule
    fb = ctx.fb
    spec = load()
    FF, DD = spec["flags"]["ELIGIBLE_FOR_FF"], spec["flags"]["ELIGIBLE_FOR_DEDUP"]
    for k, v in spec["flags"].items():
        c = fb.consts.get("chia_consensus::conditions::" + k, {}).get("value")
        ctx.ob(R, "flag-const:" + k, c == v, "%s == %d" % (k, v), found=c)
    table, counter_ok = extract_condition_table(fb)
    if table is None:
        return ctx.missing(R, "MempoolVisitor::condition", "not found")
    ctx.touched(MV + "condition")
    adt = fb.adts.get("chia_consensus::conditions::Condition")
    all_variants = [v["name"] for v in adt["variants"]] if adt else []
    ctx.ob(R, "all-variants-routed", set(table) == set(all_variants), "every Condition variant is routed through the visitor's match",
           found=sorted(set(table) ^ set(all_variants)))
    ctx.ob(R, "condition-counter", counter_ok, "condition_counter is incremented exactly once per condition on every path")
    n = 0
    cond_ff = spec["clears_ff_conditionally"]
    for v in all_variants:
        rows = table.get(v, {})
        want_unconditional = frozenset(([FF] if v in spec["clears_ff"] else []) + ([DD] if v in spec["clears_dedup"] else []))
        n += 1
        if v in cond_ff:
            # two rows: condition true => also FF
            ok = len(rows) == 2
            got = {}
            for extra, cleared in rows.items():
                (t, val), = list(extra) if len(extra) == 1 else [(None, None)]
                got[str(t)[:80] + "=" + str(val)] = sorted(cleared)
                if v == "AssertMyParentId":
                    role_ok = t == ("Ne", (".condition_counter", "self"), 1)
                else:
                    idx = ".0" if v == "SendMessage" else ".1"
                    role_ok = isinstance(t, tuple) and t[0] == "Ne" and t[2] == 0 and isinstance(t[1], tuple) and t[1][0].lower() == "bitand" \
                        and t[1][2] == PARENT_BIT and t[1][1] == (idx, ("as:" + v, "c"))
                want = set(want_unconditional) | ({FF} if val is True else set())
                ok = ok and role_ok and set(cleared) == want
            ctx.ob(R, "flags:" + v, ok, "%s clears FF %s; DEDUP %s" % (v, cond_ff[v], "always" if v in spec["clears_dedup"] else "never"), found=got)
        else:
            ok = len(rows) == 1 and list(rows.keys()) == [frozenset()] and list(rows.values()) == [want_unconditional]
            ctx.ob(R, "flags:" + v, ok, "%s clears exactly %s" % (v, sorted(want_unconditional) or "nothing"),
                   found={str(sorted(map(str, k))): sorted(c) for k, c in rows.items()})
    ctx.floor(R, "condition variants in the mempool flag table", n, 36)
    ctx.sample({"rule": R, "AssertMyParentId": {str(sorted(map(str, k))): sorted(v) for k, v in table.get("AssertMyParentId", {}).items()}})
    # PARENT bit of message modes
    pb = fb.consts.get("chia_consensus::messages::PARENT", {}).get("value")
    ctx.ob(R, "messages::PARENT", pb == PARENT_BIT, "messages::PARENT == 0b100", found=pb)
    # new_spend: DEDUP always, FF iff amount odd
    f = fb.fns.get(MV + "new_spend")
    if f:
        b = Body(f, fb)
        rows = set()
        for ev, ex in P.enumerate_paths(b, want_assign=True):
            facts_ = frozenset(apnf.fact(t, l) for t, l in P.conds(ev))
            sets = [RG.effect_of(e) for e in ev if RG.effect_of(e) and RG.effect_of(e)[1] == (".flags", "spend")]
            rows.add((facts_, str(sets[-1][2]) if sets else None))
        odd = ("Eq", ("BitAnd", (".coin_amount", "spend"), 1), 1)
        exp = {(frozenset({(odd, True)}), str(("BitOr", (".flags", "spend"), 1 | 4))),
               (frozenset({(odd, False)}), str(("BitOr", (".flags", "spend"), 1)))}
        ok = rows == exp or _new_spend_ok(rows, odd)
        ctx.ob(R, "new_spend", ok, "a new spend starts DEDUP-eligible, and FF-eligible iff its amount is odd", found=[str(x)[:200] for x in rows])
    # post_spend: FF needs an output (own puzzle hash, own amount); DEDUP needs amount <= sum(outputs)
    f = fb.fns.get(MV + "post_spend")
    if f:
        b = Body(f, fb)
        cl = fb.closures_of(f.path)
        match_ok = False
        for c in cl:
            cb = Body(c, fb)
            captured = {d["name"] for d in c.body.get("dbg", []) if d["pl"].get("p")}
            fields = set()
            ops = set()
            for bi, blk in enumerate(cb.blocks):
                if bi not in cb.reach:
                    continue
                for st in blk["s"]:
                    if st["k"] == "assign":
                        for x in subterms(cb.rvalue_term(st["rv"])):
                            if isinstance(x, tuple) and x and x[0] == "f" and x[2] in ("puzzle_hash", "amount"):
                                fields.add(x[2])
                            if isinstance(x, tuple) and x and x[0] == "bin":
                                ops.add(x[1])
                if blk["t"]["k"] == "call":
                    nm = U.flat(mir_callee(blk["t"]))
                    if nm.endswith("::eq"):
                        ops.add("eq")
            if {"spend__coin_amount", "spend__puzzle_hash"} <= captured and fields == {"puzzle_hash", "amount"} and {"Eq", "eq"} <= ops:
                match_ok = True
        sums = [c for c in cl if any("as u128" in show(strip_all(Body(c, fb).rvalue_term(st["rv"]))) for bi, blk in enumerate(Body(c, fb).blocks) for st in blk["s"] if st["k"] == "assign")]

        def excess(t, lab):
            t2 = strip_all(t)
            return t2[0] == "bin" and t2[1] == "Gt" and U.has_field(t2[2], "coin_amount") and "u128" in str(t2[2]) and lab == ("bool", True)
        ex_edges = U.edges_where(b, excess)
        ctx.ob(R, "post_spend", match_ok and len(sums) >= 1 and len(ex_edges) == 1,
               "post_spend: FF needs an output with own puzzle hash and amount; DEDUP is cleared iff coin_amount as u128 > sum of outputs (strict)",
               found={"output-match": match_ok, "sum-closure": len(sums), "excess-guard": len(ex_edges)})
    # post_process: FF cleared for ASSERT_CONCURRENT_SPEND targets and for spends with an ephemeral child
    f = fb.fns.get(MV + "post_process")
    if f:
        b = Body(f, fb)
        coins = []
        for bi, blk in enumerate(b.blocks):
            for s in blk["s"]:
                if s["k"] == "assign" and s["rv"]["k"] == "agg" and s["rv"].get("adt") == "chia_protocol::coin::Coin":
                    coins.append(dict(zip(s["rv"]["fields"], [show(strip_all(b.operand_term(o))) for o in s["rv"]["ops"]])))
        ok = len(coins) == 1 and "coin_id" in coins[0]["parent_coin_info"] and "puzzle_hash" in coins[0]["puzzle_hash"] and "amount" in coins[0]["amount"]
        names = [U.flat(n) for _, n, _ in b.calls()]
        ok = ok and any(n.endswith("HashMap::contains_key") for n in names) and any(n.endswith("HashMap::get") for n in names) and \
            any(n.endswith("Coin::coin_id") for n in names)
        ctx.ob(R, "post_process", ok,
               "post_process clears FF for ASSERT_CONCURRENT_SPEND targets and for spends whose child Coin(own id, ph, amount) is spent in the bundle",
               found=coins)
        # ANY output spent in the same bundle commits to the spend's coin id: the child examined is built from every element of
        # s.create_coin (not only the singleton successor), each looked up in spent_coins
        from .. import apnf as _ap
        exact = []
        for bi, blk in enumerate(b.blocks):
            for st in blk["s"]:
                if st["k"] == "assign" and st["rv"]["k"] == "agg" and st["rv"].get("adt") == "chia_protocol::coin::Coin":
                    exact.append((bi, dict(zip(st["rv"]["fields"], [str(_ap.N(strip_all(b.operand_term(o)))) for o in st["rv"]["ops"]]))))
        sp_ = "('next', ('.spends', 'bundle'))"
        cc_ = "('next', ('.create_coin', %s))" % sp_
        ok2 = len(exact) == 1 and exact[0][1] == {"parent_coin_info": "('.coin_id', %s)" % sp_, "puzzle_hash": "('.puzzle_hash', %s)" % cc_,
                                                  "amount": "('.amount', %s)" % cc_} and b.in_cycle(exact[0][0])
        ctx.ob(R, "post_process:every-output", ok2,
               "the ephemeral-output test of post_process builds Coin(spend.coin_id, cc.puzzle_hash, cc.amount) for each cc in spend.create_coin",
               found=[e[1] for e in exact])
        cks = [bi for bi, n, t in b.calls() if U.flat(n).endswith("HashMap::contains_key") and b.in_cycle(bi)]
        ctx.ob(R, "post_process:lookup-per-output", ok2 and len(cks) == 1 and b.dominates(exact[0][0], cks[0]),
               "each child coin id is looked up in spent_coins inside the loop over the outputs")
    # hooks are invoked: new_spend before parse_conditions; condition once per parsed condition; post_spend after the loop
    pc = RG.parse_conditions_body(fb)
    if pc is not None:
        cond = [bi for bi, n, t in pc.calls() if "SpendVisitor" in n and n.endswith("::condition")]
        pa = [bi for bi, n, t in pc.calls() if n.endswith("conditions::parse_args")]
        ps = [bi for bi, n, t in pc.calls() if "SpendVisitor" in n and n.endswith("::post_spend")]
        sw, heads = RG.locate(pc)
        ok = len(cond) == 1 and len(pa) == 1 and pc.dominates(pa[0], cond[0]) and sw is not None and pc.dominates(cond[0], sw) and \
            len(ps) == 1 and not pc.in_cycle(ps[0])
        if ok:
            a = [strip_all(pc.operand_term(x)) for x in pc.blocks[cond[0]]["t"]["args"]]
            ok = "parse_args" in str(a[-1])
        ctx.ob(R, "hooks", ok, "visitor.condition sees every parsed condition (after parse_args, before its effect); post_spend runs once after the loop")


def mir_callee(t):
    from ..mir import callee_name
    return callee_name(t["f"])


def _new_spend_ok(rows, odd):
    """accept equivalent shapes: the flag word or-ed into spend.flags is 1 (DEDUP) or 1|4 depending on the parity test"""
    if len(rows) != 2:
        return False
    seen = {}
    for facts_, val in rows:
        par = [v for t, v in facts_ if t == odd]
        if len(par) != 1 or val is None:
            return False
        seen[par[0]] = val
    return ("4" in seen.get(True, "") and "4" not in seen.get(False, "X4")) and "1" in seen.get(False, "")
