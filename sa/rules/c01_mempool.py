"""C01.7 mempool-visitor flags (placeholder, filled below)."""


def run(ctx):
    pass
