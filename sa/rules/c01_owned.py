"""C01.8 — the owned summary reports each accumulated value under its own name.

OwnedSpendConditions::from / OwnedSpendBundleConditions::from copy ~40 fields, many of the same type (six Option<u32/u64>
time locks, seven agg-sig vectors, three u64 costs): a swap compiles and changes what every consumer (mempool, wallet,
check_time_locks) sees.  Rule: on every path the value stored in field `f` of the owned struct is derived from field `f`
of the source and from no other source field; the enumerated exceptions are the loops (create_coin, spends,
agg_sig_unsafe), the dedup-gated fingerprint and the three allocator counters."""
from .. import apnf
from .. import paths as P
from ..mir import Body, subterms
from . import util as U

OC = "chia_consensus::owned_conditions::"


def _src_fields(t, src):
    return {x[0][1:] for x in subterms(t) if isinstance(x, tuple) and len(x) == 2 and isinstance(x[0], str) and x[0].startswith(".") and x[1] == src
            and not x[0][1:].isdigit()}


def run(ctx, R="C01.8"):
    fb = ctx.fb
    for ty, src, special in (
            ("OwnedSpendConditions", "spend", {"create_coin": "loop", "fingerprint": "gated"}),
            ("OwnedSpendBundleConditions", "sb", {"spends": "loop", "agg_sig_unsafe": "loop", "num_atoms": "Allocator::atom_count",
                                                   "num_pairs": "Allocator::pair_count", "heap_size": "Allocator::allocated_heap_size"})):
        b = U.body(ctx, R, OC + ty + "::from")
        adt = fb.adts.get(OC + ty)
        if not b or not adt:
            continue
        fields = [f["name"] for f in adt["variants"][0]["fields"]]
        bad = []
        n = 0
        for ev, ex in P.enumerate_paths(b):
            if ex[0] != "return":
                continue
            r = apnf.N(P.ret_of(ev))
            if not (isinstance(r, tuple) and r[0].startswith(ty) and len(r) == len(fields) + 1):
                bad.append("result is not %s{..}: %s" % (ty, str(r)[:80]))
                continue
            n += 1
            facts_ = [apnf.fact(t, l) for t, l in P.conds(ev)]
            for f, v in zip(fields, r[1:]):
                used = _src_fields(v, src)
                sp = special.get(f)
                if sp is None or sp == "loop":
                    if not used <= {f} or (sp is None and used != {f}):
                        bad.append("%s.%s is built from %s.%s" % (ty, f, src, sorted(used)))
                    if sp is None and any(isinstance(x, tuple) and x and str(x[0]).startswith("as ") for x in subterms(v)):
                        bad.append("%s.%s is cast" % (ty, f))
                elif sp == "gated":
                    gate = [val for t, val in facts_ if t == ("Ne", ("BitAnd", (".flags", src), 1), 0)]
                    want = {f} if gate == [True] else set()
                    if used != want or len(gate) != 1:
                        bad.append("%s.%s: dedup gate %s, built from %s" % (ty, f, gate, sorted(used)))
                else:
                    if not (used == set() and sp in str(v)):
                        bad.append("%s.%s should be %s, is %s" % (ty, f, sp, str(v)[:80]))
        # the list-valued fields are produced by walking the *whole* source collection: the element source of every loop is
        # next(into_iter(src.field)) with no adaptor in between (take / skip / filter / step_by would drop elements while the
        # totals still cover them)
        its = set()
        for ev, ex in P.enumerate_paths(b):
            if ex[0] != "return":
                continue
            for x in subterms(apnf.N(P.ret_of(ev))):
                if isinstance(x, tuple) and x and x[0] == "next":
                    its.add(str(x))
        loops = sorted(f for f, sp in special.items() if sp == "loop")
        want_its = {str(("next", ("into_iter", ("." + f, src)))) for f in loops}
        ctx.ob(R, "whole-collection:" + ty, its == want_its,
               "%s walks %s completely (element source = next(into_iter(field)), no adaptor)" % (ty, ", ".join(loops)),
               found=sorted(its ^ want_its)[:3] or None, where=b.fn.sp)
        ctx.ob(R, "fields:" + ty, not bad and n >= 2, "every field of %s is derived from the same-named source field on all %d paths" % (ty, n),
               found=sorted(set(bad))[:5], where=b.fn.sp)
    # element conversions keep position and pairing
    b = U.body(ctx, R, OC + "convert_agg_sigs")
    if b:
        rows = set()
        for ev, ex in P.enumerate_paths(b):
            if ex[0] == "return":
                rows.add(str(apnf.N(P.ret_of(ev))))
        it = ("next", ("into_iter", "agg_sigs"))
        want = {str(("Vec::new",)), str(("after", ("Vec::push", ("Vec::new",), ("tuple", (".0", it), ("Allocator::atom", (".1", it))))))}
        ctx.ob(R, "convert_agg_sigs", rows == want, "convert_agg_sigs maps (pk, msg-node) -> (pk, atom(msg)) in order", found=sorted(rows ^ want)[:3])
    b = U.body(ctx, R, OC + "OwnedSpendConditions::from")
    if b:
        pushes = set()
        for ev, ex in P.enumerate_paths(b):
            if ex[0] != "return":
                continue
            facts_ = {str(t): v for t, v in (apnf.fact(t, l) for t, l in P.conds(ev))}
            r = apnf.N(P.ret_of(ev))
            for x in subterms(r):
                if isinstance(x, tuple) and x and x[0] == "Vec::push" and isinstance(x[-1], tuple) and x[-1][0] == "tuple":
                    nil = [v for k, v in facts_.items() if "Allocator::nil" in k and ".hint" in k]
                    pushes.add((str(x[-1][1])[:40], str(x[-1][2])[:30], str(x[-1][3])[:24], tuple(nil)))
        it = ("next", ("into_iter", (".create_coin", "spend")))
        want = {(str((".puzzle_hash", it))[:40], str((".amount", it))[:30], str(("Some", ("Allocator::atom", (".hint", it))))[:24], (False,)),
                (str((".puzzle_hash", it))[:40], str((".amount", it))[:30], str(("None",))[:24], (True,))}
        ctx.ob(R, "create_coin", pushes == want, "each created coin is reported as (puzzle_hash, amount, hint) with nil hint => None", found=sorted(map(str, pushes ^ want))[:4])
