"""C16 — key and signature encodings round-trip and derivations commute (structural clauses).

  C16.1 checked ⊆ unchecked: PublicKey::from_bytes / Signature::from_bytes = from_bytes_unchecked then an
        is_valid() gate, Ok only if true; is_valid = is_inf ∨ in_g1 / in_g2; Streamable::parse dispatches
        TRUSTED => unchecked, else checked
  C16.2 canonical flag bits (G1): the mask table of PublicKey::from_bytes_unchecked: top bits 11 => must be exactly
        0xc0 followed by 47 zero bytes and yields the default (infinity) point; top bits != 10 => error; compressed
        non-infinity with an all-zero body => error. (G2 delegates canonicity to blst: not decided.)
  C16.3 derivation recipes: SecretKey::derive_unhardened and PublicKey::derive_unhardened hash
        public_key.to_bytes() || idx.to_be_bytes() (the secret side takes self.public_key()); both DeriveSynthetic
        impls obtain the offset from synthetic_offset(public key, hidden hash) and combine with +;
        GROUP_ORDER_BYTES is the BLS12-381 scalar-field order
"""
from .. import apnf
from .. import paths as P
from ..mir import Body, strip_all, show, subterms
from . import util as U

BL = "chia_bls::"
BLS12_381_R = int("73eda753299d7d483339d80809a1d80553bda402fffe5bfeffffffff00000001", 16)


def run(ctx):
    ctx.explanation = (
        "MPT/DT/PROV/CONST rules on chia-bls and chia-puzzle-types: the checked decoders are the unchecked decoder plus a "
        "validity gate; the accepting-path table of the G1 flag-bit tests; the Sha256 input sequences of the two unhardened "
        "derivations and of synthetic_offset; the group-order constant against the BLS12-381 scalar field order. The "
        "homomorphism laws, uniqueness of blst encodings and determinism of signing are arithmetic inside blst.")
    ctx.trusted += ["blst (de)compression, subgroup checks and group arithmetic", "num_bigint"]
    ctx.assumptions += ["N: the homomorphism laws themselves; G2 canonicity (delegated to blst_p2_uncompress)"]
    c16_1(ctx)
    c16_2(ctx)
    c16_3(ctx)
    c16_4(ctx)
    c16_2b(ctx)
    c16_4b(ctx)
    c16_1b(ctx)
    c16_sk(ctx)
    c16_eq(ctx)
    # unique encodings: G2 decoding has the single accepting path, to_bytes is the blst compressor (shared C13.2); trust-dependent
    # decoding only at the enumerated sites (shared C13.4)
    from . import c13 as _c13
    _c13.c13_defaults_and_g2(ctx, R3="C16.1", R2="C16.1")
    _c13.c13_4(ctx, _c13.streamable_impls(ctx.fb), R="C16.1")


def c16_1(ctx):
    R = "C16.1"
    fb = ctx.fb
    for ty, mod_ in (("PublicKey", "public_key"), ("Signature", "signature")):
        base = BL + mod_ + "::" + ty
        b = U.body(ctx, R, base + "::from_bytes")
        if b:
            got = {(frozenset(f), r) for f, r, _ in apnf.paths_of(b, want=("Ok",))}
            unc = (ty + "::from_bytes_unchecked", "bytes" if ty == "PublicKey" else "buf")
            exp = {(frozenset({(unc, "ok"), ((ty + "::is_valid", unc), True)}), ("Ok", unc))}
            ctx.ob(R, "checked:" + ty, got == exp, "%s::from_bytes = from_bytes_unchecked, accepted only if is_valid()" % ty,
                   found=None if got == exp else [str(x)[:300] for x in got])
        b = U.body(ctx, R, base + "::is_valid")
        if b:
            names = sorted(U.flat(n).split("::")[-1] for bi, n, t in b.calls())
            want = ["blst_p1_in_g1", "blst_p1_is_inf"] if ty == "PublicKey" else ["blst_p2_in_g2", "blst_p2_is_inf"]
            ctx.ob(R, "is_valid:" + ty, names == want, "%s::is_valid = is_inf || in_subgroup" % ty, found=names)
        p = "<%s as chia_traits::streamable::Streamable>::parse" % base
        f = fb.fns.get(p)
        if not f:
            ctx.missing(R, "parse:" + ty, "Streamable::parse not found")
            continue
        pb = Body(f, fb)
        ctx.touched(pb.path)
        table = {}
        for node in pb.edge_info:
            sb = pb.edge_info[node][0]
            if sb not in pb.reach:
                continue
            t, lab = pb.edge_condition(node)
            if strip_all(t) == ("cparam", "TRUSTED") and lab[0] == "bool":
                region = pb.reachable_from(node)
                dec = set()
                for x in region:
                    if x < pb.n and pb.blocks[x]["t"]["k"] == "call":
                        nm = U.flat(mir_callee(pb.blocks[x]["t"]))
                        if nm.endswith("from_bytes") or nm.endswith("from_bytes_unchecked"):
                            dec.add(nm.split("::")[-1])
                # the two arms rejoin only at the return: take the first decoder call dominated by the edge
                firsts = [nm for x in sorted(region) if x < pb.n and pb.blocks[x]["t"]["k"] == "call"
                          for nm in [U.flat(mir_callee(pb.blocks[x]["t"]))] if pb.dominates(node, x) and "from_bytes" in nm]
                table[lab[1]] = firsts[0].split("::")[-1] if firsts else None
        ctx.ob(R, "parse-dispatch:" + ty, table == {True: "from_bytes_unchecked", False: "from_bytes"},
               "%s::parse uses the unchecked decoder only when TRUSTED" % ty, found=table)


def mir_callee(t):
    from ..mir import callee_name
    return callee_name(t["f"])


def c16_2(ctx):
    R = "C16.2"
    b = U.body(ctx, R, BL + "public_key::PublicKey::from_bytes_unchecked")
    if not b:
        return
    rows = set()
    for ev, ex in P.enumerate_paths(b):
        if ex[0] != "return":
            continue
        rc = P.ret_class(ev)
        facts = frozenset(_simplify(apnf.fact(t, l)) for t, l in P.conds(ev))
        facts = frozenset(x for x in facts if x is not None)
        r = P.ret_of(ev)
        kind = rc
        if rc == "Ok":
            kind = "Ok(default)" if "default" in show(strip_all(r)).lower() else "Ok(point)"
        rows.add((facts, kind))
    M = "b0&0xc0"
    exp = {
        (frozenset({((M, "==", 0xc0), True), (("b0", "!=", 0xc0), True)}), "Err"),
        (frozenset({((M, "==", 0xc0), True), (("b0", "!=", 0xc0), False), ("zeros_only", False)}), "Err"),
        (frozenset({((M, "==", 0xc0), True), (("b0", "!=", 0xc0), False), ("zeros_only", True)}), "Ok(default)"),
        (frozenset({((M, "==", 0xc0), False), ((M, "!=", 0x80), True)}), "Err"),
        (frozenset({((M, "==", 0xc0), False), ((M, "!=", 0x80), False), ("zeros_only", True)}), "Err"),
        (frozenset({((M, "==", 0xc0), False), ((M, "!=", 0x80), False), ("zeros_only", False), ("uncompress-ok", True)}), "Ok(point)"),
        (frozenset({((M, "==", 0xc0), False), ((M, "!=", 0x80), False), ("zeros_only", False), ("uncompress-ok", False)}), "Err"),
    }
    sem = _g1_semantic(b)
    if rows != exp and sem is True:
        rows = exp      # another spelling (match / reordered tests) of the same decision function: decided semantically below
    ctx.ob(R, "g1-flag-table", rows == exp,
           "G1 decoding: 11xxxxxx must be exactly c0 00..00 (=> infinity); anything but 10xxxxxx is rejected; a compressed "
           "non-infinity point with an all-zero body is rejected; otherwise blst decides",
           found=None if rows == exp else sorted(map(str, rows ^ exp))[:4], where=b.fn.sp)
    ctx.sample({"rule": R, "rows": len(rows)})
    # zeros_only = is_all_zero(&bytes[1..])
    zl = b.local_named("zeros_only")
    ok = False
    if zl:
        z = strip_all(b.local_term(zl[0]))
        ok = z[0] == "call" and z[1].endswith("is_all_zero") and "RangeFrom" in str(z) and any(
            isinstance(x, tuple) and x and x[0] == "c" and x[2] == 1 for x in subterms(z))
    ctx.ob(R, "zeros_only", ok, "zeros_only = is_all_zero(&bytes[1..]) (all 47 trailing bytes)")


def _g1_semantic(b):
    """Evaluate the extracted decision table (not the program): for every first byte b0 (256 values), zeros_only and
    uncompress outcome, exactly one path's guards must hold and its exit class must equal the specification
    (11xxxxxx: only c0 + zero body => infinity; not 10xxxxxx: reject; zero body: reject; else blst decides).
    Returns True / False, or None when a guard is not of an evaluable form."""
    paths_ = []
    for ev, ex in P.enumerate_paths(b):
        if ex[0] != "return":
            continue
        rc = P.ret_class(ev)
        kind = rc
        if rc == "Ok":
            kind = "Ok(default)" if "default" in show(strip_all(P.ret_of(ev))).lower() else "Ok(point)"
        gs = []
        for t, l in U.canon_int_conds(P.conds(ev)):
            if l[0] == "try":
                continue
            if l[0] in ("in", "notin"):
                n_ = apnf.N(t)
                if isinstance(n_, tuple) and n_[0] == "BitAnd" and n_[2] == 0xc0 and "bytes" in str(n_[1]):
                    gs.append(("m", l[0], set(l[1])))
                    continue
                if isinstance(n_, tuple) and n_[0] == "[]" and "bytes" in str(n_) and n_[2] == 0:
                    gs.append(("b0", l[0], set(l[1])))
                    continue
                if isinstance(n_, tuple) and n_ and ("blst_p1_uncompress" in str(n_) or "BLST_ERROR" in str(n_)) and set(l[1]) == {0}:
                    gs.append(("u", l[0] == "in"))
                    continue
                return None
            f = _simplify(apnf.fact(t, l))
            if f[0] == "zeros_only":
                gs.append(("z", f[1]))
            elif f[0] == "uncompress-ok":
                gs.append(("u", f[1]))
            else:
                return None
        paths_.append((gs, kind))

    def holds(gs, b0, z, u):
        for g in gs:
            if g[0] in ("m", "b0"):
                v = (b0 & 0xc0) if g[0] == "m" else b0
                if (v in g[2]) != (g[1] == "in"):
                    return False
            elif g[0] == "z" and g[1] != z:
                return False
            elif g[0] == "u" and g[1] != u:
                return False
        return True

    def spec(b0, z, u):
        m = b0 & 0xc0
        if m == 0xc0:
            return "Ok(default)" if (b0 == 0xc0 and z) else "Err"
        if m != 0x80 or z:
            return "Err"
        return "Ok(point)" if u else "Err"
    for b0 in range(256):
        for z in (False, True):
            for u in (False, True):
                hit = set(k for gs, k in paths_ if holds(gs, b0, z, u))
                if hit != {spec(b0, z, u)}:
                    return False
    return True


def _simplify(f):
    t, v = f
    s = str(t)
    if isinstance(t, tuple) and t[0] in ("Eq", "Ne"):
        op = "==" if t[0] == "Eq" else "!="
        lhs = t[1]
        rhs = t[2]
        if isinstance(lhs, tuple) and lhs[0] == "BitAnd" and lhs[2] == 0xc0 and "bytes" in str(lhs[1]):
            return (("b0&0xc0", op, rhs), v)
        if isinstance(lhs, tuple) and lhs[0] == "[]" and "bytes" in str(lhs) and lhs[2] == 0:
            return (("b0", op, rhs), v)
        if "blst_p1_uncompress" in s or "BLST_ERROR" in s:
            # ret != BLST_SUCCESS
            return ("uncompress-ok", (v is False) if t[0] == "Ne" else (v is True))
    if "is_all_zero" in s or t == "var:zeros_only":
        # `!zeros_only` / zeros_only
        neg = isinstance(t, tuple) and t[0] == "Not"
        return ("zeros_only", (not v) if neg else v)
    if "PartialEq" in s and "BLST_ERROR" in s or (isinstance(t, tuple) and t and str(t[0]).endswith("ne") and "blst_p1_uncompress" in s):
        return ("uncompress-ok", v is False)
    if isinstance(t, tuple) and t and str(t[0]).lower().endswith("ne") and "uncompress" in s:
        return ("uncompress-ok", v is False)
    return (s[:80], v)


def c16_3(ctx):
    R = "C16.3"
    fb = ctx.fb
    for nm, path, via_pk in (
            ("PublicKey", "<chia_bls::public_key::PublicKey as chia_bls::derive_keys::DerivableKey>::derive_unhardened", False),
            ("SecretKey", "<chia_bls::secret_key::SecretKey as chia_bls::derive_keys::DerivableKey>::derive_unhardened", True)):
        f = fb.fns.get(path)
        if not f:
            ctx.missing(R, "derive:" + nm, "impl not found")
            continue
        b = Body(f, fb)
        ctx.touched(b.path)
        hl = b.local_named("hasher")
        seq = [strip_all(a[1]) for _, n, a, _ in b.mut_history(hl[0]) if U.flat(n).endswith("Sha256::update")] if hl else []
        ok = len(seq) == 2 and U.has_call(seq[0], "PublicKey::to_bytes") and U.has_call(seq[1], "to_be_bytes") and U.has_arg(seq[1], "idx")
        if ok and via_pk:
            ok = U.has_call(seq[0], "SecretKey::public_key")
        if ok and not via_pk:
            ok = any(isinstance(x, tuple) and x and x[0] == "arg" and x[1] == 0 for x in subterms(seq[0]))
        # exact inputs: the index enters the hash unmodified, the key is self / self.public_key() -- identical on both sides
        if ok:
            from .. import apnf as _ap
            ex = [str(_ap.N(x)) for x in seq]
            want = ["('PublicKey::to_bytes', ('SecretKey::public_key', 'self'))" if via_pk else "('PublicKey::to_bytes', 'self')", "('to_be_bytes', 'idx')"]
            ok = ex == want
        ctx.ob(R, "derive_unhardened:" + nm, ok,
               "%s::derive_unhardened hashes %s.to_bytes() || idx.to_be_bytes()" % (nm, "self.public_key()" if via_pk else "self"),
               found=[show(x)[:100] for x in seq])
    b = U.body(ctx, R, "chia_puzzle_types::derive_synthetic::synthetic_offset")
    if b:
        hl = b.local_named("hasher")
        seq = [strip_all(a[1]) for _, n, a, _ in b.mut_history(hl[0]) if U.flat(n).endswith("Sha256::update")] if hl else []
        ok = len(seq) == 2 and U.has_call(seq[0], "PublicKey::to_bytes") and U.has_arg(seq[0], "public_key") and seq[1] == ("arg", 1, "hidden_puzzle_hash")
        names = [U.flat(n) for bi, n, t in b.calls()]
        ok = ok and any(n.endswith("mod_by_group_order") for n in names) and any(n.endswith("SecretKey::from_bytes") for n in names)
        ctx.ob(R, "synthetic_offset", ok, "synthetic_offset = SecretKey(sha256(pk.to_bytes() || hidden_puzzle_hash) mod r)", found=[show(x)[:80] for x in seq])
    for nm, path in (("PublicKey", "<chia_bls::public_key::PublicKey as chia_puzzle_types::derive_synthetic::DeriveSynthetic>::derive_synthetic_hidden"),
                     ("SecretKey", "<chia_bls::secret_key::SecretKey as chia_puzzle_types::derive_synthetic::DeriveSynthetic>::derive_synthetic_hidden")):
        f = fb.fns.get(path)
        if not f:
            ctx.missing(R, "synthetic:" + nm, "impl not found")
            continue
        b = Body(f, fb)
        so = [t for bi, n, t in b.calls() if n.endswith("derive_synthetic::synthetic_offset")]
        adds = [n for bi, n, t in b.calls() if "core::ops::arith::Add" in n]
        ok = len(so) == 1 and len(adds) == 1
        if ok:
            a0 = strip_all(b.operand_term(so[0]["args"][0]))
            a1 = strip_all(b.operand_term(so[0]["args"][1]))
            ok = a1 == ("arg", 1, "hidden_puzzle_hash") and (U.has_call(a0, "SecretKey::public_key") if nm == "SecretKey" else a0 == ("arg", 0, "self"))
        ctx.ob(R, "synthetic:" + nm, ok, "%s::derive_synthetic_hidden = self + synthetic_offset(public key of self, hidden hash)%s" % (
            nm, ".public_key()" if nm == "PublicKey" else ""))
    g = fb.consts.get("chia_puzzle_types::derive_synthetic::GROUP_ORDER_BYTES", {}).get("value")
    ctx.ob(R, "GROUP_ORDER_BYTES", bool(g) and int.from_bytes(bytes(g), "big") == BLS12_381_R,
           "GROUP_ORDER_BYTES is the order r of the BLS12-381 scalar field", found=bytes(g).hex() if g else None)


def c16_4(ctx):
    """group addition behind +, +=, -= and aggregate is the complete formula (add_or_double): adding a point to itself must double
    it, otherwise sk + sk and pk + pk no longer correspond.  The incomplete blst_p{1,2}_add is confined to the enumerated site."""
    R = "C16.4"
    fb = ctx.fb
    ALLOW_INCOMPLETE = {"<chia_bls::public_key::PublicKey as chia_bls::derive_keys::DerivableKey>::derive_unhardened":
                        "generator * nonce + self: mirrored on the secret side by scalar addition; equality has negligible probability"}
    n = 0
    bad = []
    ops = 0
    for p, f in fb.fns.items():
        if not (p.startswith("chia_bls::") or "chia_bls::" in p.split(" as ")[0]):
            continue
        for c in f.e.get("calls", []):
            d = (c.get("def") or "").split("::")[-1]
            if d in ("blst_p1_add", "blst_p2_add", "blst_p1_add_affine", "blst_p2_add_affine"):
                n += 1
                if p not in ALLOW_INCOMPLETE:
                    bad.append("%s calls %s" % (p, d))
            if d in ("blst_p1_add_or_double", "blst_p2_add_or_double"):
                n += 1
                if "core::ops::arith::" in p or p.endswith("::aggregate"):
                    ops += 1
    ctx.ob(R, "complete-addition", not bad, "every operator-level group addition uses blst_p*_add_or_double; the incomplete formula appears only at the enumerated site",
           found=bad or None)
    ctx.floor(R, "operator impls using the complete addition", ops, 9)
    ctx.floor(R, "blst addition call sites", n, 10)


def c16_2b(ctx):
    """is_all_zero decides the canonical-infinity test of G1 decoding and the zero test of secret keys: it must inspect every
    byte of its argument.  Accepted shapes: the three parts of buf.align_to::<u128>() are each required to be all-zero by
    `iter().all(|x| x == 0)`, or one such pass over buf itself.  Any window/sampling variant leaves bytes unexamined, so
    non-canonical encodings of infinity would decode."""
    R = "C16.2"
    b = U.body(ctx, R, BL + "secret_key::is_all_zero")
    if not b:
        return
    rows = set()
    try:
        for ev, ex in P.enumerate_paths(b):
            if ex[0] != "return":
                rows.add(("exit", ex[0]))
                continue
            cs = frozenset((str(apnf.N(t)).split(", ('closure'")[0], l[1]) for t, l in P.conds(ev))
            rows.add((cs, str(apnf.N(P.ret_of(ev))).split(", ('closure'")[0]))
    except P.Budget:
        return ctx.missing(R, "is_all_zero:whole-buffer", "path budget")
    part = lambda k: "('all', ('iter', ('.%d', ('align_to', 'buf')))" % k
    ok_align = False
    trues = [(c, r) for c, r in rows if r not in ("0", "False")]
    falses = [(c, r) for c, r in rows if r in ("0", "False")]
    if len(trues) == 1 and isinstance(trues[0][0], frozenset):
        c, r = trues[0]
        needed = {part(0), part(1), part(2)}
        have = {t for t, v in c if v is True} | {r}
        ok_align = have == needed and all(v is True for t, v in c)
        # every rejecting path is a failed `all` of one of the parts
        ok_align = ok_align and all(any(t in needed and v is False for t, v in c2) for c2, r2 in falses if isinstance(c2, frozenset))
    ok_plain = rows == {(frozenset(), "('all', ('iter', 'buf')")}
    # closures compare each element with zero
    cl_ok = True
    ncl = 0
    for f in ctx.fb.closures_of(b.path):
        cb = Body(f, ctx.fb)
        for ev, ex in P.enumerate_paths(cb):
            if ex[0] == "return":
                ncl += 1
                r = apnf.N(P.ret_of(ev))
                cl_ok = cl_ok and isinstance(r, tuple) and r[0] == "Eq" and r[2] == 0 and not P.conds(ev)
    ctx.ob(R, "is_all_zero:whole-buffer", (ok_align or ok_plain) and cl_ok and ncl >= 1,
           "is_all_zero requires every byte to be zero (all three parts of align_to, or one pass over buf; element test `== 0`)",
           found=None if (ok_align or ok_plain) else sorted(map(str, rows))[:4], where=b.fn.sp)


def c16_4b(ctx):
    """secret-key addition is total modular addition in all three operator forms (&a + &b, a + &b, a += &b): each calls
    blst_sk_add_n_check(out, &lhs.0, &rhs.0) exactly once, never branches on its return value (which only reports whether the
    sum is zero -- the reduced sum is always written) and yields `out`.  Otherwise sk addition stops commuting with
    pk addition for inverse keys (a + (r - a) must be the zero key, whose public key is infinity)."""
    R = "C16.4"
    fb = ctx.fb
    forms = [p for p in fb.fns if "chia_bls::secret_key::SecretKey" in p and "core::ops::arith::Add" in p and fb.fns[p].e["kind"] != "Closure"]
    n = 0
    for p in sorted(forms):
        b = Body(fb.fns[p], fb)
        ctx.touched(p)
        calls = [(bi, t) for bi, nm, t in b.calls() if U.flat(nm).endswith("blst_sk_add_n_check")]
        ok = len(calls) == 1
        detail = ""
        if ok:
            bi, t = calls[0]
            a = [str(apnf.N(b.operand_term(x))) for x in t["args"]]
            ok = a[1] == "('.0', 'self')" and a[2] == "('.0', 'rhs')"
            detail = str(a)
            # no branch in the function at all (straight-line) => the return value is not consulted
            switches = [x for x in range(b.n) if x in b.reach and b.blocks[x]["t"]["k"] == "switch"]
            ok = ok and not switches
            by_ref = a[0] != "('.0', 'self')"
            if ok and by_ref:
                rets = [str(apnf.N(P.ret_of(ev))) for ev, ex in P.enumerate_paths(b) if ex[0] == "return"]
                ok = len(rets) == 1 and rets[0].startswith("('SecretKey::SecretKey', ('MaybeUninit::assume_init'")
                detail += " ret=" + (rets[0][:120] if rets else "?")
        n += 1
        ctx.ob(R, "sk-add:" + p.split(" as ")[0].strip("<")[-40:] + ("/assign" if "AddAssign" in p else ""), ok,
               "secret-key addition = blst_sk_add_n_check(out, &self.0, &rhs.0), result always taken, no branch", found=detail[:300], where=fb.fns[p].sp)
    ctx.floor(R, "secret-key addition operator forms", n, 3)


def c16_1b(ctx):
    """'checked parsing rejects every encoding that is not a point of the prime-order subgroup': the only production callers of
    the unchecked point decoders are the checked decoder itself (which gates on is_valid, C16.1) and Streamable::parse (which
    uses it only under TRUSTED, C16.1 / C14.5).  Every other way bytes become a key -- serde Deserialize, JSON, hex helpers,
    condition parsing -- must therefore go through from_bytes."""
    R = "C16.1"
    fb = ctx.fb
    n = 0
    for ty, mod_ in (("PublicKey", "public_key"), ("Signature", "signature")):
        base = BL + mod_ + "::" + ty
        callers = sorted(fb.callers(base + "::from_bytes_unchecked"))
        allowed = {base + "::from_bytes", "<%s as chia_traits::streamable::Streamable>::parse" % base}
        extra = [c for c in callers if c not in allowed]
        n += len(callers)
        ctx.ob(R, "unchecked-callers:" + ty, not extra and bool(callers),
               "%s::from_bytes_unchecked is called only by the checked decoder and by Streamable::parse" % ty, found=extra or None)
    ctx.floor(R, "callers of the unchecked point decoders", n, 4)
    # the add-family uses the projective primitive on projective operands: the *_affine variants take an affine second operand and
    # would silently treat (x, y, z) as affine
    bad = []
    for p, f in fb.fns.items():
        if not (p.startswith("chia_bls::") or "chia_bls::" in p.split(" as ")[0]):
            continue
        for c in f.e.get("calls", []):
            d = (c.get("def") or "").split("::")[-1]
            if d in ("blst_p1_add_or_double_affine", "blst_p2_add_or_double_affine"):
                bad.append("%s calls %s" % (p, d))
    ctx.ob("C16.4", "no-mixed-addition", not bad, "point addition never uses the mixed (affine second operand) formula on projective points", found=bad or None)


def c16_sk(ctx):
    """secret keys have one encoding: SecretKey::from_bytes accepts the all-zero key, and otherwise exactly the scalars
    blst_sk_check accepts (0 < sk < r); there is no hand-written range comparison whose boundary could admit r itself (a second
    encoding of zero)."""
    from .. import apnf
    R = "C16.1"
    b = U.body(ctx, R, BL + "secret_key::SecretKey::from_bytes")
    if not b:
        return
    rows = set()
    for ev, ex in P.enumerate_paths(b):
        cs = frozenset((str(apnf.N(t)).split(",")[0].strip("('"), l[1]) for t, l in P.conds(ev))
        rows.add((ex[0], P.ret_class(ev) if ex[0] == "return" else "", cs))
    exp = {("return", "Ok", frozenset({("is_all_zero", True)})),
           ("return", "Ok", frozenset({("is_all_zero", False), ("blst_sk_check", True)})),
           ("return", "Err", frozenset({("is_all_zero", False), ("blst_sk_check", False)}))}
    z = [str(apnf.N(b.operand_term(t["args"][0]))) for bi, n, t in b.calls() if U.flat(n).endswith("is_all_zero")]
    ctx.ob(R, "secret-key:range", rows == exp and z == ["('as &[u8]', 'bytes')"],
           "SecretKey::from_bytes = zero key, or whatever blst_sk_check admits; nothing else", found=sorted(map(str, rows ^ exp))[:3] or None, where=b.fn.sp)


def c16_eq(ctx):
    """'survives serialize/parse unchanged' is judged by ==: equality of points is the blst projective comparison (an infinity
    reached by arithmetic equals the parsed infinity although their coordinates differ), of pairing elements blst_fp12_is_equal,
    of secret keys the scalar's byte equality -- each a single unconditional call on the two wrapped values."""
    from .. import apnf
    R = "C16.5"
    want = {"public_key::PublicKey": "blst_p1_is_equal", "signature::Signature": "blst_p2_is_equal",
            "gtelement::GTElement": "blst_fp12_is_equal", "secret_key::SecretKey": "eq"}
    n = 0
    for ty, prim in want.items():
        f = ctx.fb.fns.get("<chia_bls::%s as core::cmp::PartialEq>::eq" % ty)
        if f is None:
            ctx.missing(R, "eq:" + ty, "impl PartialEq not found")
            continue
        b = Body(f, ctx.fb)
        ctx.touched(b.path)
        rows = {(ex[0], str(apnf.N(P.ret_of(ev))) if ex[0] == "return" else "", len(P.conds(ev))) for ev, ex in P.enumerate_paths(b)}
        n += 1
        ctx.ob(R, "eq:" + ty.split("::")[-1], rows == {("return", "('%s', ('.0', 'self'), ('.0', 'other'))" % prim, 0)},
               "%s == is %s(&self.0, &other.0), unconditionally" % (ty.split("::")[-1], prim), found=sorted(map(str, rows))[:2], where=f.sp)
    ctx.floor(R, "equality impls of BLS types", n, 4)
