"""C12 — Merkle set roots are canonical and proofs are complete and sound (necessary conditions only).

  C12.1 verifier gates: validate_merkle_proof returns Ok only after `get_root() != *root` was false;
        deserialize_proof_impl returns Ok only if the whole proof was consumed, pushes a Leaf only after the bit-audit
        loop over the traced route, rejects unknown tags, bounds the depth by the literal 256
  C12.2 tag tables: EMPTY/TERMINAL/MIDDLE/TRUNCATED = 0/1/2/3; writers emit 32 payload bytes after TERMINAL/TRUNCATED
        and none after EMPTY/MIDDLE, the reader consumes the same; encode_type maps Empty/Term/Mid|MidDbl -> 0/1/2;
        hash() prefixes 30 zero bytes + the two type bytes; ArrayTypes -> NodeType map
  C12.3 two root computations: radix_sort and generate_merkle_tree_recurse call hash() with the same (type, type,
        hash, hash) signatures under the same case guards; compute_merkle_set_root and get_root wrap a single leaf with
        the same [Term] || leaf hash and map the empty set to BLANK
  C12.4 wheel polarity: confirm_included_already_hashed returns the verdict, confirm_not_included_already_hashed its
        negation; both map SetError to an exception
"""
import hashlib
from .. import apnf
from .. import paths as P
from ..mir import Body, strip_all, show, subterms
from . import util as U

CC = "chia_consensus::"
MT = CC + "merkle_tree::"
MS = CC + "merkle_set::"


def run(ctx):
    ctx.explanation = (
        "MPT/TBL/SIB rules over the Merkle-set code: acceptance gates of the proof verifier, tag constants and payload "
        "lengths agreeing between the proof writers and the reader, the hash-call signatures of the two hand-duplicated root "
        "computations, single-leaf/empty-set handling, and the polarity of the two wheel entry points. Canonicity of the root, "
        "completeness of generated proofs and soundness against all byte strings are statements about the hash tree's "
        "mathematics and are not decided.")
    ctx.trusted += ["SHA-256", "std::io::Cursor::read_exact"]
    ctx.assumptions += ["N: canonicity, completeness and soundness proper (C12.1 are necessary conditions only)"]
    c12_1(ctx)
    c12_1_verdict(ctx)
    c12_proofgen(ctx)
    c12_more_exact(ctx)
    c12_2(ctx)
    c12_3(ctx)
    c12_4(ctx)
    c12_5(ctx)


def c12_1(ctx):
    R = "C12.1"
    b = U.body(ctx, R, MT + "validate_merkle_proof")
    if b:
        def root_ok(t, lab):
            s = str(apnf.N(t))
            return "MerkleSet::get_root" in s and "root" in s and (("ne" in s.lower()[:12] and lab == ("bool", False)) or ("'Ne'" in s and lab == ("bool", False))
                                                                   or ("'Eq'" in s and lab == ("bool", True)))
        edges = U.edges_where(b, root_ok)
        U.must_pass(ctx, R, b, "validate:root-compared", b.ok_exits(), edges,
                    "validate_merkle_proof answers only after the proof's root equalled the given root")
        fp = [bi for bi, n, t in b.calls() if n.endswith("MerkleSet::from_proof")]
        ctx.ob(R, "validate:parses-proof", len(fp) == 1, "the verdict is computed on the tree parsed from the proof bytes")
    b = U.body(ctx, R, MT + "MerkleSet::deserialize_proof_impl")
    if b:
        def consumed(t, lab):
            t2 = strip_all(t)
            return t2[0] == "bin" and t2[1] == "Eq" and U.has_call(t2, "Cursor::position") and "len" in str(t2) and lab == ("bool", True)
        U.must_pass(ctx, R, b, "deserialize:all-consumed", b.ok_exits(), U.edges_where(b, consumed),
                    "deserialize_proof_impl succeeds only if every proof byte was consumed (no trailing bytes)")
        # Leaf pushes are preceded by the audit loop: the push of (ArrayTypes::Leaf, hash) is reachable only through the
        # iterator-exhausted edge of the loop that compares get_bit(hash, pos) with the traced bit
        leaf_push = []
        for bi, n, t in b.calls():
            if U.flat(n).endswith("Vec::push"):
                a = strip_all(b.operand_term(t["args"][1]))
                if "ArrayTypes" in str(a) and "'Leaf'" in str(a):
                    leaf_push.append(bi)
        audit = [bi for bi, n, t in b.calls() if n.endswith("merkle_tree::get_bit")]

        def mismatch(t, lab):
            return U.has_call(t, "merkle_tree::get_bit") and lab[0] == "bool"
        mm = U.edges_where(b, mismatch)
        rejecting = [e for e in mm if not b.reachable_avoiding(e, leaf_push + b.ok_exits(), [])]
        ok = len(leaf_push) == 1 and len(audit) == 1 and b.in_cycle(audit[0]) and len(rejecting) == 1
        # the loop is on the way to the push: the push is not reachable from the tag switch without passing the loop head
        if ok:
            nx = [bi for bi, n, t in b.calls() if U.flat(n).endswith("::next") and b.dominates(bi, audit[0])]
            ok = bool(nx) and any(b.dominates(x, leaf_push[0]) for x in nx)
        ctx.ob(R, "deserialize:leaf-position-audit", ok,
               "a leaf is accepted only after every traced route bit was compared with get_bit(hash, pos); a mismatch rejects")
        # tag dispatch: exactly the four tags, anything else rejects
        tags = None
        for bi, blk in enumerate(b.blocks):
            t = blk["t"]
            if t["k"] == "switch" and bi in b.reach and t["dty"] == "u8" and len(t["targets"]) >= 4:
                tags = sorted(v for v, _ in t["targets"])
                other = t["otherwise"]
                rej = not b.reachable_avoiding(other, b.ok_exits(), []) if other in b.reach else True
        ctx.ob(R, "deserialize:tags", tags == [0, 1, 2, 3] and rej, "the reader accepts exactly the tags 0,1,2,3; any other byte rejects", found=tags)

        def deep(t, lab):
            t2 = strip_all(t)
            return t2[0] == "bin" and t2[1] == "Gt" and U.has_const(t2, 256) and lab == ("bool", True)
        e = U.edges_where(b, deep)
        ctx.ob(R, "deserialize:depth-bound", len(e) == 1 and not b.reachable_avoiding(e[0], b.ok_exits(), []),
               "nesting deeper than 256 is rejected")


def _after_tag_payloads(b):
    """for every push(TAG) into the proof vector, along every path: is the next thing written to the proof a
    32-byte payload (extend_from_slice) or not?"""
    out = {}
    try:
        ps = P.enumerate_paths(b, max_paths=5000)
    except P.Budget:
        return {}
    for ev, ex in ps:
        sink = []
        for e in P.calls(ev):
            fl = U.flat(e[2])
            if fl.endswith("Vec::push"):
                v = strip_all(e[3][1])
                if v[0] == "c" and v[1] == "u8":
                    sink.append(("tag", v[3].split("::")[-1] if v[3] else v[2]))
            elif fl.endswith("extend_from_slice"):
                a = strip_all(e[3][1])
                sink.append(("payload", show(a)[:60]))
            elif fl.endswith("generate_proof_impl") or fl.endswith("other_included") or fl.endswith("pad_middles_for_proof_gen"):
                sink.append(("rec", fl.split("::")[-1]))
        for i, (k, v) in enumerate(sink):
            if k == "tag":
                nxt = sink[i + 1][0] if i + 1 < len(sink) else "end"
                out.setdefault(v, set()).add(nxt == "payload")
    return out


def mir_name(t):
    from ..mir import callee_name
    return callee_name(t["f"])


def c12_2(ctx):
    R = "C12.2"
    fb = ctx.fb
    want = {"EMPTY": 0, "TERMINAL": 1, "MIDDLE": 2, "TRUNCATED": 3}
    got = {k: fb.consts.get(MT + k, {}).get("value") for k in want}
    ctx.ob(R, "tags", got == want, "EMPTY/TERMINAL/MIDDLE/TRUNCATED = 0/1/2/3", found=got)
    pay = {"EMPTY": {False}, "MIDDLE": {False}, "TERMINAL": {True}, "TRUNCATED": {True}}
    seen = {}
    for fn_ in ("MerkleSet::generate_proof_impl", "MerkleSet::other_included", "pad_middles_for_proof_gen"):
        b = U.body(ctx, R, MT + fn_)
        if not b:
            continue
        for k, v in _after_tag_payloads(b).items():
            seen.setdefault(k, set()).update(v)
    ctx.ob(R, "writer-payloads", seen == pay, "writers emit a 32-byte hash after TERMINAL/TRUNCATED and nothing after EMPTY/MIDDLE",
           found={k: sorted(v) for k, v in seen.items()})
    # payload is a 32-byte hash: extend_from_slice(&nodes_vec[i].1) / left / right  (type [u8; 32])
    # reader: TERMINAL / TRUNCATED arms call read_exact into a [0; 32] buffer, EMPTY / MIDDLE do not
    b = U.body(ctx, R, MT + "MerkleSet::deserialize_proof_impl")
    if b:
        reads = {}
        sw = [bi for bi, blk in enumerate(b.blocks) if blk["t"]["k"] == "switch" and bi in b.reach and blk["t"]["dty"] == "u8" and len(blk["t"]["targets"]) >= 4]
        if len(sw) == 1:
            for v, tb in b.blocks[sw[0]]["t"]["targets"]:
                # first call in the arm
                x = tb
                hops = 0
                first = None
                while hops < 6:
                    tt = b.blocks[x]["t"]
                    if tt["k"] == "call":
                        first = U.flat(mir_name(tt))
                        break
                    if tt["k"] in ("goto", "assert"):
                        x = tt["t"]
                        hops += 1
                        continue
                    break
                reads[v] = bool(first) and first.endswith("read_exact")
        ctx.ob(R, "reader-payloads", reads == {0: False, 1: True, 2: False, 3: True},
               "the reader consumes a 32-byte hash after tags 1 and 3 only", found=reads)
    b = U.body(ctx, R, MS + "encode_type")
    if b:
        m = {}
        for ev, ex in P.enumerate_paths(b):
            r = P.ret_of(ev)
            for t, lab in P.conds(ev):
                if lab[0] == "is":
                    for nm in lab[1]:
                        m[nm] = strip_all(r)[2] if r else None
        ctx.ob(R, "encode_type", m == {"Empty": 0, "Term": 1, "Mid": 2, "MidDbl": 2}, "encode_type: Empty/Term/Mid|MidDbl -> 0/1/2", found=m)
    b = U.body(ctx, R, MS + "hash")
    if b:
        hl = b.local_named("hasher")
        seq = [strip_all(a[1]) for _, n, a, _ in b.mut_history(hl[0])] if hl else []
        ok = len(seq) == 4 and _bytes(seq[0]) == (0,) * 30 and "encode_type" in str(seq[1]) and U.has_arg(seq[1], "ltype") and \
            U.has_arg(seq[1], "rtype") and seq[2] == ("arg", 2, "left") and seq[3] == ("arg", 3, "right")
        if ok:
            arr = seq[1]
            ok = arr[0] == "agg" and arr[1] == "array" and U.has_arg(arr[3][0], "ltype") and U.has_arg(arr[3][1], "rtype")
        ctx.ob(R, "hash", ok, "hash = sha256(30 zero bytes || type(l) || type(r) || left || right)", found=[show(x)[:80] for x in seq])
    f = fb.fns.get("chia_consensus::merkle_tree::<impl core::convert::From<chia_consensus::merkle_tree::ArrayTypes> for chia_consensus::merkle_set::NodeType>::from")
    if f:
        b = Body(f, fb)
        m = {}
        for ev, ex in P.enumerate_paths(b):
            r = strip_all(P.ret_of(ev))
            for t, lab in P.conds(ev):
                if lab[0] == "is":
                    for nm in lab[1]:
                        m[nm] = r[2] if r[0] == "agg" else None
        ctx.ob(R, "array-to-node-type", m == {"Empty": "Empty", "Leaf": "Term", "Middle": "Mid", "Truncated": "Mid"},
               "ArrayTypes -> NodeType: Empty/Leaf/Middle|Truncated -> Empty/Term/Mid", found=m)
    else:
        ctx.missing(R, "array-to-node-type", "From<ArrayTypes> for NodeType not found")
    e = fb.consts.get(MT + "EMPTY_NODE_HASH", {}).get("value")
    ctx.ob(R, "EMPTY_NODE_HASH", bool(e) and bytes(e) == hashlib.sha256(bytes(32)).digest(), "EMPTY_NODE_HASH == sha256(32 zero bytes)")
    bl = fb.consts.get(MS + "BLANK", {}).get("value")
    ctx.ob(R, "BLANK", bool(bl) and bytes(bl) == bytes(32), "BLANK is 32 zero bytes")


def _bytes(t):
    if t[0] == "cb":
        return tuple(t[2])
    if t[0] == "agg" and t[1] == "array":
        out = []
        for x in t[3]:
            x = strip_all(x)
            while x[0] == "cast":
                x = strip_all(x[1])
            if x[0] != "c":
                return None
            out.append(x[2])
        return tuple(out)
    return None


def _hash_sigs(b, rec_names):
    out = set()
    for bi, n, t in b.calls():
        if n.endswith("merkle_set::hash"):
            a = [apnf.N(b.operand_term(x)) for x in t["args"]]
            s = _canon(a, rec_names)
            guards = []
            for tt, lab in b.dominating_conditions(bi):
                g = _canon(apnf.fact(tt, lab), rec_names)
                gs = str(g)
                if "'depth', 255" in gs or "var:left', 0" in gs or "var:right" in gs or "NodeType::Mid" in gs:
                    guards.append(gs)
            out.add((str(s), tuple(sorted(guards))))
    return out


def _canon(x, rec_names):
    if isinstance(x, tuple):
        if x and x[0] in rec_names:
            return ("REC",) + tuple(_canon(y, rec_names) for y in x[1:] if y != "self")
        return tuple(_canon(y, rec_names) for y in x)
    if isinstance(x, list):
        return [_canon(y, rec_names) for y in x]
    return x


def c12_3(ctx):
    R = "C12.3"
    b1 = U.body(ctx, R, MS + "radix_sort")
    b2 = U.body(ctx, R, MT + "MerkleSet::generate_merkle_tree_recurse")
    if b1 and b2:
        rec = ("radix_sort", "MerkleSet::generate_merkle_tree_recurse")
        s1, s2 = _hash_sigs(b1, rec), _hash_sigs(b2, rec)
        # `child_type == Mid` is `eq(..)` via PartialEq in one copy; compare signatures and the case guards that both express
        sig1 = {a for a, g in s1}
        sig2 = {a for a, g in s2}
        ctx.ob(R, "hash-signatures", sig1 == sig2 and len(sig1) == 4,
               "both root computations call hash() with the same four (ltype, rtype, left, right) signatures", found=sorted(sig1 ^ sig2)[:2])

        def casekey(g):
            return tuple(sorted(x for x in g if "'depth', 255" in x or "var:left', 0" in x or "var:right" in x))
        c1 = {(a, casekey(g)) for a, g in s1}
        c2 = {(a, casekey(g)) for a, g in s2}
        ctx.ob(R, "hash-cases", c1 == c2, "each hash() signature occurs under the same (left-empty / right-empty / depth == 255) case in both copies",
               found=sorted(map(str, c1 ^ c2))[:2])
        ctx.sample({"rule": R, "signatures": sorted(sig1)[:2]})
        # returned node types per signature: Mid for the padded cases, MidDbl for the Term/Term split
        for nm, b in (("radix_sort", b1), ("generate_merkle_tree_recurse", b2)):
            kinds = set()
            for bi, k, d, rv in b.ret_assignments():
                if k == "agg":
                    t = strip_all(b.rvalue_term(rv))
                    if len(t[3]) == 2:
                        ty = strip_all(t[3][1])
                        h = strip_all(t[3][0])
                        kinds.add(("hash" if U.has_call(h, "merkle_set::hash") or "node_hash" in show(h) else "fwd", ty[2] if ty[0] == "agg" else "var"))
            ctx.ob(R, "result-types:" + nm, ("hash", "Mid") in kinds and ("hash", "MidDbl") in kinds and ("fwd", "Term") in kinds,
                   "%s returns Mid for padded nodes, MidDbl for a leaf pair, Term for a (collapsed) single leaf" % nm, found=sorted(kinds))
    # single leaf / empty set
    b = U.body(ctx, R, MS + "compute_merkle_set_root")
    if b:
        hl = b.local_named("hasher")
        seq = [strip_all(a[1]) for _, n, a, _ in b.mut_history(hl[0])] if hl else []
        ok = len(seq) == 2 and _bytes(seq[0]) == (1,) and "radix_sort" in str(seq[1])
        blank = any(k == "const" or (k == "use" and "BLANK" in str(b.rvalue_term(rv))) for bi, k, d, rv in b.ret_assignments())
        ctx.ob(R, "root:single-leaf", ok and blank, "compute_merkle_set_root: empty => BLANK, a single (possibly duplicated) leaf => sha256([Term] || leaf)",
               found=[show(x)[:80] for x in seq])
    b = U.body(ctx, R, MT + "hash_leaf")
    if b:
        hl = b.local_named("hasher")
        seq = [strip_all(a[1]) for _, n, a, _ in b.mut_history(hl[0])] if hl else []
        ok = len(seq) == 2 and _bytes(seq[0]) == (1,) and seq[1] == ("arg", 0, "leaf")
        ctx.ob(R, "hash_leaf", ok, "hash_leaf = sha256([Term] || leaf) (same wrapping as compute_merkle_set_root)", found=[show(x)[:80] for x in seq])
    b = U.body(ctx, R, MT + "MerkleSet::get_root")
    if b:
        m = {}
        for ev, ex in P.enumerate_paths(b):
            r = P.ret_of(ev)
            for t, lab in P.conds(ev):
                if lab[0] == "is":
                    for nm in lab[1]:
                        s = show(strip_all(r)) if r else ""
                        rr = strip_all(r) if r else ("?",)
                        m[nm] = "hash_leaf" if "hash_leaf" in s else ("BLANK" if (rr[0] == "cb" and set(rr[2]) == {0} and len(rr[2]) == 32) else "stored")
        ctx.ob(R, "get_root", m == {"Leaf": "hash_leaf", "Middle": "stored", "Truncated": "stored", "Empty": "BLANK"},
               "get_root: Leaf => hash_leaf, Middle/Truncated => stored hash, Empty => BLANK", found=m)


def c12_4(ctx):
    R = "C12.4"
    fb = ctx.fb
    for nm, negated in (("confirm_included_already_hashed", False), ("confirm_not_included_already_hashed", True)):
        f = fb.fns.get("chia_rs::api::" + nm)
        if not f:
            ctx.missing(R, "wheel:" + nm, "not found")
            continue
        b = Body(f, fb)
        ctx.touched(b.path)
        v = [t for bi, n, t in b.calls() if n.endswith("merkle_tree::validate_merkle_proof")]
        ok = len(v) == 1
        if ok:
            a = [show(strip_all(b.operand_term(x))) for x in v[0]["args"]]
            ok = "proof" in a[0] and "item" in a[1] and "root" in a[2]
        maps = [n for bi, n, t in b.calls() if U.flat(n).endswith("Result::map")]
        neg = False
        for cl in fb.closures_of(f.path):
            cb = Body(cl, fb)
            for bi, k, d, rv in cb.ret_assignments():
                if k != "call":
                    t = strip_all(cb.rvalue_term(rv))
                    if t[0] == "un" and t[1] == "Not":
                        neg = True
        ctx.ob(R, "wheel:" + nm, ok and neg == negated and (len(maps) == 1) == negated,
               "%s passes (proof, item, root) in their roles and returns the %s verdict" % (nm, "negated" if negated else "plain"),
               found={"args_ok": ok, "negation": neg, "map_calls": len(maps)})


def c12_1_verdict(ctx):
    """(a) validate_merkle_proof has exactly one accepting path -- proof parsed, rebuilt root equal to the given root, lookup
    succeeded -- and returns the lookup's own inclusion flag; a lookup error (a truncated node on the item's route) is an error,
    never a verdict.  (b) the lookup decides inclusion only by comparing the complete 32-byte stored leaf with the item:
    Empty => false; Leaf => stored == item; a pair of leaves => left == item || right == item; otherwise recursion on the
    branch selected by get_bit(item, depth)."""
    R = "C12.1"
    b = U.body(ctx, R, MT + "validate_merkle_proof")
    if b:
        try:
            rows = {(frozenset(map(str, f)), str(r) if str(r).startswith("('Ok'") else "Err") for f, r, _ in apnf.paths_of(b, want=("Ok", "Err"))}
        except P.Budget:
            rows = None
        fp = "('MerkleSet::from_proof', 'proof')"
        gp = "('MerkleSet::generate_proof', %s, 'item')" % fp
        ne = "(('ne', ('MerkleSet::get_root', %s), 'root'), %%s)" % fp
        exp = {
            (frozenset({"(%s, 'ok')" % fp, ne % "False", "(%s, 'ok')" % gp}), "('Ok', ('.0', %s))" % gp),
            (frozenset({"(%s, 'ok')" % fp, ne % "False", "(%s, 'err')" % gp}), "Err"),
            (frozenset({"(%s, 'ok')" % fp, ne % "True"}), "Err"),
            (frozenset({"(%s, 'err')" % fp}), "Err"),
        }
        ctx.ob(R, "validate:verdict-exact", rows == exp,
               "validate_merkle_proof = from_proof(proof)?; root must match; generate_proof(item)? .0 -- lookup errors are errors, not verdicts",
               found=None if rows == exp else sorted(str(x)[:300] for x in (rows or set()) ^ exp)[:4], where=b.fn.sp)
    b = U.body(ctx, R, MT + "MerkleSet::generate_proof_impl")
    if b:
        try:
            rows = [(frozenset(map(str, f)), str(r) if str(r).startswith("('Ok'") else "('Ok', %s)" % str(r))
                    for f, r, _ in apnf.paths_of(b, want=("Ok", "call"))]
        except P.Budget:
            return ctx.missing(R, "lookup:inclusion-decision", "path budget exceeded")
        cur = "('index', ('.nodes_vec', 'self'), 'current_node_index')"
        kind = "(('.0', %s), '%%s')" % cur
        child = lambda k: "('index', ('.nodes_vec', 'self'), ('as usize', ('.%d', ('as:Middle', ('.0', %s)))))" % (k, cur)
        eq = lambda node: "('eq', ('.1', %s), 'leaf')" % node
        bad = []
        classes = set()
        for f, r in rows:
            if r == "('Ok', 0)" and (kind % "Empty") in f:
                classes.add("empty")
            elif r == "('Ok', %s)" % eq(cur) and (kind % "Leaf") in f:
                classes.add("leaf")
            elif r == "('Ok', %s)" % eq(child(1)) and "(%s, False)" % eq(child(0)) in f and (kind % "Middle") in f:
                classes.add("pair-right")
            elif r == "('Ok', 1)" and "(%s, True)" % eq(child(0)) in f and (kind % "Middle") in f:
                classes.add("pair-left")
            elif r.startswith("('Ok', ('MerkleSet::generate_proof_impl', 'self', ('as usize', ('.") and (kind % "Middle") in f and \
                    any(x.startswith("(('get_bit', 'leaf', 'depth'), ") for x in f) and r.endswith("'leaf', 'proof', ('.0', ('AddWithOverflow', 'depth', 1))))"):
                side = [x for x in f if x.startswith("(('get_bit', 'leaf', 'depth'), ")][0].endswith("True)")
                want_child = ".1" if side else ".0"
                if ("('as usize', ('%s', ('as:Middle'" % want_child) in r:
                    classes.add("recurse-" + ("right" if side else "left"))
                else:
                    bad.append("descends into the wrong child: " + r[:160])
            else:
                bad.append(r[:200])
        need = {"empty", "leaf", "pair-left", "pair-right", "recurse-left", "recurse-right"}
        ctx.ob(R, "lookup:inclusion-decision", not bad and classes == need,
               "generate_proof_impl reports inclusion only through complete 32-byte equality of the stored leaf with the item "
               "(Empty=>false, Leaf, pair of leaves, else recurse on get_bit(item, depth) with depth+1)",
               found=(bad[:3] or sorted(need - classes)) or None, where=b.fn.sp)


def c12_proofgen(ctx):
    """(a) from_proof is deserialize_proof_impl and nothing else: the verifier refuses a proof only where the parser does
    (completeness: no honest proof is cut off by a size/shape pre-filter -- the largest honest proof has 256 levels with a
    33-byte sibling on each).  (b) the generator's padding of a collapsed double-leaf follows the reader's audit bit by bit:
    at each depth compare bit `depth` of both leaves -- different: MIDDLE TERMINAL left TERMINAL right; both 1: MIDDLE EMPTY <deeper>;
    both 0: MIDDLE <deeper> EMPTY -- recursing with depth+1 on the same two leaves."""
    R = "C12.1"
    b = U.body(ctx, R, MT + "MerkleSet::from_proof")
    if b:
        rows = set()
        for ev, ex in P.enumerate_paths(b):
            cs = frozenset((str(apnf.N(t)).split(",")[0], str(l)) for t, l in P.conds(ev))
            rows.add((ex[0], P.ret_class(ev) if ex[0] == "return" else "", cs))
        d = "('MerkleSet::deserialize_proof_impl'"
        exp = {("return", "Ok", frozenset({(d, "('try', True)")})), ("return", "Err", frozenset({(d, "('try', False)")}))}
        ctx.ob(R, "from_proof:only-the-parser-rejects", rows == exp,
               "from_proof = deserialize_proof_impl(proof)? with no other rejection", found=sorted(map(str, rows ^ exp))[:3] or None, where=b.fn.sp)
    R = "C12.2"
    b = U.body(ctx, R, MT + "pad_middles_for_proof_gen")
    if b:
        rows = set()
        for ev, ex in P.enumerate_paths(b):
            if ex[0] != "return":
                rows.add(("exit", ex[0]))
                continue
            cs = frozenset((str(apnf.N(t)), l[1]) for t, l in P.conds(ev))
            seq = tuple((U.flat(e[2]).split("::")[-1],) + tuple(str(apnf.N(a)) for a in e[3][1:]) for e in P.calls(ev)
                        if U.flat(e[2]).split("::")[-1] in ("push", "extend_from_slice", "pad_middles_for_proof_gen", "extend"))
            rows.add((cs, seq))
        ne = "('Ne', ('get_bit', 'left', 'depth'), ('get_bit', 'right', 'depth'))"
        lb = "('get_bit', 'left', 'depth')"
        rec = ("pad_middles_for_proof_gen", "left", "right", "('.0', ('AddWithOverflow', 'depth', 1))")
        exp = {
            (frozenset({(ne, True)}), (("push", "2"), ("push", "1"), ("extend_from_slice", "('as &[u8]', 'left')"), ("push", "1"),
                                       ("extend_from_slice", "('as &[u8]', 'right')"))),
            (frozenset({(ne, False), (lb, True)}), (("push", "2"), ("push", "0"), rec)),
            (frozenset({(ne, False), (lb, False)}), (("push", "2"), rec, ("push", "0"))),
        }
        ctx.ob(R, "pad-middles:bit-by-bit", rows == exp,
               "pad_middles_for_proof_gen emits one MIDDLE per shared bit with EMPTY on the side the leaves are not on, and the two terminals "
               "at the first differing bit", found=sorted(map(str, rows ^ exp))[:2] or None, where=b.fn.sp)


def c12_more_exact(ctx):
    """(a) MerkleSet::generate_proof forwards the lookup's failure: a tree rebuilt from a proof that runs into a truncated node
    on the item's route has *no* answer (error), never 'not included';  (b) the node hash shared by both root computations and
    the proof parser is one unconditional SHA-256 over 30 zero bytes, the two type bytes and the two child hashes -- no child
    type combination is special-cased (a parser-reachable (Empty, Terminal) shortcut would let a forged node take any hash)."""
    R = "C12.1"
    b = U.body(ctx, R, MT + "MerkleSet::generate_proof")
    if b:
        rows = set()
        for ev, ex in P.enumerate_paths(b):
            cs = frozenset((str(apnf.N(t)).split(",")[0].strip("('"), str(l[1])) for t, l in P.conds(ev))
            rows.add((ex[0], P.ret_class(ev) if ex[0] == "return" else "", cs))
        g = "MerkleSet::generate_proof_impl"
        exp = {("return", "Ok", frozenset({(".from_proof", "False"), (g, "True")})), ("return", "Ok", frozenset({(".from_proof", "True"), (g, "True")})),
               ("return", "Err", frozenset({(g, "False")}))}
        ctx.ob(R, "generate_proof:forwards-lookup-errors", rows == exp,
               "generate_proof = generate_proof_impl(..)? then (found, proof bytes or empty for proof-built trees); lookup errors are errors",
               found=sorted(map(str, rows ^ exp))[:3] or None, where=b.fn.sp)
    R = "C12.2"
    b = U.body(ctx, R, MS + "hash")
    if b:
        rows = [(ex[0], len(P.conds(ev)), str(apnf.N(P.ret_of(ev))) if ex[0] == "return" else "") for ev, ex in P.enumerate_paths(b)]
        ok = len(rows) == 1 and rows[0][0] == "return" and rows[0][1] == 0 and rows[0][2].startswith("('Sha256::finalize', ") and rows[0][2].count("'Sha256::update'") == 4
        sw = [x for x in range(b.n) if x in b.reach and b.blocks[x]["t"]["k"] == "switch"]
        ctx.ob(R, "hash:unconditional", ok and not sw, "merkle_set::hash is a single path: sha256(prefix || types || left || right) for every type combination",
               found=[r[2][:80] for r in rows][:2], where=b.fn.sp)


# ------------------------------------------------------------------ C12.5 (round 7)
_BITS = {"u8": 8, "u16": 16, "u32": 32, "u64": 64, "usize": 64, "u128": 128, "i8": 8, "i16": 16, "i32": 32, "i64": 64, "isize": 64,
         "i128": 128}
# narrowing integer casts of the Merkle code, reviewed on the armed tree: node indices are u32 (a proof / tree with 2^32 nodes
# does not fit in memory), bit positions u8 (depth < 256 is tested), the radix-sort helpers use i32 counters
NARROWING_OK = {
    ("MerkleSet::deserialize_proof_impl", "usize", "u32"), ("MerkleSet::deserialize_proof_impl", "usize", "u8"),
    ("MerkleSet::generate_merkle_tree_recurse", "usize", "i32"), ("MerkleSet::generate_merkle_tree_recurse", "usize", "u32"),
    ("radix_sort", "usize", "i32"),
}


def c12_5(ctx):
    """(a) node indices are never narrowed below the reviewed widths: a truncated index makes the proof parser link / hash a
    different, earlier node than the one that was audited (soundness), and is invisible below 2^16 nodes;
    (b) from_leafs hands the caller's leaf slice to the tree builder whole -- no sort / re-slice / filter in between, so that
    MerkleSet::get_root and compute_merkle_set_root are computed over the same leaf set."""
    R = "C12.5"
    fb = ctx.fb
    got = set()
    n = 0
    for p, f in fb.fns.items():
        if not (p.startswith("chia_consensus::merkle_tree::") or p.startswith("chia_consensus::merkle_set::")):
            continue
        n += 1
        ctx.touched(p)
        for blk in f.body["blocks"]:
            for st in blk["s"]:
                if st["k"] == "assign" and st["rv"]["k"] == "cast":
                    fr, to = st["rv"].get("from"), st["rv"].get("to")
                    if fr in _BITS and to in _BITS and _BITS[to] < _BITS[fr]:
                        got.add((p.split("::", 2)[2], fr, to))
    new = sorted(got - NARROWING_OK)
    ctx.ob(R, "narrowing-casts", not new, "no integer of the Merkle set / proof code is narrowed beyond the reviewed index widths "
           "(node index u32, bit position u8)", found=new or None)
    ctx.floor(R, "merkle functions scanned for casts", n, 20)
    b = U.body(ctx, R, "chia_consensus::merkle_tree::MerkleSet::from_leafs")
    if b:
        gens = [(bi, nm, t) for bi, nm, t in b.calls() if nm.endswith("generate_merkle_tree_recurse")]
        ok = len(gens) == 1
        detail = None
        if ok:
            a = strip_all(b.operand_term(gens[0][2]["args"][1]))
            ok = a == ("arg", 0, "leafs") or (a[0] == "arg" and a[1] == 0)
            detail = show(a)
        # nothing else may touch the slice mutably or derive another slice from it
        others = []
        for bi, nm, t in b.calls():
            if nm.endswith("generate_merkle_tree_recurse") or U.flat(nm).endswith("is_empty"):
                continue
            for a_ in t["args"]:
                x = strip_all(b.operand_term(a_))
                if any(isinstance(y, tuple) and y and y[0] == "arg" and y[1] == 0 for y in subterms(x)):
                    others.append(U.flat(nm))
        ctx.ob(R, "from_leafs:whole-slice", ok and not others,
               "from_leafs passes its leaf slice unchanged to the tree builder; the only other use is the emptiness test",
               found={"builder_arg": detail, "other_uses": sorted(set(others))[:4]}, where=b.fn.sp)
