"""C11 — all integer encoders agree on the canonical CLVM integer form.

Decided (structural):
  C11.1 the three hand-written u64 threshold ladders (Coin::coin_id, u64_to_bytes, clvm_bytes_len) are extracted as
        decision tables and evaluated on every interval boundary: emitted byte count == canonical minimal length
        (0 for 0, bitlen//8+1 otherwise, i.e. big-endian with a 0x00 sign byte when the top bit is set); the bytes are a
        suffix of to_be_bytes(amount) (plus the literal [0] prefix in the 9-byte case); the three tables agree.
  C11.2 sanitize_uint: Ok(v) only when the length fits (max_size, +1 after a leading zero); top bit => negative overflow;
        [0] / redundant leading zero => error; v = u64_from_bytes(buf).
  C11.3 clvm-traits: each of the 12 integer FromClvm impls passes its own signedness and width to decode_number, each
        ToClvm impl passes `*self < 0`; encode/decode_number use pad bytes 0xFF/0x00 by sign, sign mask 0x80.
"""
from .. import paths as P
from .. import dt
from ..mir import Body, strip_all, show, subterms
from .. import apnf
from . import util as U


def canon_len(n):
    return 0 if n == 0 else n.bit_length() // 8 + 1


def clvm_len(n):
    # serialized atom: single byte for 0 (0x80) and 1..0x7f, else 1 size byte + minimal bytes (all lengths here < 0x40)
    return 1 if n < 0x80 else 1 + canon_len(n)


CANON_POINTS = sorted({0, 1, 2 ** 64 - 1} | {x for k in range(1, 9) for x in
                                               (2 ** (8 * k - 1) - 1, 2 ** (8 * k - 1), 2 ** (8 * k - 1) + 1,
                                                2 ** (8 * k) - 1, min(2 ** (8 * k), 2 ** 64 - 1))})


def run(ctx):
    ctx.explanation = (
        "DT rule: each hand-written u64 ladder is extracted from MIR as a decision table (guards = comparisons of the "
        "amount with literals along each path, outcome = emitted length) and the table is evaluated on every literal +-1 and "
        "on all canonical byte-length boundaries against the canonical minimal-length function; TBL rules for sanitize_uint "
        "and for the signedness/width arguments of the 12 clvm-traits integer impls. Decides these clauses; equality with "
        "clvmr's own encoder is trusted.")
    ctx.trusted += ["clvmr Allocator::new_number / u64_from_bytes", "u64::to_be_bytes"]
    ctx.assumptions += ["N: exhaustive value-level agreement with clvmr (a dynamic enumeration)"]
    tables = {}
    tables["coin_id"] = ladder(ctx, "chia_protocol::coin::Coin::coin_id", "coin_id")
    tables["u64_to_bytes"] = ladder(ctx, "chia_consensus::make_aggsig_final_message::u64_to_bytes", "u64_to_bytes")
    tables["clvm_bytes_len"] = ladder(ctx, "chia_consensus::solution_generator::clvm_bytes_len", "clvm_bytes_len")
    # sibling agreement on the union of all probe points
    pts = set(CANON_POINTS)
    for t in tables.values():
        if t:
            pts |= set(dt.probe_points(dt.literals([g for g, _ in t])))
    if all(tables.values()):
        bad = []
        for v in sorted(pts):
            a = _eval(tables["coin_id"], v)
            b = _eval(tables["u64_to_bytes"], v)
            c = _eval(tables["clvm_bytes_len"], v)
            if a != b or c != (1 if v < 0x80 else 1 + (a or 0)):
                bad.append((hex(v), a, b, c))
        ctx.ob("C11.1", "siblings", not bad, "the three ladders agree at %d probe points" % len(pts), found=bad[:5])
    c11_2(ctx)
    c11_3(ctx)


def _eval(table, v):
    hit = [out for g, out in table if dt.holds(g, v)]
    if len(hit) != 1:
        return ("ambiguous", len(hit))
    return hit[0]


def ladder(ctx, path, kind, rule="C11.1"):
    R = rule
    b = U.body(ctx, R, path)
    if not b:
        return None

    def is_var(t):
        t = strip_all(t)
        return t == ("arg", 0, "val") or (t[0] == "f" and t[2] == "amount" and t[1][0] == "arg" and t[1][1] == 0)
    table = []
    try:
        ps = P.enumerate_paths(b)
    except P.Budget:
        ctx.missing(R, kind, "path budget exceeded")
        return None
    for events, ex in ps:
        if ex[0] != "return":
            continue
        g = dt.int_guards(events, is_var)
        if g is None:
            ctx.missing(R, kind + ":shape", "ladder has a condition on the amount that is not `amount OP literal`")
            return None
        out = _outcome(b, events, kind)
        if out is None:
            ctx.missing(R, kind + ":outcome", "cannot determine the emitted length on a path (shape not recognised)")
            return None
        table.append((g, out))
    lits = dt.literals([g for g, _ in table])
    pts = sorted(set(dt.probe_points(lits)) | set(CANON_POINTS))
    bad = []
    for v in pts:
        got = _eval(table, v)
        want = clvm_len(v) if kind == "clvm_bytes_len" else canon_len(v)
        if got != want:
            bad.append((hex(v), "got %s" % (got,), "want %d" % want))
    ctx.ob(R, "table:" + kind, not bad,
           "decision table of %s (%d rows, %d literals) equals the canonical %s at %d probe points" % (
               path, len(table), len(lits), "serialized length" if kind == "clvm_bytes_len" else "minimal length", len(pts)),
           where=b.fn.sp, found=bad[:6])
    ctx.sample({"rule": R, "fn": path, "rows": [[list(map(_g, g)), out] for g, out in table][:12]})
    ctx.floor(R, "rows:" + kind, len(table), 9)
    return table


def _g(x):
    op, lit, truth = x
    return "%s%s %s" % ("" if truth else "!", op, hex(lit) if isinstance(lit, int) else lit)


def _outcome(b, events, kind):
    if kind == "clvm_bytes_len":
        r = P.ret_of(events)
        r = strip_all(r) if r else None
        return r[2] if r and r[0] == "c" else None
    be = None
    emitted = []
    for e in P.calls(events):
        _, bb, name, args, dest, ct = e
        fl = U.flat(name)
        if kind == "coin_id" and fl.endswith("Sha256::update"):
            emitted.append(strip_all(args[1]))
        if kind == "u64_to_bytes" and (fl.endswith("Vec::push") or fl.endswith("::extend") or fl.endswith("::to_vec")
                                       or fl.endswith("extend_from_slice")):
            emitted.append(strip_all(args[-1]))
    if kind == "coin_id":
        # first two updates: parent, puzzle hash
        if len(emitted) < 3 or not (U.has_field(emitted[0], "parent_coin_info") and U.has_field(emitted[1], "puzzle_hash")):
            return None
        emitted = emitted[2:]
    # alternative layout: one 9-byte buffer `[0; 9]` whose bytes 1.. are overwritten with the big-endian amount (the sign byte
    # and the value in one array); a suffix buf[k..] of it is the same byte string as `0x00 ++ be` from position k
    zbuf = None
    for e in P.calls(events):
        _, bb, name, args, dest, ct = e
        if U.flat(name).endswith("copy_from_slice") and len(args) == 2:
            dst, src = strip_all(args[0]), strip_all(args[1])
            if src[0] == "cast":
                src = strip_all(src[1])
            if _is_be(src) and dst[0] == "call" and "index_mut" in dst[1] and len(dst[2]) == 2:
                base, rng = strip_all(dst[2][0]), strip_all(dst[2][1])
                if base[0] == "repeat" and base[1][0] == "c" and base[1][2] == 0 and str(base[2]) == "9" and \
                        rng[0] == "agg" and "RangeFrom" in str(rng[1]) and rng[3][0][0] == "c" and rng[3][0][2] == 1:
                    zbuf = base
    total = 0
    for t in emitted:
        n = _bytes_len(t, zbuf)
        if n is None:
            return None
        total += n
    return total


def _has_other_array(base, zbuf):
    return any(isinstance(x, tuple) and x and x[0] in ("repeat", "agg") and x != zbuf and (x[0] == "repeat" or x[1] == "array")
               for x in subterms(base))


def _is_be(t):
    return t[0] == "call" and U.flat(t[1]).endswith("to_be_bytes") and (
        t[2][0] == ("arg", 0, "val") or (strip_all(t[2][0])[0] == "f" and strip_all(t[2][0])[2] == "amount"))


def _bytes_len(t, zbuf=None):
    """length of an emitted operand: literal bytes, the 8 big-endian bytes, or a suffix be[k..]"""
    t = strip_all(t)
    if zbuf is not None and t[0] == "call" and "index" in t[1] and len(t[2]) == 2:
        base, rng = strip_all(t[2][0]), strip_all(t[2][1])
        if zbuf in list(subterms(base)) and not _has_other_array(base, zbuf) and rng[0] == "agg" and "RangeFrom" in str(rng[1]):
            k = rng[3][0]
            if k[0] == "c" and 0 <= k[2] <= 9:
                return 9 - k[2]
    if t[0] == "c" and t[1] == "u8":
        return 1 if t[2] == 0 else None       # only the 0x00 sign byte is a legal literal
    if t[0] == "agg" and t[1] == "array" and all(x[0] == "c" and x[2] == 0 for x in t[3]):
        return len(t[3])
    if _is_be(t):
        return 8
    # index(be, RangeFrom(k))
    for x in subterms(t):
        if isinstance(x, tuple) and x and x[0] == "call" and "index" in x[1] and len(x[2]) == 2:
            base, rng = strip_all(x[2][0]), strip_all(x[2][1])
            if _is_be(base) and rng[0] == "agg" and "RangeFrom" in str(rng[1]):
                k = rng[3][0]
                if k[0] == "c":
                    return 8 - k[2]
    return None


# ------------------------------------------------------------------ C11.2
def c11_2(ctx, R="C11.2"):
    b = U.body(ctx, R, "chia_consensus::sanitize_int::sanitize_uint")
    if not b:
        return
    rets = {}
    for bi, k, d, rv in b.ret_assignments():
        if k == "agg" and d[1] == "Ok":
            inner = strip_all(b.rvalue_term(rv))[3][0]
            rets.setdefault(inner[2] if inner[0] == "agg" else "?", []).append((bi, inner))
    # Ok(Ok(v)): v = u64_from_bytes(buf) guarded by len <= size_limit;   Ok(Ok(0)) for the empty atom
    oks = rets.get("Ok", [])
    vals = [(bi, i[3][0]) for bi, i in oks]
    conv = [(bi, v) for bi, v in vals if v[0] == "call" and U.flat(v[1]).endswith("u64_from_bytes")]
    zero = [(bi, v) for bi, v in vals if v[0] == "c" and v[2] == 0]
    ctx.ob(R, "ok-values", len(conv) == 1 and len(zero) == 1 and len(vals) == 2,
           "Ok(value) is u64_from_bytes(buf), or 0 for the empty atom", found=[show(v) for _, v in vals])

    def fits(t, lab):
        return t[0] == "bin" and t[1] == "Gt" and "len" in str(t[2]) and lab == ("bool", False) and \
            any(isinstance(x, tuple) and x and x[0] in ("var", "mutated") or (isinstance(x, tuple) and x and x[0] == "arg" and x[2] == "max_size")
                for x in subterms(t[3]))

    def empty(t, lab):
        return U.has_call(t, "is_empty") and lab == ("bool", True)
    if conv:
        U.must_pass(ctx, R, b, "ok-fits", [conv[0][0]], U.edges_where(b, fits),
                    "a value is returned only when buf.len() <= size_limit (never truncated)")
    if zero:
        U.must_pass(ctx, R, b, "zero-empty", [zero[0][0]], U.edges_where(b, empty), "0 is returned only for the empty atom")
    # size_limit = max_size + 1 iff buf[0] == 0
    lim = b.local_named("size_limit")
    ok = False
    if lim:
        ds = b.defs().get(lim[0], [])
        vals_ = []
        for kind, bi, si, x in ds:
            if kind == "s":
                conds = [(strip_all(t), lab) for t, lab in b.dominating_conditions(bi)]
                lead0 = [lab for t, lab in conds if t[0] == "bin" and t[1] == "Eq" and t[3][0] == "c" and t[3][2] == 0 and "idx" in str(t[2])]
                vals_.append((show(strip_all(b.rvalue_term(x["rv"]))), lead0[-1] if lead0 else None))
        ok = sorted(vals_, key=str) == sorted([("max_size", ("bool", False)), ("(max_size AddWithOverflow 1).0", ("bool", True))], key=str)
        ctx.ob(R, "size-limit", ok, "size_limit = max_size + 1 exactly when buf[0] == 0", found=vals_)
    # negative: (buf[0] & 0x80) != 0
    neg = rets.get("NegativeOverflow", [])

    def topbit(t, lab):
        return t[0] == "bin" and t[1] == "Ne" and strip_all(t[2])[0] == "bin" and strip_all(t[2])[1] == "BitAnd" and \
            U.has_const(t[2], 0x80) and lab == ("bool", True)
    if len(neg) == 1:
        edges = U.edges_where(b, topbit)
        ctx.ob(R, "negative", bool(edges) and b.dominates(edges[0], neg[0][0]),
               "NegativeOverflow is returned exactly under (buf[0] & 0x80) != 0")
    else:
        ctx.missing(R, "negative", "expected one NegativeOverflow exit")
    pos = rets.get("PositiveOverflow", [])

    def toobig(t, lab):
        return t[0] == "bin" and t[1] == "Gt" and "len" in str(t[2]) and lab == ("bool", True)
    if len(pos) == 1:
        edges = [e for e in U.edges_where(b, toobig)]
        ctx.ob(R, "positive", bool(edges) and any(b.dominates(e, pos[0][0]) for e in edges),
               "PositiveOverflow is returned under buf.len() > size_limit")
    else:
        ctx.missing(R, "positive", "expected one PositiveOverflow exit")
    # redundant leading zero => Err(code): an Err exit dominated by a leading-zero test exists and uses `code`
    errs = [bi for bi in b.err_exits()]
    ctx.ob(R, "err-exits", len(errs) >= 2, "pair and non-canonical encodings are rejected", found=len(errs))
    # constants inventory of the canonical test (mask 0x80 used twice, literal [0])
    # (distinct tested operands of branch conditions `(X & 0x80) ==/!= 0`; however the byte is fetched)
    tested = set()
    for node in b.edge_info:
        t, lab = b.edge_condition(node)
        t = strip_all(t)
        if t[0] == "bin" and t[1] in ("Ne", "Eq") and lab[0] == "bool":
            for x, z in ((t[2], t[3]), (t[3], t[2])):
                x, z = strip_all(x), strip_all(z)
                if x[0] == "bin" and x[1] == "BitAnd" and z[0] == "c" and z[2] == 0:
                    for m_, o_ in ((x[2], x[3]), (x[3], x[2])):
                        if strip_all(m_)[0] == "c" and strip_all(m_)[2] == 0x80:
                            tested.add(show(strip_all(o_)))
    masks = len(tested)
    ctx.ob(R, "sign-mask", masks == 2, "sign tests use mask 0x80 on two distinct bytes (buf[0] and buf[1])", found=sorted(tested))
    ctx.sample({"rule": R, "ok": [show(v) for _, v in vals], "neg": len(neg), "pos": len(pos)})
    # canonical leading zero, per path: a value is returned for an atom whose first byte is zero only after a second byte was
    # found with its top bit set.  Contradictory paths (the same byte tested both ways) are dropped; one lemma is used and named:
    # L1 `len <= 1 and buf[0] == 0  =>  buf == [0]` (so `buf != [0]`, `!(len > 1)`, `buf[0] == 0` cannot hold together).
    bad = []
    n_lead = 0
    try:
        ps = P.enumerate_paths(b)
    except P.Budget:
        ps = None
        ctx.missing(R, "leading-zero-paths", "path budget exceeded")
    for ev, ex in ps or []:
        r_ = P.ret_of(ev)
        if ex[0] != "return" or r_ is None or "u64_from_bytes" not in str(r_):
            continue
        cs = [(strip_all(t), l) for t, l in U.canon_int_conds(P.conds(ev))]
        if any(l[0] == "in" and not l[1] for t, l in cs):
            continue
        lead = [t for t, l in cs if t[0] == "idx" and t[2][0] == "c" and t[2][2] == 0 and l == ("in", (0,))]
        if not lead:
            continue
        ne_single = any(t[0] == "call" and t[1].endswith("::eq") and len(t[2]) == 2 and strip_all(t[2][1])[0] == "cb" and
                        tuple(strip_all(t[2][1])[2]) == (0,) and l == ("bool", False) for t, l in cs)
        len_le1 = any(t[0] == "bin" and t[1] == "Gt" and "len" in str(t[2]) and strip_all(t[3])[0] == "c" and strip_all(t[3])[2] == 1 and
                      l == ("bool", False) for t, l in cs)
        if ne_single and len_le1:
            continue        # L1
        n_lead += 1
        sign = [t for t, l in cs if t[0] == "bin" and t[1] == "BitAnd" and strip_all(t[3])[0] == "c" and strip_all(t[3])[2] == 0x80 and
                strip_all(t[2]) != lead[0] and ((l[0] == "notin" and 0 in l[1]) or (l[0] == "in" and l[1] and 0 not in l[1]))]
        if not sign:
            bad.append([show(t)[:60] + " " + str(l) for t, l in cs if "idx" in str(t) or "len" in str(t)][:6])
    if ps is not None:
        ctx.ob(R, "leading-zero-paths", not bad and n_lead >= 1,
               "every path returning a value for an atom with a zero first byte has seen a second byte with its top bit set "
               "(%d such paths)" % n_lead, found=bad[:2] or None, where=b.fn.sp)


# ------------------------------------------------------------------ C11.3
INTS = {"u8": (False, 1), "i8": (True, 1), "u16": (False, 2), "i16": (True, 2), "u32": (False, 4), "i32": (True, 4),
        "u64": (False, 8), "i64": (True, 8), "u128": (False, 16), "i128": (True, 16), "usize": (False, 8), "isize": (True, 8)}


def c11_3(ctx):
    R = "C11.3"
    fb = ctx.fb
    n = 0
    for ty, (signed, width) in INTS.items():
        f = [x for p, x in fb.fns.items() if p.startswith("<%s as clvm_traits::from_clvm::FromClvm<" % ty) and p.endswith("::from_clvm")]
        if len(f) != 1:
            ctx.missing(R, "from_clvm:" + ty, "impl not found")
            continue
        b = Body(f[0], fb)
        ctx.touched(b.path)
        dn = [(name, t) for bi, name, t in b.calls() if "decode_number" in name]
        ok = False
        found = None
        if len(dn) == 1:
            sg = strip_all(b.operand_term(dn[0][1]["args"][1]))
            ga = dn[0][1]["f"].get("args", [])
            found = [show(sg), ga]
            ok = sg[0] == "c" and bool(sg[2]) == signed and ga == [str(width)]
        ctx.ob(R, "from_clvm:" + ty, ok, "decode_number::<%d>(_, signed=%s)" % (width, signed), found=found, where=f[0].sp)
        n += 1
        f = [x for p, x in fb.fns.items() if p.startswith("<%s as clvm_traits::to_clvm::ToClvm<" % ty) and p.endswith("::to_clvm")]
        if len(f) != 1:
            ctx.missing(R, "to_clvm:" + ty, "impl not found")
            continue
        b = Body(f[0], fb)
        ctx.touched(b.path)
        en = [(name, t) for bi, name, t in b.calls() if "encode_number" in name]
        ok = False
        found = None
        if len(en) == 1:
            a0 = strip_all(b.operand_term(en[0][1]["args"][0]))
            a1 = strip_all(b.operand_term(en[0][1]["args"][1]))
            found = [show(a0), show(a1)]
            is_be = U.has_call(a0, "to_be_bytes") and any(isinstance(x, tuple) and x and x[0] == "arg" and x[1] == 0 for x in subterms(a0))
            neg = (a1[0] == "bin" and a1[1] == "Lt" and a1[3][0] == "c" and a1[3][2] == 0 and
                   any(isinstance(x, tuple) and x and x[0] == "arg" and x[1] == 0 for x in subterms(a1[2]))) or \
                  (not signed and a1[0] == "c" and a1[2] == 0)
            ok = is_be and neg
        ctx.ob(R, "to_clvm:" + ty, ok, "encode_number(&self.to_be_bytes(), *self < 0)", found=found, where=f[0].sp)
    ctx.floor(R, "integer impl pairs", n, 12)
    c11_3_sign_tests(ctx)
    c11_4_bigint(ctx)
    c11_5_match_byte(ctx)
    # amounts read by the trusted scans go through the same canonical sanitiser (parse_amount) as full validation (shared with C09.2)
    from . import c09
    c09.c09_2(ctx, R="C11.2")
    # encode_number / decode_number literal inventory (pad bytes by sign, sign mask, padding cap)
    for fn_, want in (("clvm_traits::int_encoding::encode_number", {0xFF, 0x00, 0x80}),
                      ("clvm_traits::int_encoding::decode_number", {0xFF, 0x00, 0x80, 64})):
        b = U.body(ctx, R, fn_)
        if not b:
            continue
        lits = set()
        for bi, blk in enumerate(b.blocks):
            if bi not in b.reach:
                continue
            for s in blk["s"]:
                if s["k"] == "assign" and not s.get("exp"):
                    for x in subterms(b.rvalue_term(s["rv"])):
                        if isinstance(x, tuple) and x and x[0] == "c" and x[1] in ("u8", "usize") and isinstance(x[2], int):
                            lits.add(x[2])
        ctx.ob(R, "literals:" + fn_.split("::")[-1], want <= lits,
               "pad bytes 0xFF/0x00 selected by sign, sign mask 0x80%s" % (", MAX_PADDING_BYTES 64" if 64 in want else ""),
               expected=sorted(want), found=sorted(lits))
        # pad byte is 0xFF on the negative branch and 0x00 otherwise
        pad = b.local_named("pad_byte") or b.local_named("padding_byte")
        if pad:
            ds = b.defs().get(pad[0], [])
            tab = {}
            for kind, bi, si, x in ds:
                if kind != "s":
                    continue
                v = strip_all(b.rvalue_term(x["rv"]))
                nc = b.nearest_condition(bi)
                if nc and nc[1][0] == "bool":
                    tab[nc[1][1]] = v[2] if v[0] == "c" else None
            ctx.ob(R, "pad-by-sign:" + fn_.split("::")[-1], tab == {True: 0xFF, False: 0x00},
                   "pad byte = 0xFF when negative, 0x00 otherwise", found=tab)


def c11_3_sign_tests(ctx):
    """decode_number evaluates the sign bit `slice[0] & 0x80 != 0` exactly three times, each directly under a branch on the
    `signed` parameter: once with signed == false (negative atoms are rejected for unsigned types) and twice with
    signed == true (before and after stripping padding; the two must agree, else the value does not fit the width).
    If the second evaluation is conditioned on anything else (e.g. on the first result) a positive value one sign byte too
    wide is accepted and wraps."""
    R = "C11.3"
    b = U.body(ctx, R, "clvm_traits::int_encoding::decode_number")
    if not b:
        return
    want = "('Ne', ('BitAnd', ('[]', 'var:slice', 0), 128), 0)"
    sites = []   # (block, kind)

    def under(node_or_block):
        out = []
        for t, lab in b.dominating_conditions(node_or_block):
            st = strip_all(t)
            if st and st[0] == "arg" and st[2] == "signed" and lab[0] == "bool":
                out.append(lab[1])
        return out
    seen_blocks = set()
    for node in b.edge_info:
        sb = b.edge_info[node][0]
        if sb not in b.reach or sb in seen_blocks:
            continue
        t, lab = b.edge_condition(node)
        if str(apnf.N(t)) == want:
            seen_blocks.add(sb)
            sites.append(("branch", tuple(under(sb))))
    for bi, blk in enumerate(b.blocks):
        if bi not in b.reach:
            continue
        for st in blk["s"]:
            if st["k"] == "assign" and not st["pl"].get("p") and st["pl"]["l"] in b.names and str(apnf.N(b.rvalue_term(st["rv"]))) == want:
                sites.append(("value:" + b.names[st["pl"]["l"]][:0], tuple(under(bi))))
    got = sorted((k.split(":")[0], u) for k, u in sites)
    exp = sorted([("branch", (False,)), ("value", (True,)), ("value", (True,))])
    ctx.ob(R, "decode_number:sign-tests", got == exp,
           "the sign bit is evaluated once under !signed (reject) and twice under signed (before/after padding removal)",
           expected=[str(x) for x in exp], found=[str(x) for x in got], where=b.fn.sp)
    ne = U.edges_where(b, lambda t, lab: str(apnf.N(t)).startswith("('Ne', 'var:") and lab == ("bool", True))
    ok = len(ne) == 1 and not b.reachable_avoiding(ne[0], b.ok_exits(), []) if ne else False
    ctx.ob(R, "decode_number:sign-agreement", bool(ne) and ok, "a value whose sign changes when the padding is removed is rejected",
           where=b.fn.sp)


def c11_4_bigint(ctx):
    """the provided ClvmEncoder::encode_bigint (used by every encoder that does not override it, e.g. the hash-only
    TreeHasher) produces the interpreter's form: it starts from the *two's-complement* big-endian bytes of the number
    (to_signed_bytes_be -- not sign+magnitude), removes a leading 0x00 only while the next byte's top bit is clear (and the
    slice has more than one byte... down to the empty atom for zero), and hands exactly that slice to encode_atom.
    The Allocator override is new_number (the interpreter itself)."""
    R = "C11.4"
    b = U.body(ctx, R, "clvm_traits::clvm_encoder::ClvmEncoder::encode_bigint")
    if b:
        calls_ = [(U.flat(n).split("::")[-1], [str(apnf.N(b.operand_term(a))) for a in t["args"]]) for bi, n, t in b.calls()]
        names = [c[0] for c in calls_]
        src_ok = names.count("to_signed_bytes_be") == 1 and not any(x in names for x in ("to_bytes_be", "to_bytes_le", "to_signed_bytes_le", "magnitude", "encode_number"))
        sl = b.local_named("slice")
        defs_ok = False
        if sl:
            ds = set()
            for d in b.defs().get(sl[0], []):
                ds.add(str(apnf.N(b.rvalue_term(d[3]["rv"]))) if d[0] == "s" else str(apnf.N(b.call_term(d[3]))))
            defs_ok = ds == {"('Vec::as_slice', ('BigInt::to_signed_bytes_be', 'number'))", "('index', 'var:slice', ('RangeFrom::RangeFrom', 1))"}
        enc = [c for c in calls_ if c[0] == "encode_atom"]
        out_ok = len(enc) == 1 and enc[0][1][1] == "('Atom::Borrowed', 'var:slice')"
        conds = set()
        for node in b.edge_info:
            if b.edge_info[node][0] in b.reach:
                t, lab = b.edge_condition(node)
                conds.add(str(apnf.N(t)))
        cond_ok = conds == {"('is_empty', 'var:slice')", "('Eq', ('[]', 'var:slice', 0), 0)", "('Gt', ('len', 'var:slice'), 1)",
                            "('Eq', ('BitAnd', ('[]', 'var:slice', 1), 128), 128)"}
        ctx.ob(R, "default-encode_bigint", src_ok and defs_ok and out_ok and cond_ok,
               "default encode_bigint = strip redundant leading 0x00 from to_signed_bytes_be(number) and encode that slice",
               found={"calls": names, "slice-defs": defs_ok, "conds": sorted(conds)}, where=b.fn.sp)
    ob = U.body(ctx, R, "<clvmr::allocator::Allocator as clvm_traits::clvm_encoder::ClvmEncoder>::encode_bigint")
    if ob:
        names = [U.flat(n).split("::")[-1] for bi, n, t in ob.calls()]
        ctx.ob(R, "allocator-encode_bigint", "new_number" in names, "the Allocator encoder delegates big integers to Allocator::new_number", found=names)


def c11_5_match_byte(ctx):
    """MatchByte<BYTE> (opcode / operator constants in typed CLVM structures) uses the canonical integer form for all 256 values
    of BYTE: the decoder's accepting paths are evaluated as a decision table over (BYTE, candidate atom): it accepts exactly
    [] for 0, [BYTE] for 1..=0x7f and [0x00, BYTE] for 0x80..=0xff; the encoder dispatches on the same two thresholds."""
    R = "C11.5"
    fb = ctx.fb
    f = fb.fns.get("<clvm_traits::match_byte::MatchByte<BYTE> as clvm_traits::from_clvm::FromClvm<D>>::from_clvm")
    if f is None:
        return ctx.missing(R, "match-byte:decoder", "impl not found")
    b = Body(f, fb)
    ctx.touched(b.path)
    paths_ = []
    unknown = set()
    A = "('decode_atom', 'decoder', 'node')"
    for ev, ex in P.enumerate_paths(b):
        if ex[0] != "return":
            continue
        conds = []
        for t, l in P.conds(ev):
            st = str(apnf.N(t))
            conds.append((st, l))
        paths_.append((conds, P.ret_class(ev)))

    def holds(st, lab, v, atom):
        """truth of one path condition for BYTE = v and the candidate atom; None = unknown form"""
        def val(x):
            if x == "('cparam', 'BYTE')":
                return v
            if x == "('PtrMetadata', %s)" % A:
                return len(atom)
            for k in (0, 1):
                if x == "('[]', %s, %d)" % (A, k):
                    return atom[k] if k < len(atom) else None
            try:
                return int(x)
            except ValueError:
                return "?"
        if st == A:
            return lab == ("try", True)
        m = None
        for op in ("Eq", "Ne", "Lt", "Le", "Gt", "Ge"):
            if st.startswith("('%s', " % op):
                m = op
        if m:
            inner = st[len("('%s', " % m):-1]
            # split top-level ", "
            depth, cut = 0, None
            for i, ch in enumerate(inner):
                if ch == "(":
                    depth += 1
                elif ch == ")":
                    depth -= 1
                elif ch == "," and depth == 0:
                    cut = i
                    break
            if cut is None:
                return None
            a_, b_ = val(inner[:cut].strip()), val(inner[cut + 1:].strip())
            if a_ == "?" or b_ == "?":
                return None
            if a_ is None or b_ is None:
                return False if lab == ("bool", True) else True
            r = {"Eq": a_ == b_, "Ne": a_ != b_, "Lt": a_ < b_, "Le": a_ <= b_, "Gt": a_ > b_, "Ge": a_ >= b_}[m]
            return r == lab[1] if lab[0] == "bool" else None
        x = val(st)
        if x not in ("?",) and lab[0] in ("in", "notin"):
            if x is None:
                return False
            return (x in lab[1]) == (lab[0] == "in")
        return None

    bad = []
    n = 0
    for v in range(256):
        canon = [] if v == 0 else ([v] if v < 0x80 else [0, v])
        for atom in ([], [v], [0, v], [v, 0], [0, v ^ 1], [v ^ 0x80], [0, 0, v]):
            n += 1
            verdicts = []
            for conds, rc in paths_:
                ok = True
                for st, lab in conds:
                    h = holds(st, lab, v, atom)
                    if h is None:
                        unknown.add(st[:80])
                        ok = False
                        break
                    if not h:
                        ok = False
                        break
                if ok:
                    verdicts.append(rc)
            want = "Ok" if atom == canon else "Err"
            if verdicts != [want]:
                bad.append((v, atom, verdicts))
    ctx.ob(R, "match-byte:decoder", not bad and not unknown,
           "MatchByte<BYTE>::from_clvm accepts exactly the canonical integer atom of BYTE (table over all 256 values x 7 candidate atoms)",
           found=(sorted(unknown)[:2] or bad[:3]) or None, where=f.sp)
    ctx.floor(R, "MatchByte decision-table cells", n, 1792)
    f2 = fb.fns.get("<clvm_traits::match_byte::MatchByte<BYTE> as clvm_traits::to_clvm::ToClvm<E>>::to_clvm")
    if f2:
        b2 = Body(f2, fb)
        guards = set()
        for ev, ex in P.enumerate_paths(b2):
            guards.add(frozenset((str(apnf.N(t)), l[1]) for t, l in P.conds(ev)))
        e0, l8 = "('Eq', ('cparam', 'BYTE'), 0)", "('Lt', ('cparam', 'BYTE'), 128)"
        exp = {frozenset({(e0, True)}), frozenset({(e0, False), (l8, True)}), frozenset({(e0, False), (l8, False)})}
        ctx.ob(R, "match-byte:encoder", guards == exp, "MatchByte<BYTE>::to_clvm dispatches on BYTE == 0 and BYTE < 0x80", found=sorted(map(str, guards ^ exp))[:2] or None)
