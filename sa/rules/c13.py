"""C13 — wire encoding canonical and consistent with hashing.

Decided (structural, necessary conditions only):
  C13.1a for every Streamable impl, per data-dependent path, `stream` and `update_digest` emit the same token
         sequence (field, type / raw bytes) — the streaming hash is the hash of the encoding
  C13.1b for every struct impl, `parse` reads the same types in the same order and stores each value in the
         field it was streamed from (versioned hand-written codecs: by matching each accepting parse path with the
         stream path selected by the value it constructs, prefix bytes decided on the 256-value table)
  C13.2  strict tags: bool / Option accept exactly {0,1}; derived enums accept exactly their discriminants
  C13.3  framing: from_bytes / from_bytes_unchecked accept only when the cursor consumed everything;
         Vec/String/Bytes writers reject lengths > u32::MAX and prefix `len as u32` of the same collection
  C13.4  the TRUSTED parameter is only forwarded, except at the enumerated sites (BLS subgroup checks, Program)
"""
import re
from .. import paths as P
from ..mir import Body, strip_all, show, subterms
from . import util as U

TR = "chia_traits::streamable::Streamable"
RX = re.compile(r"^<(.*) as chia_traits::streamable::Streamable>::(stream|update_digest|parse)(::<.*>)?$")


def streamable_impls(fb):
    """{self_ty: {method: Fn}} for every Streamable impl in production scope"""
    out = {}
    for p, f in fb.fns.items():
        m = RX.match(p)
        if m and f.e["kind"] == "AssocFn":
            out.setdefault(m.group(1), {})[m.group(2)] = f
    return out


def _norm_bytes(t):
    """normalise a raw-bytes operand: literal bytes -> ('bytes', (..)); otherwise the stripped term"""
    t = strip_all(t)
    if t[0] == "c" and t[1] in ("u8",):
        return ("bytes", (t[2],))
    if t[0] == "cb":
        return ("bytes", tuple(t[2]))
    if t[0] == "agg" and t[1] == "array" and all(x[0] == "c" for x in t[3]):
        return ("bytes", tuple(x[2] for x in t[3]))
    if t[0] == "cast" and t[2] in ("&[u8]", "&[u8; 1]"):
        return _norm_bytes(t[1])
    return _strip_views(t)


LEN_CALLS = ("len",)


VIEW_CALLS = ("as_bytes", "as_slice", "as_ref", "deref", "borrow", "bytes", "to_vec", "into_iter", "iter", "as_str")


def _strip_views(t):
    """drop byte-view adaptors (as_slice/as_ref/deref/...) so that &x, x.as_ref(), x.as_slice() compare equal;
    call sites are dropped too (tokens are compared across functions)"""
    if not isinstance(t, tuple):
        return t
    if t and t[0] == "call" and len(t) == 4:
        t = t[:3]
    if t and t[0] == "call" and len(t[2]) == 1 and U.flat(t[1]).split("::")[-1] in VIEW_CALLS:
        return _strip_views(t[2][0])
    if t and t[0] == "call" and len(t[2]) == 1 and U.flat(t[1]).split("::")[-1] == "len":
        return ("len", _strip_views(t[2][0]))
    if t and t[0] == "cast" and ("[u8]" in t[2] or "&" in t[2]):
        return _strip_views(t[1])
    return tuple(_strip_views(x) for x in t)


# helper codecs that are themselves a (stream, update_digest, parse) trio, checked separately
HELPERS = {
    "chia_protocol::utils::stream": "option-pair",
    "chia_protocol::utils::update_digest": "option-pair",
    "chia_protocol::utils::parse": "option-pair",
}


def _is_sink(a, local):
    x = a
    while isinstance(x, tuple) and x and x[0] == "mutated":
        x = x[1]
    if isinstance(x, tuple) and x and x[0] == "refmut" and x[1] == local:
        return True
    return isinstance(x, tuple) and x and x[0] == "arg" and x[1] == local - 1


def out_tokens(b, events, sink_local):
    """tokens written to the sink (out: &mut Vec<u8> / digest: &mut Sha256) along one path"""
    toks = []
    for e in P.calls(events):
        _, bb, name, args, dest, ct = e
        pos = [i for i, a in enumerate(args) if _is_sink(a, sink_local)]
        if not pos:
            continue
        m = RX.match(name)
        if m:
            toks.append(("T", m.group(1), _strip_views(strip_all(args[0]))))
            continue
        fl = U.flat(name)
        if fl in HELPERS:
            toks.append(("H", HELPERS[fl], tuple(_strip_views(strip_all(a)) for i, a in enumerate(args) if i not in pos)))
            continue
        last = fl.split("::")[-1]
        if last in ("push", "extend_from_slice", "update", "extend", "write_all", "extend_from_within"):
            others = [a for i, a in enumerate(args) if i not in pos]
            toks.append(("B", _norm_bytes(others[0]) if others else None))
            continue
        toks.append(("?", fl, tuple(_strip_views(strip_all(a)) for i, a in enumerate(args) if i not in pos)))
    return toks


def self_conds(events, data_args=(0,)):
    """branch decisions that depend on the value being encoded (not on `?` results)"""
    out = []
    for t, lab in U.canon_int_conds(P.conds(events)):
        if lab[0] == "try":
            continue
        if U.has_arg(t, "self") or any(isinstance(x, tuple) and x and x[0] == "arg" and x[1] in data_args for x in subterms(t)):
            out.append((show(_strip_views(t)), lab))
    return frozenset(out)


def path_map(b, sink_local, want, data_args=(0,)):
    """{self-conditions: [token sequences]} over the paths with result class in `want`"""
    m = {}
    n = 0
    for events, ex in P.enumerate_paths(b):
        if ex[0] != "return":
            continue
        rc = P.ret_class(events)
        if rc not in want:
            continue
        n += 1
        m.setdefault(self_conds(events, data_args), set()).add(tuple(out_tokens(b, events, sink_local)))
    return m, n


def run(ctx):
    ctx.explanation = (
        "TRIO rule over the MIR of every Streamable impl in the workspace (derived and hand-written): per data-dependent "
        "path the token sequences of stream and update_digest are equal, parse reads the same types in the same order into "
        "the same fields; strict tag tables of bool/Option/enums; framing checks of from_bytes*, length prefixes; uses of the "
        "TRUSTED const parameter. Decides these structural clauses; byte-level bijectivity follows only for types built from "
        "the analysed combinators (Program, BLS elements, pos2 quality strings are trusted).")
    ctx.trusted += ["clvmr::serde::serialized_length_from_bytes*", "blst point (de)compression", "chia-pos2 quality strings", "SHA-256"]
    ctx.assumptions += ["N: decode(encode(v)) == v on values and encode(decode(b)) == b on bytes are implied only for types "
                        "built from the analysed combinators"]
    impls = streamable_impls(ctx.fb)
    ctx.floor("C13.1", "Streamable impls with all three methods",
              sum(1 for t, m in impls.items() if len(m) == 3), 150)
    c13_1a(ctx, impls)
    c13_1b(ctx, impls)
    c13_1c(ctx)
    c13_2(ctx, impls)
    c13_3(ctx, impls)
    c13_4(ctx, impls)
    from . import pycodec
    pycodec.run(ctx, "C13.W", parts=("bytes", "hash"))
    # "trusted and untrusted decoding agree on every input the untrusted decoder accepts": the untrusted decoder must be the
    # validating one (shared with C14.5)
    from . import c14
    _roots, _seen, _impls = c14.closure(ctx)
    c14.c14_5_trust(ctx, _seen, R="C13.4")
    c13_vec_count(ctx, impls)
    c13_defaults_and_g2(ctx)
    c13_errors_propagate(ctx, impls)


# ------------------------------------------------------------------ C13.1a
DIGEST_EXCEPTIONS = {
    # statement: "for version-2 proofs of space: of the encoding with the proof replaced by its quality-string commitment"
    "chia_protocol::proof_of_space::ProofOfSpace": "v2-quality-string",
}


def c13_1a(ctx, impls):
    R = "C13.1a"
    n = 0
    for ty, ms in sorted(impls.items()):
        if "stream" not in ms or "update_digest" not in ms:
            ctx.missing(R, "impl:" + ty, "stream/update_digest missing")
            continue
        bs = Body(ms["stream"], ctx.fb)
        bd = Body(ms["update_digest"], ctx.fb)
        ctx.touched(bs.path, bd.path)
        try:
            ms_map, ns = path_map(bs, 2, ("Ok", "call"))
            md_map, nd = path_map(bd, 2, ("unit", "other", "call"))
        except P.Budget:
            ctx.missing(R, "impl:" + ty, "path budget exceeded")
            continue
        n += 1
        if ty in DIGEST_EXCEPTIONS:
            _pos_digest(ctx, R, ty, ms_map, md_map)
            continue
        ok = True
        detail = ""
        # every accepting stream path has a digest path under the same data conditions with the same tokens
        for conds, seqs in ms_map.items():
            dseqs = _lookup(md_map, conds)
            if dseqs is None:
                ok = False
                detail = "no update_digest path for data conditions %s" % sorted(conds)
                break
            if seqs != dseqs:
                ok = False
                detail = "stream %s != update_digest %s under %s" % (_fmt(seqs), _fmt(dseqs), sorted(conds))
                break
        if ok:
            for conds in md_map:
                if _lookup(ms_map, conds) is None and not _diverging(conds):
                    # digest paths for data that stream rejects (e.g. Vec longer than u32::MAX): informational
                    ctx.note("%s: update_digest has a path with no accepting stream counterpart: %s" % (ty, sorted(conds)))
        ctx.ob(R, "impl:" + ty, ok, detail or "stream == update_digest on %d data paths" % len(ms_map), where=ms["stream"].sp)
        if n <= 3 or ty.endswith("FullBlock"):
            ctx.sample({"rule": R, "type": ty, "paths": {str(sorted(k)): _fmt(v) for k, v in list(ms_map.items())[:4]}})
    ctx.floor(R, "impls compared", n, 150)


def _lookup(m, conds):
    if conds in m:
        return m[conds]
    # the other method may test fewer conditions (e.g. the length guard exists only in stream):
    # take the most specific entries whose conditions are implied
    sub = [(len(k), v) for k, v in m.items() if k <= conds]
    if sub:
        mx = max(n for n, _ in sub)
        u = set()
        for n, v in sub:
            if n == mx:
                u |= v
        return u
    sup = [v for k, v in m.items() if conds <= k]
    if sup:
        u = set()
        for v in sup:
            u |= v
        return u
    return None


def _diverging(conds):
    return False


def _fmt(seqs):
    out = []
    for s in sorted(seqs, key=str)[:3]:
        out.append([_tok(t) for t in s])
    return out


def _tok(t):
    if t[0] == "T":
        return "%s:%s" % (show(t[2]), t[1].split("::")[-1] if "<" not in t[1] else t[1])
    if t[0] == "B":
        return "raw:%s" % (show(t[1]) if t[1] and t[1][0] != "bytes" else list(t[1][1]))
    return str(t)


def _pos_digest(ctx, R, ty, ms_map, md_map):
    """ProofOfSpace: identical except that on version-1 (v2 plot) paths the `proof` bytes token is replaced
    by the quality string commitment"""
    ok = True
    detail = []
    for conds, seqs in ms_map.items():
        dseqs = _lookup(md_map, conds)
        if dseqs is None:
            ok = False
            detail.append("no digest path for %s" % sorted(conds))
            continue
        if seqs == dseqs:
            continue
        # allowed difference: exactly one token, stream has self.proof, digest has quality_string-derived bytes
        for s in seqs:
            good = False
            for d in dseqs:
                if len(s) != len(d):
                    continue
                diff = [(a, c) for a, c in zip(s, d) if a != c]
                if len(diff) == 1 and U.has_field(diff[0][0][-1], "proof") and "quality" in str(diff[0][1]):
                    good = True
            if not good:
                ok = False
                detail.append("stream %s vs digest %s" % (_fmt({s}), _fmt(dseqs)))
    ctx.ob(R, "impl:" + ty, ok, "; ".join(detail) or
           "stream == update_digest except proof -> quality-string commitment on v2 paths (statement's exception)")


# ------------------------------------------------------------------ C13.1c
def c13_1c(ctx):
    """the shared-prefix option-pair helper (chia_protocol::utils) is itself a codec trio used by three block types"""
    R = "C13.1c"
    fb = ctx.fb
    fs = {k: fb.fns.get("chia_protocol::utils::" + k) for k in ("stream", "update_digest", "parse")}
    if not all(fs.values()):
        return ctx.missing(R, "option-pair helper", "chia_protocol::utils::{stream,update_digest,parse} not found")
    bs, bd, bp = (Body(fs[k], fb) for k in ("stream", "update_digest", "parse"))
    ctx.touched(bs.path, bd.path, bp.path)
    ms_map, ns = path_map(bs, 3, ("Ok", "call"), data_args=(0, 1))
    md_map, nd = path_map(bd, 3, ("unit", "other", "call"), data_args=(0, 1))
    ok = set(ms_map) == set(md_map) and len(ms_map) == 4 and all(ms_map[k] == md_map[k] and len(ms_map[k]) == 1 for k in ms_map)
    ctx.ob(R, "helper:stream==update_digest", ok, "option-pair helper: stream and update_digest emit the same tokens on each of the four (first, second) presence cases",
           found={str(sorted(k)): (_fmt(ms_map.get(k, set())), _fmt(md_map.get(k, set()))) for k in set(ms_map) | set(md_map) if ms_map.get(k) != md_map.get(k)} or None,
           where=fs["update_digest"].sp)
    from . import c13_versioned
    c13_versioned.helper(ctx, R, bs, bp, fs["stream"].e["arg_names"][:2])


# ------------------------------------------------------------------ C13.1b
def parse_tokens(b, events):
    """[(type, call-term)] of the reads from the input cursor along one path"""
    toks = []
    for e in P.calls(events):
        _, bb, name, args, dest, ct = e
        if not any(_is_sink(a, 1) for a in args):
            continue
        m = RX.match(name)
        if m and m.group(2) == "parse":
            toks.append(("T", m.group(1), ct))
            continue
        fl = U.flat(name)
        if fl.endswith("read_bytes"):
            toks.append(("R", strip_all(args[1]), ct))
            continue
        toks.append(("?", fl, ct))
    return toks


def _payload_site(t):
    """if term t is the unwrapped (`?`) result of a cursor read, return that read's call term"""
    x = strip_all(t)
    # ('f', ('dc', call Try::branch(call parse ..), 'Continue'), '0')
    if x[0] == "f" and x[2] == "0" and x[1][0] == "dc" and x[1][2] == "Continue":
        br = x[1][1]
        if br[0] == "call" and br[1].endswith("branch") and br[2]:
            inner = strip_all(br[2][0])
            if inner[0] == "call":
                return inner
    return None


def c13_1b(ctx, impls):
    R = "C13.1b"
    fb = ctx.fb
    n_struct = 0
    special = []
    for ty, ms in sorted(impls.items()):
        base = ty.split("<")[0]
        adt = fb.adts.get(base)
        if not adt or adt["kind"] != "Struct" or "parse" not in ms or "stream" not in ms:
            continue
        bs = Body(ms["stream"], fb)
        bp = Body(ms["parse"], fb)
        ctx.touched(bp.path)
        try:
            s_paths = [(e, x) for e, x in P.enumerate_paths(bs) if x[0] == "return" and P.ret_class(e) == "Ok"]
            p_paths = [(e, x) for e, x in P.enumerate_paths(bp) if x[0] == "return" and P.ret_class(e) == "Ok"]
        except P.Budget:
            ctx.missing(R, "struct:" + ty, "path budget exceeded")
            continue
        if len(s_paths) != 1 or len(p_paths) != 1:
            special.append(ty)
            continue
        n_struct += 1
        stoks = out_tokens(bs, s_paths[0][0], 2)
        ptoks = parse_tokens(bp, p_paths[0][0])
        fields = [f["name"] for f in adt["variants"][0]["fields"]]
        # aggregate built by parse
        agg = strip_all(P.ret_of(p_paths[0][0]))
        built = None
        if agg[0] == "agg" and agg[2] == "Ok":
            inner = agg[3][0]
            if inner[0] == "agg" and inner[1] == base:
                built = inner[3]
        # hand-written newtype-ish impls (BytesImpl, Bytes, Program, BLS): not of this linear shape
        if not all(t[0] == "T" for t in stoks) or not all(t[0] == "T" for t in ptoks) or built is None:
            special.append(ty)
            n_struct -= 1
            continue
        ok = True
        detail = ""
        if len(stoks) != len(ptoks):
            ok, detail = False, "stream writes %d items, parse reads %d" % (len(stoks), len(ptoks))
        else:
            streamed_fields = []
            for k, (st, pt) in enumerate(zip(stoks, ptoks)):
                if st[1] != pt[1]:
                    ok, detail = False, "item %d: stream type %s, parse type %s" % (k, st[1], pt[1])
                    break
                fv = st[2]
                if not (fv[0] == "f" and fv[1][0] == "arg" and fv[1][1] == 0):
                    ok, detail = False, "item %d: stream operand is not a field of self: %s" % (k, show(fv))
                    break
                fname = fv[2]
                streamed_fields.append(fname)
                if fname not in fields:
                    ok, detail = False, "unknown field %s" % fname
                    break
                site = _payload_site(built[fields.index(fname)])
                if site != strip_all(pt[2]):
                    ok, detail = False, ("field `%s` is streamed at position %d but parse fills it from %s" % (
                        fname, k, show(built[fields.index(fname)])))
                    break
            if ok and sorted(streamed_fields) != sorted(fields):
                ok, detail = False, "fields not covered exactly once: streamed %s, struct has %s" % (streamed_fields, fields)
        ctx.ob(R, "struct:" + ty, ok, detail or "parse mirrors stream over %d fields" % len(fields), where=ms["parse"].sp)
        if n_struct <= 2:
            ctx.sample({"rule": R, "type": ty, "stream": [_tok(t) for t in stoks], "parse": [t[1] for t in ptoks]})
    ctx.floor(R, "linear struct codecs", n_struct, 120)
    ctx.note("struct impls not of the linear derived shape (handled by dedicated rules or trusted): %s" % special)
    from . import c13_versioned
    c13_versioned.run(ctx, impls, special)


# ------------------------------------------------------------------ C13.2
def c13_2(ctx, impls):
    R = "C13.2"
    fb = ctx.fb
    # bool and Option<T>: read one byte, accept exactly {0,1}
    for ty, want in (("bool", {0: "false", 1: "true"}), ("core::option::Option<T>", {0: "None", 1: "Some"})):
        ms = impls.get(ty)
        if not ms:
            ctx.missing(R, "tags:" + ty, "impl not found")
            continue
        b = Body(ms["parse"], fb)
        ctx.touched(b.path)
        got = {}
        other_ok = False
        for events, ex in P.enumerate_paths(b):
            rc = P.ret_class(events)
            for t, lab in P.conds(events):
                if lab[0] in ("in", "notin") and U.has_call(t, "read_bytes"):
                    if lab[0] == "in" and rc == "Ok":
                        r = strip_all(P.ret_of(events))[3][0]
                        for v in lab[1]:
                            got[v] = ("true" if r[2] else "false") if r[0] == "c" else r[2]
                    if lab[0] == "in" and rc != "Ok" and not any(l2[0] == "try" and l2[1] is False for _, l2 in P.conds(events)):
                        got[lab[1][0]] = "Err"
                    if lab[0] == "notin" and rc == "Ok":
                        other_ok = True
        ctx.ob(R, "tags:" + ty, got == want and not other_ok,
               "parse accepts exactly the tag bytes %s" % want, found=got, where=ms["parse"].sp)
        # writers emit only those
        for meth, sink in (("stream", 2), ("update_digest", 2)):
            bw = Body(ms[meth], fb)
            lits = set()
            for events, ex in P.enumerate_paths(bw):
                for tk in out_tokens(bw, events, sink):
                    if tk[0] == "B" and tk[1] and tk[1][0] == "bytes":
                        lits.add(tk[1][1])
            ctx.ob(R, "tags-written:%s:%s" % (ty, meth), lits == {(0,), (1,)}, "%s writes only the tag bytes 0/1" % meth, found=sorted(lits))
    # derived enums: accepted byte values == declared discriminants, each mapped to its own variant
    n_enum = 0
    for ty, ms in sorted(impls.items()):
        adt = fb.adts.get(ty)
        if not adt or adt["kind"] != "Enum" or "parse" not in ms:
            continue
        n_enum += 1
        b = Body(ms["parse"], fb)
        ctx.touched(b.path)
        want = {int(v["discr"]): v["name"] for v in adt["variants"]}
        got = {}
        bad = False
        for events, ex in P.enumerate_paths(b):
            if P.ret_class(events) != "Ok":
                continue
            r = strip_all(P.ret_of(events))[3][0]
            labs = [lab for t, lab in P.conds(events) if lab[0] in ("in", "notin")]
            if len(labs) != 1 or labs[0][0] != "in" or r[0] != "agg":
                bad = True
                continue
            for v in labs[0][1]:
                got[v] = r[2]
        ctx.ob(R, "enum:" + ty, (not bad) and got == want, "parse maps exactly the declared discriminants to their variants",
               expected=want, found=got, where=ms["parse"].sp)
        # stream writes `*self as u8`
        bs = Body(ms["stream"], fb)
        ok = False
        for events, ex in P.enumerate_paths(bs):
            if P.ret_class(events) not in ("Ok", "call"):
                continue
            tk = out_tokens(bs, events, 2)
            ok = len(tk) == 1 and tk[0][0] == "T" and tk[0][1] == "u8" and _is_self_as_u8(tk[0][2])
        ctx.ob(R, "enum-stream:" + ty, ok, "stream writes the discriminant (`*self as u8`)", where=ms["stream"].sp)
    ctx.floor(R, "derived enum codecs", n_enum, 4)


def _is_self_as_u8(t):
    # cast(discr(self)) / cast(self) as u8
    for x in subterms(t):
        if isinstance(x, tuple) and x and x[0] == "cast" and x[2] == "u8":
            return any(isinstance(y, tuple) and y and y[0] == "arg" and y[1] == 0 for y in subterms(x))
    return False


# ------------------------------------------------------------------ C13.3
def framing(ctx, R):
    """from_bytes / from_bytes_unchecked accept only fully consumed input, in the right trust mode, and are never overridden"""
    fb = ctx.fb
    for nm in ("from_bytes", "from_bytes_unchecked"):
        b = U.body(ctx, R, "chia_traits::streamable::Streamable::" + nm)
        if not b:
            continue

        def consumed(t, lab):
            if t[0] != "bin" or t[1] not in ("Eq", "Ne"):
                return False
            pos = U.has_call(t, "Cursor::position")
            ln = U.has_call(t, "::len") and U.has_arg(t, "bytes")
            return pos and ln and lab == ("bool", t[1] == "Eq")
        edges = U.edges_where(b, consumed)
        U.must_pass(ctx, R, b, nm + ":all-consumed", b.ok_exits(), edges,
                    "%s returns Ok only when cursor.position() == bytes.len()" % nm)
        calls_ = [n_ for _, n_, _ in b.calls() if "Streamable" in n_ and "parse" in n_]
        want = "false" if nm == "from_bytes" else "true"
        ctx.ob(R, nm + ":trust-mode", len(calls_) == 1 and ("parse::<%s>" % want) in calls_[0],
               "%s parses with TRUSTED=%s" % (nm, want), found=calls_)
    # default methods overridden anywhere?  (an override could skip the framing check)
    over = [p for p in fb.fns if re.match(r"^<.* as chia_traits::streamable::Streamable>::(from_bytes|from_bytes_unchecked|to_bytes|hash)$", p)]
    ctx.ob(R, "no-overrides", not over, "no impl overrides from_bytes/from_bytes_unchecked/to_bytes/hash", found=over)


def c13_3(ctx, impls):
    R = "C13.3"
    fb = ctx.fb
    framing(ctx, R)
    # length prefixes: Vec<T>, String, Bytes
    for ty in ("alloc::vec::Vec<T>", "alloc::string::String", "chia_protocol::bytes::Bytes"):
        ms = impls.get(ty)
        if not ms:
            ctx.missing(R, "len:" + ty, "impl not found")
            continue
        b = Body(ms["stream"], fb)
        ctx.touched(b.path)

        def fits(t, lab):
            # (len > u32::MAX) false
            if t[0] != "bin":
                return False
            big = any(isinstance(x, tuple) and x and x[0] in ("c",) and x[2] == 0xFFFFFFFF for x in subterms(t)) or \
                any(isinstance(x, tuple) and x and x[0] == "cast" and x[1][0] == "c" and x[1][2] == 0xFFFFFFFF for x in subterms(t))
            if not big or not U.has_call(t, "::len"):
                return False
            return (t[1] == "Gt" and lab == ("bool", False)) or (t[1] == "Le" and lab == ("bool", True))
        edges = U.edges_where(b, fits)
        U.must_pass(ctx, R, b, "len:%s:fits-u32" % ty, b.ok_exits(), edges, "stream succeeds only if len <= u32::MAX")
        # the prefix written is `len as u32` of self
        ok = False
        for events, ex in P.enumerate_paths(b):
            if P.ret_class(events) != "Ok":
                continue
            tk = out_tokens(b, events, 2)
            if tk and tk[0][0] == "T" and tk[0][1] == "u32":
                v = tk[0][2]
                ok = (U.has_call(v, "::len") or "'len'" in str(v)) and any(isinstance(y, tuple) and y and y[0] == "arg" and y[1] == 0 for y in subterms(v))
        ctx.ob(R, "len:%s:prefix" % ty, ok, "first item written is (self.len() as u32)")


# ------------------------------------------------------------------ C13.4
TRUSTED_SITES = {
    "<chia_bls::public_key::PublicKey as chia_traits::streamable::Streamable>::parse": "subgroup check skipped when trusted",
    "<chia_bls::signature::Signature as chia_traits::streamable::Streamable>::parse": "subgroup check skipped when trusted",
    "<chia_protocol::program::Program as chia_traits::streamable::Streamable>::parse": "trusted length scan",
}


def c13_4(ctx, impls, R="C13.4"):
    fb = ctx.fb
    n = 0
    for ty, ms in sorted(impls.items()):
        f = ms.get("parse")
        if not f:
            continue
        b = Body(f, fb)
        # uses of the const parameter TRUSTED as a *value* (branch / operand), i.e. anything but forwarding it
        uses = 0
        for bi, blk in enumerate(b.blocks):
            if bi not in b.reach:
                continue
            for s in blk["s"]:
                if s["k"] == "assign" and "('cparam', 'TRUSTED')" in str(b.rvalue_term(s["rv"])):
                    uses += 1
            t = blk["t"]
            if t["k"] == "switch" and "('cparam', 'TRUSTED')" in str(b.operand_term(t["d"])):
                uses += 1
        n += 1
        if uses:
            ok = f.path in TRUSTED_SITES
            ctx.ob(R, "trusted-use:" + f.path, ok,
                   "TRUSTED is inspected in %s (%s)" % (f.path, TRUSTED_SITES.get(f.path, "not an enumerated site")), where=f.sp)
        # forwarding: every nested Streamable::parse call passes TRUSTED, never a literal
        for bi, name, t in b.calls():
            m = RX.match(name)
            if m and m.group(2) == "parse" and m.group(3) and "TRUSTED" not in m.group(3):
                ctx.ob(R, "forward:%s->%s" % (f.path, m.group(1)), False,
                       "nested parse pins the trust mode to %s instead of forwarding TRUSTED" % m.group(3), where=b.where(bi))
    ctx.floor(R, "parse bodies scanned for TRUSTED", n, 150)
    for p in TRUSTED_SITES:
        ctx.ob(R, "site-exists:" + p, p in fb.fns, "enumerated TRUSTED site exists")


def c13_vec_count(ctx, impls):
    """a list decodes to exactly as many elements as its length prefix says: the element loop of Vec<T>::parse runs over
    0..len where len is the u32 read from the wire, unmodified (the pre-allocation cap applies to with_capacity only), and every
    iteration pushes one parsed element.  Otherwise long lists stop early and decode(encode(v)) != v."""
    R = "C13.3"
    fb = ctx.fb
    ms = impls.get("alloc::vec::Vec<T>")
    if not ms or "parse" not in ms:
        return ctx.missing(R, "vec-count", "Vec<T>::parse not found")
    b = Body(ms["parse"], fb)
    rngs = []
    for bi, blk in enumerate(b.blocks):
        if bi not in b.reach:
            continue
        for st in blk["s"]:
            if st["k"] == "assign" and st["rv"]["k"] == "agg" and "ops::range::Range" in str(st["rv"].get("adt")):
                rngs.append([strip_all(b.operand_term(o)) for o in st["rv"]["ops"]])
    ok = len(rngs) == 1
    detail = None
    if ok:
        lo, hi = rngs[0]
        calls_ = [x for x in subterms(hi) if isinstance(x, tuple) and x and x[0] == "call"]
        calls_ = [x for x in calls_ if "Try" not in x[1]]
        ok = lo[0] == "c" and lo[2] == 0 and len(calls_) == 1 and "u32 as chia_traits::streamable::Streamable>::parse" in calls_[0][1] and \
            not any(isinstance(x, tuple) and x and x[0] == "bin" for x in subterms(hi))
        detail = [show(lo), show(hi)[:160]]
    ctx.ob(R, "vec-count:range", ok, "Vec<T>::parse iterates 0..len with len = the parsed u32 prefix, unmodified", found=detail, where=b.fn.sp)
    pushes = [bi for bi, n, t in b.calls() if U.flat(n).endswith("Vec::push")]
    U.loop_no_skip(ctx, R, b, "vec-count:push-each", pushes, "every iteration pushes one parsed element")


def c13_defaults_and_g2(ctx, R3="C13.3", R2="C13.2"):
    """(a) the provided methods every type inherits: hash() = Sha256 over update_digest(self) and nothing else (in particular
    not over to_bytes(): for version-2 proofs of space the two differ by design), to_bytes() = stream(self) into a fresh Vec;
    (b) G2 decoding has one accepting path -- blst_p2_uncompress succeeded on the whole 96-byte buffer -- so every accepted
    encoding is one blst re-produces on compress (no locally recognised 'infinity' prefix that ignores trailing bytes);
    to_bytes of both point types is the blst compressor."""
    from .. import paths as P
    from .. import apnf
    R = R3
    for nm, want in (("hash", ("call", "('Sha256::finalize', ('after', ('update_digest', 'self', ('Sha256::new',))))", ("new", "update_digest", "finalize"))),):
        b = U.body(ctx, R, "chia_traits::streamable::Streamable::" + nm)
        if not b:
            continue
        rows = set()
        for ev, ex in P.enumerate_paths(b):
            rows.add((ex[0], P.ret_class(ev) if ex[0] == "return" else "", str(apnf.N(P.ret_of(ev))) if ex[0] == "return" else "",
                      tuple(U.flat(e[2]).split("::")[-1] for e in P.calls(ev)), len(P.conds(ev))))
        ctx.ob(R, "default:" + nm, rows == {("return", want[0], want[1], want[2], 0)},
               "Streamable::hash = Sha256::new(); self.update_digest(&mut ctx); ctx.finalize() -- one path, no other call",
               found=sorted(map(str, rows))[:2], where=b.fn.sp)
    b = U.body(ctx, R, "chia_traits::streamable::Streamable::to_bytes")
    if b:
        rows = set()
        for ev, ex in P.enumerate_paths(b):
            rows.add((ex[0], P.ret_class(ev) if ex[0] == "return" else "", str(apnf.N(P.ret_of(ev))) if ex[0] == "return" and P.ret_class(ev) == "Ok" else ""))
        exp = {("return", "Ok", "('Ok', ('after', ('stream', 'self', ('Vec::new',))))"), ("return", "Err", "")}
        ctx.ob(R, "default:to_bytes", rows == exp, "Streamable::to_bytes = stream(self) into a fresh Vec, errors propagated", found=sorted(map(str, rows))[:3])
    R = R2
    b = U.body(ctx, R, "chia_bls::signature::Signature::from_bytes_unchecked")
    if b:
        rows = set()
        for ev, ex in P.enumerate_paths(b):
            cs = tuple(sorted((str(apnf.N(t)).split("(")[1].strip("', ") + ":" + str(apnf.N(t)).split("'")[3], l[1]) for t, l in P.conds(ev)))
            rows.add((ex[0], P.ret_class(ev) if ex[0] == "return" else "", cs))
        exp = {("return", "Ok", (("PartialEq::ne:blst_p2_uncompress", False),)), ("return", "Err", (("PartialEq::ne:blst_p2_uncompress", True),))}
        ok = rows == exp
        un = [t for bi, n, t in b.calls() if U.flat(n).endswith("blst_p2_uncompress")]
        ok = ok and len(un) == 1 and str(apnf.N(b.operand_term(un[0]["args"][1]))) == "('as_ptr', ('as &[u8]', 'buf'))"
        ctx.ob(R, "g2:single-accepting-path", ok,
               "Signature::from_bytes_unchecked accepts exactly when blst_p2_uncompress(buf) succeeds (whole buffer, no local shortcut)",
               found=sorted(map(str, rows))[:3], where=b.fn.sp)
    for ty, mod_, prim in (("Signature", "signature", "blst_p2_compress"), ("PublicKey", "public_key", "blst_p1_compress")):
        b = U.body(ctx, R, "chia_bls::%s::%s::to_bytes" % (mod_, ty))
        if b:
            names = [U.flat(n).split("::")[-1] for bi, n, t in b.calls()]
            sw = [x for x in range(b.n) if x in b.reach and b.blocks[x]["t"]["k"] == "switch"]
            ctx.ob(R, "compress:" + ty, names.count(prim) == 1 and not sw, "%s::to_bytes is %s of the point, unconditionally" % (ty, prim), found=names)


def c13_errors_propagate(ctx, impls, R="C13.3"):
    """'input with missing bytes is rejected': inside every Streamable::parse body the result of each nested decode
    (a field's parse, read_bytes) is propagated with `?` or returned as the function's own result -- never replaced by a default
    (unwrap_or_default / unwrap_or / ok()): a swallowed error turns truncated input into a value."""
    from .. import paths as P
    fb = ctx.fb
    bad = []
    n = 0
    for ty, ms in sorted(impls.items()):
        f = ms.get("parse")
        if not f:
            continue
        b = Body(f, fb)
        branches = [strip_all(b.call_term(t)) for bi, nm, t in b.calls() if "Try" in nm and nm.endswith("branch")]
        rets = [strip_all(b.call_term(rv)) for bi, k, d, rv in b.ret_assignments() if k == "call"]
        for bi, nm, t in b.calls():
            fl = U.flat(nm)
            if not (fl.endswith("Streamable>::parse") or fl.endswith("streamable::read_bytes") or fl.endswith("::parse") and "Streamable" in nm):
                continue
            n += 1
            ct = strip_all(b.call_term(t))
            used = any(_contains(x, ct) for x in branches) or any(_contains(x, ct) for x in rets)
            if not used:
                bad.append("%s: result of %s at %s is not propagated" % (ty, fl.split("::")[-1] + "(" + fl.split(" as ")[0][-30:] + ")", b.where(bi)))
    ctx.ob(R, "parse-errors-propagate", not bad, "every nested decode inside a Streamable::parse body is propagated with `?` (or is the tail result)",
           found=bad[:4] or None)
    ctx.floor(R, "nested decode calls in parse bodies", n, 300)


def _contains(t, sub):
    if t == sub:
        return True
    if isinstance(t, tuple):
        return any(_contains(x, sub) for x in t)
    return False
