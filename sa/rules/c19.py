"""C19 — mempool rewrites (fast-forward, dedup) preserve spend validity and meaning (structural clauses).

  C19.1 refusal gates: fast_forward_singleton returns Ok only on the one path where all of: three amount-parity
        tests, puzzle-hash equalities (coin / new_parent / new_coin; computed hash vs both), mod-hash (curried
        struct and actual program), lineage-proof variant, coin.amount == solution.amount, recomputed parent id ==
        coin.parent_coin_info, inner puzzle hash, new_coin.parent == new_parent.coin_id() were evaluated favourably
  C19.2 minimal rewrite: the only writes to the decoded solution are lineage_proof.parent_parent_coin_info <-
        new_parent.parent_coin_info, lineage_proof.parent_amount <- new_parent.amount, amount <- new_coin.amount;
        the result is to_clvm of that value
  C19.3 dedup eligibility == the mempool flag table rows for ELIGIBLE_FOR_DEDUP (all 8 AGG_SIG variants and both
        message variants clear it; excess rule)
  C19.4 fingerprint arity: for every opcode that can occur in a dedup-eligible spend compute_puzzle_fingerprint hashes
        exactly the arguments parse_args reads (create-coin: 3 + hint with the same <= 32 rule, else a zero length
        marker; one-argument opcodes; zero-argument ones); all others => Err; hash_atom_list emits a 4-byte big-endian
        length before each atom and rejects pairs / short lists; the fingerprint is stored only when the dedup flag
        survived and COMPUTE_FINGERPRINT is set
"""
from .. import apnf
from .. import paths as P
from ..mir import Body, strip_all, show, subterms
from . import util as U
from . import cond_spec as S
from . import c01_mempool

CC = "chia_consensus::"


# tree hash of singleton_top_layer_v1_1.clsp (chia_puzzles::SINGLETON_TOP_LAYER_V1_1_HASH), as the driver renders the constant operand
SINGLETON_HASH = repr(bytes.fromhex("7faa3253bfddd1e0decb0906b2dc6247bbc4cf608f58345d173adb63e8b47c9f"))


def run(ctx):
    ctx.explanation = (
        "MPT/EFF/TBL/SIB rules: the single accepting path of fast_forward_singleton is extracted and each required refusal "
        "gate is located in its fact set with the right operands; the stores into the decoded solution are enumerated; dedup "
        "eligibility is the mempool flag table (spec/mempool_flags.json); the per-opcode argument count hashed by "
        "compute_puzzle_fingerprint is compared with the argument templates of spec/conditions.json. That the rewritten "
        "solution runs and emits the same coins needs CLVM execution of the singleton puzzle and is not decided.")
    ctx.trusted += ["clvm-traits (Curried/Singleton) FromClvm/ToClvm", "tree_hash (C17)"]
    ctx.assumptions += ["N: the rewritten solution runs and emits the same coins; injectivity of the fingerprint beyond its framing"]
    c19_1_2(ctx)
    c19_supports(ctx)
    c01_mempool.run(ctx, rule="C19.3")
    c19_4(ctx)
    c19_4_framing(ctx)
    c19_5(ctx)
    # the lineage / puzzle-hash gates compare against hashes recomputed by curry_and_treehash from the values actually curried
    # into the puzzle (mod hash, launcher id and launcher puzzle hash of the decoded singleton struct): shared with C17.4
    from . import c17
    c17.c17_4(ctx, R="C19.1")


def c19_1_2(ctx):
    R = "C19.1"
    b = U.body(ctx, R, CC + "fast_forward::fast_forward_singleton")
    if not b:
        return
    oks = apnf.paths_of(b, want=("Ok",), max_paths=60000)
    ctx.ob(R, "single-accepting-path", len(oks) == 1, "fast_forward_singleton has exactly one accepting path", found=len(oks))
    if len(oks) != 1:
        return
    facts_, res, _ = oks[0]
    fs = [(str(t), v) for t, v in facts_]

    def has(pred):
        return any(pred(s, v) for s, v in fs)
    gates = {
        "parity:coin": lambda s, v: "'.amount', 'coin'" in s and "BitAnd" in s and "'Eq'" in s and v is False,
        "parity:new_parent": lambda s, v: "'.amount', 'new_parent'" in s and "BitAnd" in s and v is False,
        "parity:new_coin": lambda s, v: "'.amount', 'new_coin'" in s and "BitAnd" in s and v is False,
        "ph:coin==new_parent": lambda s, v: _ne(s) and "'.puzzle_hash', 'coin'" in s and "'.puzzle_hash', 'new_parent'" in s and "tree_hash" not in s and v is False,
        "ph:coin==new_coin": lambda s, v: _ne(s) and "'.puzzle_hash', 'coin'" in s and "'.puzzle_hash', 'new_coin'" in s and v is False,
        "decode:puzzle": lambda s, v: "from_clvm" in s and "'puzzle'" in s and v == "ok",
        "decode:solution": lambda s, v: "from_clvm" in s and "'solution'" in s and v == "ok",
        "lineage-proof-variant": lambda s, v: ".lineage_proof" in s and v == "Lineage",
        "mod-hash:struct": lambda s, v: _ne(s) and ".mod_hash" in s and ".singleton_struct" in s and SINGLETON_HASH in s and v is False,
        "mod-hash:program": lambda s, v: _ne(s) and "('tree_hash', ('.program', ('from_clvm', 'puzzle')))" in s and SINGLETON_HASH in s and v is False,
        "amount==solution.amount": lambda s, v: "'Ne'" in s and "'.amount', 'coin'" in s and ".amount" in s and "from_clvm" in s and v is False,
        "parent-id": lambda s, v: _ne(s) and "Coin::coin_id" in s and "'.parent_coin_info', 'coin'" in s and v is False,
        "inner-puzzle-hash": lambda s, v: _ne(s) and "tree_hash" in s and ".inner_puzzle" in s and "parent_inner_puzzle_hash" in s and v is False,
        "ph:computed==new_parent": lambda s, v: _ne(s) and "('tree_hash', 'puzzle')" in s and "'.puzzle_hash', 'new_parent'" in s and v is False,
        "ph:computed==coin": lambda s, v: _ne(s) and "('tree_hash', 'puzzle')" in s and "'.puzzle_hash', 'coin'" in s and v is False,
        "new-coin-parent": lambda s, v: _ne(s) and "'.parent_coin_info', 'new_coin'" in s and "Coin::coin_id" in s and "new_parent" in s and v is False,
        "encode": lambda s, v: "to_clvm" in s and v == "ok",
    }
    missing = [g for g, p in gates.items() if not has(p)]
    for g in gates:
        ctx.ob(R, "gate:" + g, g not in missing, "the accepting path evaluated the `%s` gate favourably" % g)
    ctx.sample({"rule": R, "accepting_path_facts": len(fs)})
    # the parent coin is rebuilt from the lineage proof and the curried struct
    pc = [x for x in subterms(_raw_parent_coin(b)) if isinstance(x, tuple)] if _raw_parent_coin(b) else []
    s = show(_raw_parent_coin(b)) if _raw_parent_coin(b) else ""
    ctx.ob(R, "parent-coin-recomputed", "parent_parent_coin_info" in s and "curry_and_treehash" in s and "parent_amount" in s,
           "the old parent coin is (lineage.parent_parent_coin_info, curry_and_treehash(lineage.parent_inner_puzzle_hash, struct), lineage.parent_amount)",
           found=s[:240])
    # C19.2
    R2 = "C19.2"
    stores = []
    for ev, ex in P.enumerate_paths(b, want_assign=True, max_paths=60000):
        if ex[0] == "return" and P.ret_class(ev) == "Ok":
            for e in ev:
                if e[0] == "assign":
                    stores.append((apnf.N(e[2]), apnf.N(e[3])))
    got = {(_leaf_field(p), str(v)) for p, v in stores}
    exp = {("parent_parent_coin_info", str((".parent_parent_coin_info".replace("parent_parent", "parent"), "new_parent"))),
           ("parent_amount", str((".amount", "new_parent"))),
           ("amount", str((".amount", "new_coin")))}
    exp = {("parent_parent_coin_info", str((".parent_coin_info", "new_parent"))),
           ("parent_amount", str((".amount", "new_parent"))),
           ("amount", str((".amount", "new_coin")))}
    ctx.ob(R2, "stores", got == exp,
           "exactly three fields of the decoded solution are rewritten: lineage parent-parent id, lineage parent amount, amount",
           found=sorted(got ^ exp)[:4], where=b.fn.sp)
    ctx.ob(R2, "result", "to_clvm" in str(res) and "from_clvm" in str(res), "the result is to_clvm of the (rewritten) decoded solution", found=str(res)[:200])
    # wheel wrapper passes the five arguments in their roles
    w = ctx.fb.fns.get("chia_rs::api::fast_forward_singleton")
    if w:
        wb = Body(w, ctx.fb)
        ctx.touched(wb.path)
        c = [t for bi, n, t in wb.calls() if n == CC + "fast_forward::fast_forward_singleton"]
        ok = len(c) == 1
        if ok:
            a = [show(strip_all(wb.operand_term(x))) for x in c[0]["args"]]
            ok = "puzzle" in a[1] and "solution" in a[2] and a[3].endswith("coin") and not a[3].endswith("new_coin") and "new_coin" in a[4] and "new_parent" in a[5]
            ctx.ob(R2, "wheel-roles", ok, "the Python wrapper passes (puzzle, solution, coin, new_coin, new_parent) in matching roles", found=a[1:])
        else:
            ctx.missing(R2, "wheel-roles", "call not found")


def c19_supports(ctx):
    """supports_fast_forward answers by attempting the real rewrite with the spend's own puzzle, solution and coin"""
    R2 = "C19.2"
    w = ctx.fb.fns.get("chia_rs::api::supports_fast_forward")
    if not w:
        return ctx.missing(R2, "supports_fast_forward", "not found")
    wb = Body(w, ctx.fb)
    ctx.touched(wb.path)
    rows = set()
    for ev, ex in P.enumerate_paths(wb):
        if ex[0] != "return":
            continue
        r = apnf.N(P.ret_of(ev))
        rows.add(str(r)[:4000])
    trues = [r for r in rows if r not in ("0", "False", "false")]
    ok = len(trues) == 1
    if ok:
        r = trues[0]
        ok = r.startswith("('Result::is_ok', ('fast_forward_singleton',") and "node_from_bytes" in r
        c = [t for bi, n, t in wb.calls() if n == CC + "fast_forward::fast_forward_singleton"]
        ok = ok and len(c) == 1
        if ok:
            a = [str(apnf.N(strip_all(wb.operand_term(x)))) for x in c[0]["args"]]
            ok = ".puzzle_reveal" in a[1] and ".solution" in a[2] and a[3] == str((".coin", "spend")) and \
                "Coin::Coin" in a[4] and "coin_id" in a[4] and "Coin::Coin" in a[5] and "coin_id" not in a[5]
            ctx.ob(R2, "supports_fast_forward", ok, "supports_fast_forward = fast_forward_singleton(spend.puzzle, spend.solution, spend.coin, child-of-dummy, dummy).is_ok()", found=[x[:120] for x in a[1:]])
            return
    ctx.ob(R2, "supports_fast_forward", False, "supports_fast_forward = fast_forward_singleton(..).is_ok()", found=sorted(rows)[:3])


def _ne(s):
    import re
    return re.search(r"^\('(\w+::)?[nN]e'", s) is not None


def _leaf_field(p):
    return p[0][1:] if isinstance(p, tuple) and isinstance(p[0], str) and p[0].startswith(".") else str(p)


def _raw_parent_coin(b):
    for bi, blk in enumerate(b.blocks):
        for s in blk["s"]:
            if s["k"] == "assign" and s["rv"]["k"] == "agg" and s["rv"].get("adt") == "chia_protocol::coin::Coin":
                return strip_all(b.rvalue_term(s["rv"]))
    return None


ARITY = {"one_hash": 2, "one_msg": 2, "one_amount": 2, "one_uint": 2, "no_arg": 1, "remark": 1, "create_coin": 3}


def c19_4(ctx, R="C19.4"):
    fb = ctx.fb
    spec = S.load()
    b = U.body(ctx, R, CC + "puzzle_fingerprint::compute_puzzle_fingerprint")
    if b:
        sws = [bi for bi, blk in enumerate(b.blocks) if blk["t"]["k"] == "switch" and bi in b.reach and blk["t"]["dty"] == "u16"]
        if len(sws) != 1:
            ctx.missing(R, "dispatch", "opcode dispatch not found")
        else:
            t = b.blocks[sws[0]]["t"]
            by_target = {}
            for v, tb in t["targets"]:
                by_target.setdefault(tb, []).append(v)
            got = {}
            for tb, ops in by_target.items():
                # first hash_atom_list call dominated by this arm
                cnt = None
                x = tb
                for bi, n, tt in sorted(b.calls()):
                    if n.endswith("puzzle_fingerprint::hash_atom_list") and b.dominates(tb, bi):
                        c = strip_all(b.operand_term(tt["args"][3]))
                        lst = show(strip_all(b.operand_term(tt["args"][2])))
                        if cnt is None and c[0] == "c":
                            cnt = c[2]
                for o in ops:
                    got[o] = cnt
            other_rejects = not b.reachable_avoiding(t["otherwise"], b.ok_exits(), [x for x in by_target]) if t["otherwise"] in b.reach else True
            want = {}
            for row in spec["rows"]:
                if row["template"] in ARITY:
                    want[row["op"]] = ARITY[row["template"]]
            ctx.ob(R, "arity-table", got == want,
                   "per opcode the fingerprint hashes opcode + exactly the arguments parse_args reads (agg-sig, message and softfork opcodes are refused)",
                   found={k: (got.get(k), want.get(k)) for k in set(got) | set(want) if got.get(k) != want.get(k)})
            # the default arm rejects
            ob = t["otherwise"]
            rej = False
            blk = b.blocks[ob]
            for s in blk["s"]:
                if s["k"] == "assign" and s["pl"]["l"] == 0 and s["rv"]["k"] == "agg" and s["rv"].get("variant") == "Err":
                    rej = True
            ctx.ob(R, "other-opcodes-rejected", rej, "any other known opcode makes the fingerprint fail (such a spend is not dedup-eligible)")
        # hint rule in the CREATE_COIN arm mirrors parse_args: first(first(rest)) atom, len <= 32 -> hashed, else a zero length marker
        hints = [bi for bi, n, tt in b.calls() if n.endswith("puzzle_fingerprint::hash_atom_list")
                 and strip_all(b.operand_term(tt["args"][3]))[0] == "c" and strip_all(b.operand_term(tt["args"][3]))[2] == 1
                 and "first" in show(strip_all(b.operand_term(tt["args"][2])))]
        ok = len(hints) == 1
        if ok:
            conds = {str(apnf.fact(tt, l)) for tt, l in b.dominating_conditions(hints[0])}
            ok = any("Allocator::sexp" in c and "'Atom'" in c for c in conds) and \
                any("Allocator::atom_len" in c and "32" in c and "'Le'" in c and "True" in c for c in conds) and \
                sum(1 for c in conds if "('first'," in c and "'Ok'" in c) >= 2
        zero_markers = 0
        for bi, n, tt in b.calls():
            if U.flat(n).endswith("Sha256::update"):
                a = strip_all(b.operand_term(tt["args"][1]))
                if U.has_call(a, "to_be_bytes") and any(isinstance(x, tuple) and x and x[0] == "c" and x[2] == 0 and x[1] == "u32" for x in subterms(a)):
                    zero_markers += 1
        ctx.ob(R, "hint-rule", ok and zero_markers == 4,
               "CREATE_COIN: the hint is hashed under the same rule as parse_args (atom, <= 32 bytes), every other shape adds a zero length marker",
               found={"hint-call": len(hints), "zero-markers": zero_markers})
    hb = U.body(ctx, R, CC + "puzzle_fingerprint::hash_atom_list")
    if hb:
        upd = [strip_all(hb.operand_term(tt["args"][1])) for bi, n, tt in hb.calls() if U.flat(n).endswith("Sha256::update")]
        ok = len(upd) == 2 and U.has_call(upd[0], "to_be_bytes") and "u32" in str(upd[0]) and "len" in str(upd[0]) and U.has_call(upd[1], "Allocator::atom")

        def pair_rejects(t, lab):
            return U.has_call(t, "Allocator::sexp") and lab[0] == "is"
        ctx.ob(R, "hash_atom_list:framing", ok, "every atom is preceded by its length as 4 big-endian bytes", found=[show(x)[:100] for x in upd])
        rows = set()
        for ev, ex in P.enumerate_paths(hb):
            if ex[0] == "return":
                rc = P.ret_class(ev)
                for t, l in P.conds(ev):
                    f = apnf.fact(t, l)
                    if "Allocator::sexp" in str(f[0]) or "Allocator::next" in str(f[0]):
                        rows.add((str(f[0])[:40], f[1], rc))
        ok = any("sexp" in r[0] and r[1] == "Pair" and r[2] == "Err" for r in rows) and any("next" in r[0] and r[1] == "None" and r[2] == "Err" for r in rows) \
            and not any("sexp" in r[0] and r[1] == "Pair" and r[2] == "Ok" for r in rows)
        ctx.ob(R, "hash_atom_list:rejects", ok, "a pair where an atom is expected, or a list shorter than `count`, is rejected", found=sorted(rows))
    # stored only if DEDUP survived and COMPUTE_FINGERPRINT is set
    f = [x for p, x in fb.fns.items() if p.startswith(CC + "spendbundle_conditions::run_spendbundle") and x.e["kind"] == "Fn"]
    if len(f) == 1:
        rb = Body(f[0], fb)
        cf = [bi for bi, n, tt in rb.calls() if n.endswith("compute_puzzle_fingerprint")]
        ok = len(cf) == 1
        if ok:
            conds = {str(apnf.fact(tt, l)) for tt, l in rb.dominating_conditions(cf[0])}
            ok = any("COMPUTE_FINGERPRINT" in c and "True" in c for c in conds) and \
                any("BitAnd" in c and ".flags" in c and "'Ne'" in c and "True" in c for c in conds)
        ctx.ob(R, "fingerprint-gated", ok, "a fingerprint is computed only for spends still ELIGIBLE_FOR_DEDUP and only under COMPUTE_FINGERPRINT")
    of = fb.fns.get(CC + "owned_conditions::OwnedSpendConditions::from")
    if of:
        ob = Body(of, fb)

        def dd(t, lab):
            return "BitAnd" in str(apnf.N(t)) and ".flags" in str(apnf.N(t)) and lab[0] == "bool"
        ctx.ob(R, "owned-fingerprint-gated", len(U.edges_where(ob, dd)) == 2, "the owned summary exposes the fingerprint only for dedup-eligible spends")


def c19_4_framing(ctx):
    """fingerprint injectivity rests on every argument atom contributing a frame `len as u32 (big endian) || bytes`: in the
    loop of hash_atom_list no iteration returns to the element fetch without both updates (an omitted frame for e.g. the empty
    atom lets an argument slot vanish, so different condition lists regroup to the same byte stream), and the two updates hash
    the length of the very atom whose bytes follow."""
    R = "C19.4"
    b = U.body(ctx, R, CC + "puzzle_fingerprint::hash_atom_list")
    if not b:
        return
    ups = [(bi, [str(apnf.N(strip_all(b.operand_term(a)))) for a in t["args"]]) for bi, n, t in b.calls() if U.flat(n).endswith("Sha256::update") and b.in_cycle(bi)]
    atom = "('Allocator::atom', ('.0', ('Allocator::next', 'var:args')))"
    ok = len(ups) == 2 and ups[0][1][1] == "('to_be_bytes', ('as u32', ('len', %s)))" % atom and ups[1][1][1] == atom and b.dominates(ups[0][0], ups[1][0])
    ctx.ob(R, "frame:len-then-bytes", ok, "each argument atom is hashed as (len as u32).to_be_bytes() followed by its bytes", found=[u[1][1][:100] for u in ups], where=b.fn.sp)
    if len(ups) == 2:
        for k, (bi, _) in enumerate(ups):
            U.loop_no_skip(ctx, R, b, "frame:every-atom#%d" % k, [bi], "every argument atom (including the empty atom) contributes its frame",
                           header_pred=lambda f: f.endswith("Allocator::next"))


def c19_5(ctx):
    """(a) 'anything that is not a genuine singleton spend is refused' relies on the typed parse of the puzzle reveal as
    CurriedProgram<_, SingletonArgs>: fast_forward_singleton never re-hashes the reveal against the curry shape, so the
    derive-generated SingletonArgs::from_clvm must accept only the exact curry form -- in particular the argument-list
    terminator is the one-byte atom 0x01, tested on the atom's bytes (length 1, then byte equality), not as a decoded
    integer (0x0001 is a different program with a different tree hash).
    (b) a spend's dedup fingerprint is compute_puzzle_fingerprint of the conditions *that spend* emitted (the result of
    running its puzzle with its solution): the stored value is that call's result directly -- no per-puzzle memo."""
    R = "C19.5"
    fb = ctx.fb
    f = fb.fns.get("<chia_puzzle_types::puzzles::singleton::SingletonArgs<I> as clvm_traits::from_clvm::FromClvm<D>>::from_clvm")
    if f is None:
        ctx.missing(R, "curry-terminator", "SingletonArgs::from_clvm not found")
    else:
        b = Body(f, fb)
        ctx.touched(b.path)
        conds = set()
        for node in b.edge_info:
            if b.edge_info[node][0] in b.reach:
                t, l = b.edge_condition(node)
                s_ = str(apnf.N(t))
                if "decode_atom" in s_:
                    conds.add((s_.split("<chia_puzzle_types")[0], l[0]))
        A = "('decode_atom', 'decoder', 'var:node')"
        exp = {(A, "try"), ("('Ne', ('len', %s), 1)" % A, "bool"), ("('ne', %s, '" % A, "bool")}
        ok = conds == exp
        # the promoted constant compared against is the single byte 0x01
        lit = [c.get("value") for p_, c in fb.consts.items() if "SingletonArgs" in p_ and "promoted" in p_]
        ctx.ob(R, "curry-terminator", ok,
               "SingletonArgs::from_clvm tests the curried-argument terminator by length 1 and byte equality on the decoded atom (no integer decoding)",
               found=sorted(conds ^ exp)[:3] or None, where=f.sp)
        names = [U.flat(n).split("::")[-1] for bi, n, t in b.calls()]
        ctx.ob(R, "curry-terminator:no-int-decode", "decode_number" not in names and "from_clvm" not in [x for x in names if x == "decode_number"],
               "no decode_number call in the generated parser of the singleton arguments", found=[x for x in names if "decode" in x])
    g = _run_spendbundle(fb)
    if g is None:
        return ctx.missing(R, "fingerprint-per-spend", "run_spendbundle not found")
    b = Body(g, fb)
    vals = []
    for bi, blk in enumerate(b.blocks):
        if bi not in b.reach:
            continue
        for st in blk["s"]:
            if st["k"] == "assign" and st["pl"].get("p") and isinstance(st["pl"]["p"][-1], dict) and st["pl"]["p"][-1].get("n") == "fingerprint":
                vals.append(str(apnf.N(b.rvalue_term(st["rv"]))))
    ok = len(vals) == 1 and vals[0].startswith("('compute_puzzle_fingerprint', ('.1', ('run_program', ") and ".puzzle_reveal" in vals[0] and ".solution" in vals[0]
    hm = [U.flat(n) for bi, n, t in b.calls() if "HashMap" in U.flat(n) or "BTreeMap" in U.flat(n)]
    ctx.ob(R, "fingerprint-per-spend", ok and not hm,
           "the fingerprint stored for a spend is compute_puzzle_fingerprint(conditions returned by running that spend's puzzle with its solution)",
           found=[v[:160] for v in vals] + hm[:2], where=g.sp)


def _run_spendbundle(fb):
    fs = [f for p, f in fb.fns.items() if p.startswith(CC + "spendbundle_conditions::run_spendbundle") and f.e["kind"] == "Fn"]
    return fs[0] if len(fs) == 1 else None
