"""C03 — time-lock aggregation and checking equal per-condition semantics.

All values involved are touched only through comparisons, max/min and saturating/wrapping adds, so each clause is a
finite table problem.
  C03.1 parse-time classes of the ten lock/birth opcodes (width, negative => skip/skip-relative/fail, oversized => ...)
        == spec/conditions.json rows (same extraction as C01.2)
  C03.2 folding: "after" kinds fold with max, "before" kinds with min, absolute kinds into the bundle, relative/birth
        kinds into the spend; birth assertions reject a second, different value           (effect table rows)
  C03.3 direction pairing: folded by max => the checker fails iff state < bound; folded by min => fails iff
        state >= bound; birth => fails iff != .   (x < max S  <=>  exists s in S. x < s: one line of order theory)
  C03.4 check_time_locks guard table: operands, operator, saturating_add on the nowrap branch, wrapping_add otherwise,
        missing coin record => InvalidCoinId
  C03.5 impossibility guards reject only unsatisfiable pairs: exactly `before <= after` (never stricter), mirrored
        operands in the two arrival orders; absolute pairs once per bundle
  C03.6 ephemeral rule: the six relative/birth kinds and skip-relative record the spend; validate_conditions rejects
"""
from .. import apnf
from ..mir import Body, strip_all, show, subterms
from . import util as U
from . import cond_spec as S
from . import regions as RG
from . import c01
from . import c01_effects as E

CTL = "chia_consensus::check_time_locks::check_time_locks"

LOCKS = {
    # variant: (fold op, summary holder, field, checker error, state operand, base operand (relative only))
    "AssertHeightAbsolute": ("max", "ret", "height_absolute"),
    "AssertSecondsAbsolute": ("max", "ret", "seconds_absolute"),
    "AssertBeforeHeightAbsolute": ("min", "ret", "before_height_absolute"),
    "AssertBeforeSecondsAbsolute": ("min", "ret", "before_seconds_absolute"),
    "AssertHeightRelative": ("max", "spend", "height_relative"),
    "AssertSecondsRelative": ("max", "spend", "seconds_relative"),
    "AssertBeforeHeightRelative": ("min", "spend", "before_height_relative"),
    "AssertBeforeSecondsRelative": ("min", "spend", "before_seconds_relative"),
    "AssertMyBirthHeight": ("eq", "spend", "birth_height"),
    "AssertMyBirthSeconds": ("eq", "spend", "birth_seconds"),
}

H = "prev_transaction_block_height"
TS = "timestamp"
BC = "bundle_conds"


def unspent(f):
    return ("." + f, ("HashMap::get", "removal_coin_records", ("from", (".coin_id", "var:spend"))))


def checker_table():
    """spec B.6: error -> set of (guard normal form that makes the check FAIL, nowrap branch or None)"""
    def opt(f, holder):
        return ("." + f, holder)
    T = {
        "AssertHeightAbsoluteFailed": {(("Lt", H, opt("height_absolute", BC)), None)},
        "AssertSecondsAbsoluteFailed": {(("Lt", TS, opt("seconds_absolute", BC)), None)},
        "AssertBeforeHeightAbsoluteFailed": {(("Ge", H, opt("before_height_absolute", BC)), None)},
        "AssertBeforeSecondsAbsoluteFailed": {(("Ge", TS, opt("before_seconds_absolute", BC)), None)},
        "AssertMyBirthHeightFailed": {(("Ne", "BH", "CONFIRMED"), None)},
        "AssertMyBirthSecondsFailed": {(("Ne", "BS", "COINTS"), None)},
        "AssertHeightRelativeFailed": {(("Lt", H, ("saturating_add", "CONFIRMED", "HR")), True), (("Lt", H, ("wrapping_add", "CONFIRMED", "HR")), False)},
        "AssertSecondsRelativeFailed": {(("Lt", TS, ("saturating_add", "COINTS", "SR")), True), (("Lt", TS, ("wrapping_add", "COINTS", "SR")), False)},
        "AssertBeforeHeightRelativeFailed": {(("Ge", H, ("saturating_add", "CONFIRMED", "BHR")), True), (("Ge", H, ("wrapping_add", "CONFIRMED", "BHR")), False)},
        "AssertBeforeSecondsRelativeFailed": {(("Ge", TS, ("saturating_add", "COINTS", "BSR")), True), (("Ge", TS, ("wrapping_add", "COINTS", "BSR")), False)},
    }
    return T


def _abstract(t):
    """rename the per-spend operands to role names so that the table is readable"""
    s = str(t)

    def walk(x):
        if isinstance(x, tuple):
            if len(x) == 2 and x[0] == ".confirmed_block_index":
                return "CONFIRMED"
            if x and x[0] == "HashMap::get" and len(x) == 3 and x[1] == "removal_coin_records" and ".coin_id" in str(x[2]) \
                    and ".spends" in str(x[2]):
                return ("HashMap::get", "removal_coin_records", "COIN_ID_OF_THE_SPEND")
            if len(x) == 2 and x[0] == ".timestamp" and "HashMap::get" in str(x[1]):
                return "COINTS"
            if len(x) == 2 and x[0] in (".birth_height",):
                return "BH"
            if len(x) == 2 and x[0] in (".birth_seconds",):
                return "BS"
            if len(x) == 2 and x[0] == ".height_relative":
                return "HR"
            if len(x) == 2 and x[0] == ".seconds_relative":
                return "SR"
            if len(x) == 2 and x[0] == ".before_height_relative":
                return "BHR"
            if len(x) == 2 and x[0] == ".before_seconds_relative":
                return "BSR"
            return tuple(walk(y) for y in x)
        return x
    return walk(t)


def run(ctx):
    ctx.explanation = (
        "TBL/DT rules: parse-time overflow classes of the ten lock/birth opcodes (accepting-path sets of parse_args vs the "
        "spec rows), fold operator and holder per kind (effect table rows of parse_conditions), the guard table of "
        "check_time_locks extracted from MIR (operator, operands, saturating vs wrapping add per nowrap branch), the monotone "
        "pairing fold-operator <-> comparison direction, the exact form of the impossibility guards, and the ephemeral rule. "
        "With the pairing, fold-then-compare equals compare-each-and-conjoin for every multiset (x < max S <=> exists s. x < s).")
    ctx.trusted += ["std max/min/saturating_add/wrapping_add", "HashMap::get"]
    ctx.assumptions += ["the legacy (nowrap = false) mode is only checked for shape; the property does not constrain it"]
    spec = S.load()
    c01.c01_2(ctx, spec, rule="C03.1", only={"one_uint"})
    c03_2(ctx)
    fail_dir = c03_4(ctx)
    c03_3(ctx, fail_dir)
    c03_5(ctx)
    c03_6(ctx)
    c03_3b(ctx)


def c03_2(ctx):
    R = "C03.2"
    b, regs = RG.variant_regions(ctx.fb)
    if b is None or regs is None:
        return ctx.missing(R, "parse_conditions", "cannot locate the `match cva` dispatch")
    ctx.touched(b.path)
    T = E.effect_table()
    n = 0
    for variant in LOCKS:
        got = {(ex, E.canon(f), frozenset(E.canon(e) for e in eff)) for ex, f, eff in regs.get(variant, [])}
        ok = got == T[variant]
        n += 1
        ctx.ob(R, "fold:" + variant, ok,
               "%s folds with `%s` into %s.%s (complete per-path effects equal the table row)" % ((variant,) + LOCKS[variant]),
               where=b.fn.sp, found=None if ok else {"unexpected": [E._fmt(p) for p in list(got - T[variant])[:2]]})
    ctx.floor(R, "lock/birth variants", n, 10)
    ctx.sample({"rule": R, "kinds": {k: v[0] for k, v in LOCKS.items()}})


def c03_4(ctx):
    """extract {error: {(failing guard, nowrap)}} from check_time_locks and compare with the table"""
    R = "C03.4"
    b = U.body(ctx, R, CTL)
    if not b:
        return {}
    got = {}
    for bi, k, d, rv in b.ret_assignments():
        if not (k == "agg" and d[1] == "Err"):
            continue
        err = strip_all(b.rvalue_term(rv))
        code = [x[2] for x in subterms(err) if isinstance(x, tuple) and x and x[0] == "agg" and (x[1] or "").endswith("ErrorCode")]
        code = code[0] if code else "?"
        nc = b.nearest_condition(bi)
        nowrap = None
        for t, lab in b.dominating_conditions(bi):
            if strip_all(t) == ("arg", 4, "nowrap") and lab[0] == "bool":
                nowrap = lab[1]
        if nc is None:
            continue
        # a guard operand computed on two branches (`if nowrap { sat } else { wrap }`, possibly in a helper): one row per branch
        for gt, extra in U.phi_alternatives(b, nc[0]):
            nw = nowrap
            for t, lab in extra:
                if strip_all(t) == ("arg", 4, "nowrap") and lab[0] == "bool":
                    nw = lab[1]
            g = apnf.N(gt)
            if nc[1] == ("bool", True):
                got.setdefault(code, set()).add((_abstract(g), nw))
            elif nc[1][0] == "is":
                got.setdefault(code, set()).add((("is", nc[1][1], _abstract(g)), nw))
            else:
                got.setdefault(code, set()).add((("cond", str(nc[1]), _abstract(g)), nw))
    exp = checker_table()
    miss = [(("is", ("None",), ("HashMap::get", "removal_coin_records", "COIN_ID_OF_THE_SPEND"))), None]
    exp["InvalidCoinId"] = {tuple(miss)}
    for code in sorted(set(exp) | set(got)):
        ok = got.get(code) == exp.get(code)
        ctx.ob(R, "guard:" + code, ok, "check_time_locks fails with %s exactly under its specified guard(s)" % code,
               where=b.fn.sp, expected=sorted(map(str, exp.get(code, []))), found=sorted(map(str, got.get(code, []))))
    ctx.floor(R, "rejecting guards", len(got), 11)
    ctx.sample({"rule": R, "table": {k: sorted(map(str, v)) for k, v in got.items()}})
    # direction of failure per summary field (nowrap branch)
    dirs = {}
    for code, gs in got.items():
        for g, nw in gs:
            if isinstance(g, tuple) and g and g[0] in ("Lt", "Ge", "Ne") and nw in (None, True):
                dirs[code] = g[0]
    return dirs


def c03_3(ctx, dirs):
    R = "C03.3"
    pair = {"max": "Lt", "min": "Ge", "eq": "Ne"}
    code_of = {
        "AssertHeightAbsolute": "AssertHeightAbsoluteFailed", "AssertSecondsAbsolute": "AssertSecondsAbsoluteFailed",
        "AssertBeforeHeightAbsolute": "AssertBeforeHeightAbsoluteFailed", "AssertBeforeSecondsAbsolute": "AssertBeforeSecondsAbsoluteFailed",
        "AssertHeightRelative": "AssertHeightRelativeFailed", "AssertSecondsRelative": "AssertSecondsRelativeFailed",
        "AssertBeforeHeightRelative": "AssertBeforeHeightRelativeFailed", "AssertBeforeSecondsRelative": "AssertBeforeSecondsRelativeFailed",
        "AssertMyBirthHeight": "AssertMyBirthHeightFailed", "AssertMyBirthSeconds": "AssertMyBirthSecondsFailed",
    }
    for variant, (op, holder, field) in LOCKS.items():
        d = dirs.get(code_of[variant])
        ctx.ob(R, "pairing:" + variant, d == pair[op],
               "folded by %s => checker fails iff state %s bound" % (op, {"Lt": "<", "Ge": ">=", "Ne": "!="}[pair[op]]),
               expected=pair[op], found=d)
    # the owned summary copies each lock field from the field of the same name
    fb = ctx.fb
    for ty, src in (("OwnedSpendConditions", "spend"), ("OwnedSpendBundleConditions", "sb")):
        fs = [f for p, f in fb.fns.items() if p == "chia_consensus::owned_conditions::%s::from" % ty]
        if len(fs) != 1:
            ctx.missing(R, "owned:" + ty, "conversion not found")
            continue
        ob = Body(fs[0], fb)
        ctx.touched(ob.path)
        bad = []
        n = 0
        for bi, blk in enumerate(ob.blocks):
            for s in blk["s"]:
                if s["k"] == "assign" and s["rv"]["k"] == "agg" and (s["rv"].get("adt") or "").endswith(ty):
                    for fname, op_ in zip(s["rv"]["fields"], s["rv"]["ops"]):
                        if fname in [v[2] for v in LOCKS.values()]:
                            n += 1
                            t = strip_all(ob.operand_term(op_))
                            if not (t[0] == "f" and t[2] == fname):
                                bad.append((fname, show(t)))
        ctx.ob(R, "owned-copy:" + ty, not bad and n >= 4, "lock fields of %s are copied from the like-named fields" % ty, found=bad or n)


def c03_5(ctx):
    """only `before <= after` may reject (a <= x < b is satisfiable iff a < b)"""
    R = "C03.5"
    b, regs = RG.variant_regions(ctx.fb)
    if regs is None:
        return ctx.missing(R, "parse_conditions", "dispatch not found")
    want = {
        "AssertSecondsRelative": ("Le", E.SP("before_seconds_relative"), E.V("AssertSecondsRelative")),
        "AssertHeightRelative": ("Le", E.SP("before_height_relative"), E.V("AssertHeightRelative")),
        "AssertBeforeSecondsRelative": ("Le", E.V("AssertBeforeSecondsRelative"), E.SP("seconds_relative")),
        "AssertBeforeHeightRelative": ("Le", E.V("AssertBeforeHeightRelative"), E.SP("height_relative")),
    }
    for variant, guard in want.items():
        errs = [(f, eff) for ex, f, eff in regs.get(variant, []) if ex == "Err"]
        gs = set()
        for f, eff in errs:
            for t, lab in f:
                if isinstance(t, tuple) and t and t[0] in ("Le", "Lt", "Ge", "Gt", "Eq", "Ne") and lab is True:
                    gs.add(t)
        ctx.ob(R, "relative-guard:" + variant, gs == {guard},
               "the only rejecting comparison is `before-bound <= after-bound` (operator and operand roles)",
               expected=str(guard), found=sorted(map(str, gs)))
    # lock arms other than the four relative ones never reject
    for variant in LOCKS:
        if variant in want or LOCKS[variant][0] == "eq":
            continue
        errs = [1 for ex, f, eff in regs.get(variant, []) if ex != "continue"]
        ctx.ob(R, "no-reject:" + variant, not errs, "absolute locks are only folded while parsing (checked once per bundle later)")


def c03_6(ctx, R="C03.6"):
    b, regs = RG.variant_regions(ctx.fb)
    if regs is None:
        return ctx.missing(R, "parse_conditions", "dispatch not found")
    need = ["AssertHeightRelative", "AssertSecondsRelative", "AssertBeforeHeightRelative", "AssertBeforeSecondsRelative",
            "AssertMyBirthHeight", "AssertMyBirthSeconds", "SkipRelativeCondition"]
    for variant in need:
        conts = [eff for ex, f, eff in regs.get(variant, []) if ex == "continue"]
        ok = bool(conts) and all(E.ANE in eff for eff in conts)
        ctx.ob(R, "records:" + variant, ok, "every accepting path of %s records the spend for the ephemeral check" % variant)
    others = [v for v in regs if v not in need and not v.startswith("__")]
    bad = [v for v in others if any(E.ANE in eff for ex, f, eff in regs[v])]
    ctx.ob(R, "only-relative-kinds", not bad, "no other condition marks the spend as having a relative condition", found=bad)
    vb = U.body(ctx, R, "chia_consensus::conditions::validate_conditions")
    if vb:
        # iteration over assert_not_ephemeral: is_ephemeral true => Err
        def eph(t, lab):
            return U.has_call(t, "conditions::is_ephemeral") and lab[0] == "bool"
        edges = U.edges_where(vb, eph)
        rejecting = [e for e in edges if not vb.reachable_avoiding(e, vb.ok_exits(), []) or _leads_to_err(vb, e)]
        ctx.ob(R, "validate:ephemeral-rules", len(edges) >= 4 and len(rejecting) >= 2,
               "validate_conditions rejects a relative condition on an ephemeral coin and ASSERT_EPHEMERAL on a non-ephemeral one",
               found={"edges": len(edges), "rejecting": len(rejecting)})


LOCK_FIELDS = ("height_absolute", "seconds_absolute", "before_height_absolute", "before_seconds_absolute", "height_relative",
               "seconds_relative", "before_height_relative", "before_seconds_relative", "birth_height", "birth_seconds")


def c03_3b(ctx):
    """'rejected at parse time as impossible ONLY IF no chain state could satisfy': the deferred validation tests the lock
    aggregates in exactly two ways -- before_X_absolute <= X_absolute (both folded bundle-wide, so no state has
    X_abs <= state < before_X_abs) -- and in no other (relative and birth values depend on each coin's own confirmation
    data, which validate_conditions does not see; any guard over them rejects satisfiable bundles)."""
    R = "C03.3"
    vb = U.body(ctx, R, "chia_consensus::conditions::validate_conditions")
    if not vb:
        return
    seen = set()
    for node in vb.edge_info:
        if vb.edge_info[node][0] not in vb.reach:
            continue
        t, lab = vb.edge_condition(node)
        s_ = str(apnf.N(t))
        if any(("'." + f + "'") in s_ for f in LOCK_FIELDS):
            seen.add((s_, str(lab)))
    exp = set()
    for k in ("height", "seconds"):
        pres = "('.before_%s_absolute', 'ret')" % k
        le = "('Le', ('.before_%s_absolute', 'ret'), ('.%s_absolute', 'ret'))" % (k, k)
        exp |= {(pres, "('is', ('None',))"), (pres, "('is', ('Some',))"), (le, "('bool', False)"), (le, "('bool', True)")}
    ctx.ob(R, "validate:lock-guards-exact", seen == exp,
           "validate_conditions branches on lock aggregates only through `before_X_absolute is Some` and `before_X_absolute <= X_absolute`",
           found=sorted(seen ^ exp)[:6], where=vb.fn.sp)
    E.is_ephemeral_exact(ctx, "C03.6")
    E.assert_not_ephemeral_exact(ctx, "C03.6")


def _leads_to_err(b, e):
    tb = b.edge_info[e][2]
    blk = b.blocks[tb]
    for s in blk["s"]:
        if s["k"] == "assign" and s["pl"]["l"] == 0 and s["rv"]["k"] == "agg" and s["rv"].get("variant") == "Err":
            return True
    return False
