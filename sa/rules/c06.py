"""C06 — strict modes only restrict, and ordering never changes the verdict.

  C06.1 flag monotonicity (NO_UNKNOWN_CONDS, STRICT_ARGS_COUNT, LIMIT_SPENDS): (a) in parse_args, for every opcode,
        each accepting path under the flag has an accepting path without the flag whose checks are a subset and
        whose result is identical; (b) in every function of the spend pipeline the region executed only when
        contains(FLAG) is true has no effects and either rejects or rejoins; the one data-dependent use
        (spends_left) is consumed only by a rejecting guard
  C06.2 commutative accumulation: every write to the summaries / ParseState / cost budget / countdown inside the
        per-condition loop belongs to a commutative class (sum, max, min, set insert, idempotent assign after
        rejecting a different value, or-ing constants) or to the enumerated order-only vectors; every read of
        cross-iteration state in a branch condition is one of the enumerated symmetric guards
"""
from .. import apnf
from .. import paths as P
from ..mir import Body, strip_all, show, subterms
from . import util as U
from . import cond_spec as S
from . import regions as RG
from . import c01_effects as E

CC = "chia_consensus::"
FLAGS = {
    "STRICT_ARGS_COUNT": S.STRICT,
    "NO_UNKNOWN_CONDS": S.NOUNK,
    "LIMIT_SPENDS": ("contains", "flags", "chia_consensus::flags::ConsensusFlags::LIMIT_SPENDS"),
}
PIPELINE = ("conditions::", "run_block_generator::", "spendbundle_conditions::", "condition_sanitizers::", "sanitize_int::",
            "validation_error::", "messages::", "opcodes::")


def run(ctx):
    ctx.explanation = (
        "EFF rules: (1) flag monotonicity is decided on the accepting-path sets of parse_args (on ⊆ off with equal results) "
        "and, for every branch on NO_UNKNOWN_CONDS / STRICT_ARGS_COUNT / LIMIT_SPENDS anywhere in the spend pipeline, on the "
        "region dominated by the flag-true edge (no effects; only rejecting exits or rejoin); (2) every effect and every "
        "state-reading guard found in the per-condition regions of parse_conditions is classified into the commutative / "
        "order-only / symmetric-guard classes. Numeric equality of two concrete runs is not decided.")
    ctx.assumptions += ["the other MEMPOOL_MODE flags are clvmr dialect flags (not analysed)",
                        "order-only vectors (agg_sig_*, messages, pkm_pairs) are consumed by order-insensitive folds (C01.5 counters, aggregate verification)"]
    c06_1(ctx)
    c06_1c(ctx)
    c06_2(ctx)
    c06_3(ctx)
    # the verdict at an exact cost boundary must not depend on spend order: the budget is only tested by charge-paired guards
    from . import c04
    c04.c04_3(ctx, R="C06.2")
    # every relative/birth/skipped-relative arm records the spend for the ephemeral check itself (not via a flag another arm's
    # early-return keys on), so the verdict does not depend on which of two conditions comes first: shared with C03.6
    from . import c03
    c03.c03_6(ctx, R="C06.2")
    # the signature check consumes the collected pairs as a multiset (no adjacent-only dedup, no order-sensitive filter): shared with C05.5
    from . import c05
    c05.c05_5(ctx, R="C06.2")


def c06_1(ctx):
    R = "C06.1"
    fb = ctx.fb
    spec = S.load()
    b = U.body(ctx, R, CC + "conditions::parse_args")
    if b:
        opl = b.fn.e["arg_names"].index("op") + 1
        n = 0
        for row in spec["rows"]:
            got = apnf.paths_of(b, env0={opl: row["op"]}, want=("Ok",))
            got = S.expand_helper({(S.canon(f), S.canon(r)) for f, r, _ in got})
            for fname, FL in (("STRICT_ARGS_COUNT", S.STRICT), ("NO_UNKNOWN_CONDS", S.NOUNK)):
                on = [(f - {(FL, True)}, r) for f, r in got if (FL, True) in f]
                off = [(f - {(FL, False)}, r) for f, r in got if (FL, False) in f] + [(f, r) for f, r in got if not any(x[0] == FL for x in f)]
                bad = []
                for f, r in on:
                    if not any(g <= f and r2 == r for g, r2 in off):
                        bad.append((sorted(map(str, f)), str(r)))
                n += 1
                ctx.ob(R, "parse_args:%s:%s" % (row["name"], fname), not bad,
                       "every accepting path of %s under %s is an accepting path without it, with extra checks only and the same result" % (row["name"], fname),
                       found=bad[:1] or None)
        ctx.floor(R, "opcode x flag monotonicity checks", n, 70)
    # (b) flag-true regions everywhere in the pipeline
    n_edges = 0
    for p, f in sorted(fb.fns.items()):
        if not p.startswith(CC) or not any(m in p for m in PIPELINE):
            continue
        bb = Body(f, fb)
        for node in list(bb.edge_info):
            sb = bb.edge_info[node][0]
            if sb not in bb.reach:
                continue
            t, lab = bb.edge_condition(node)
            if lab != ("bool", True):
                continue
            nt = apnf.N(t)
            fl = [k for k, v in FLAGS.items() if nt == v]
            if not fl:
                continue
            n_edges += 1
            ctx.touched(p)
            dom = bb.dominators()
            region = [x for x in range(bb.n) if x in dom and dom[x] and node in dom[x]]
            eff = []
            for bi in region:
                blk = bb.blocks[bi]
                for s in blk["s"]:
                    if s["k"] == "assign" and s["pl"].get("p"):
                        eff.append("store %s at %s" % (show(bb.place_term(s["pl"])), bb.where(bi)))
                    if s["k"] == "assign" and not s["pl"].get("p") and s["pl"]["l"] in bb.names and s["pl"]["l"] != 0:
                        nm = bb.names[s["pl"]["l"]]
                        if not _guard_only_local(bb, s["pl"]["l"]):
                            eff.append("assigns `%s` at %s" % (nm, bb.where(bi)))
                tt = blk["t"]
                if tt["k"] == "call":
                    ct = bb.call_term(tt)
                    if len(ct) == 4:
                        eff.append("call with &mut: %s at %s" % (U.flat(ct[1]), bb.where(bi)))
            ctx.ob(R, "flag-region:%s:%s#%d" % (p.split("::")[-1][:40], fl[0], n_edges), not eff,
                   "the code executed only under %s has no effects (pure additional checks)" % fl[0], where=bb.where(sb), found=eff[:3] or None)
    ctx.floor(R, "flag-true branches in the spend pipeline", n_edges, 10)


STRICT_NAMES = ("STRICT_ARGS_COUNT", "NO_UNKNOWN_CONDS", "LIMIT_SPENDS", "MEMPOOL_MODE")
FLAG_ADDERS = ("bitor", "bitor_assign", "union", "insert")


def _has_strict(t):
    from .. import mir
    return mir.contains(t, lambda x: isinstance(x, tuple) and x and x[0] in ("c", "cs", "cb") and x[-1] and
                        any(str(x[-1]).endswith("::" + n) for n in STRICT_NAMES))


def c06_1c(ctx):
    """The strictness flags are only ever *tested* through `flags.contains(ONE_FLAG)` (whose true-region is checked above and
    whose false-region must not reject) and otherwise only *added* to a flag set (bitor/union/insert).  Any other use --
    intersects, difference, remove, complement, raw bits arithmetic, a composite mask given to contains -- is a test whose
    polarity the region rule does not see (e.g. `!flags.intersects(A | STRICT)` switches a rejection OFF when the strict flag
    is set), so it is reported."""
    R = "C06.1"
    fb = ctx.fb
    n_tests = 0
    bad = []
    for p, f in sorted(fb.fns.items()):
        if not (p.startswith(CC) or p.startswith("chia_rs::")):
            continue
        if not any(c.get("def", "").startswith(CC + "flags::") or (c.get("res") or "").startswith(CC + "flags::") for c in f.e.get("calls", [])):
            continue
        bb = Body(f, fb)
        for bi, n, t in bb.calls():
            fn_ = U.flat(n)
            if not fn_.startswith(CC + "flags::_::") and not fn_.startswith(CC + "flags::ConsensusFlags::"):
                continue
            args = [strip_all(bb.operand_term(a)) for a in t["args"]]
            if not any(_has_strict(a) for a in args):
                continue
            meth = fn_.split("::")[-1]
            if meth in FLAG_ADDERS:
                continue
            if meth == "contains" and len(args) == 2 and args[1][0] in ("c", "cs", "cb") and not _has_strict(args[0]):
                n_tests += 1
                # false-region: never rejects on its own
                for node in bb.edge_info:
                    sb, lab, tb = bb.edge_info[node]
                    if sb not in bb.reach:
                        continue
                    ct, cl = bb.edge_condition(node)
                    if cl != ("bool", False) or not _has_strict(ct):
                        continue
                    sct = strip_all(ct)
                    if not (sct[0] == "call" and U.flat(sct[1]).endswith("::contains")):
                        continue
                    dom = bb.dominators()
                    region = [x for x in range(bb.n) if x in dom and dom[x] and node in dom[x]]
                    if _true_side_always_rejects(bb, sb):
                        continue
                    for x in region:
                        for st in bb.blocks[x]["s"]:
                            if st["k"] == "assign" and st["pl"]["l"] == 0 and st["rv"]["k"] == "agg" and st["rv"].get("variant") == "Err":
                                bad.append("%s: rejects only when the strict flag is NOT set (%s)" % (p, bb.where(x)))
                        tt = bb.blocks[x]["t"]
                        if tt["k"] == "call" and "from_residual" in U.flat(callee_of(tt)):
                            bad.append("%s: propagates an error only when the strict flag is NOT set (%s)" % (p, bb.where(x)))
                continue
            bad.append("%s: strict flag used through `%s` at %s" % (p, meth, bb.where(bi)))
        ctx.touched(p)
    ctx.ob(R, "strict-flag-uses", not bad,
           "strictness flags are tested only by contains(single flag) -- whose false side never rejects -- and otherwise only added to flag sets",
           found=sorted(set(bad))[:4] or None)
    ctx.floor(R, "contains(strict flag) tests", n_tests, 10)


def _true_side_always_rejects(bb, sb):
    """the flag-true successor of switch block sb leads only to `_0 = Err(..); return` (no Ok, no way back to the switch)"""
    for node in bb.edge_info:
        if bb.edge_info[node][0] != sb:
            continue
        ct, cl = bb.edge_condition(node)
        if cl != ("bool", True):
            continue
        reach = bb.reachable_from(node)
        if sb in reach:
            return False
        has_err = False
        for x in reach:
            if x >= bb.n:
                continue
            for st in bb.blocks[x]["s"]:
                if st["k"] == "assign" and st["pl"]["l"] == 0 and st["rv"]["k"] == "agg":
                    if st["rv"].get("variant") == "Err":
                        has_err = True
                    else:
                        return False
            tt = bb.blocks[x]["t"]
            if tt["k"] == "call" and tt["dest"]["l"] == 0 and not tt["dest"].get("p"):
                return False
        return has_err
    return False


def callee_of(tt):
    from ..mir import callee_name
    return callee_name(tt["f"])


def _guard_only_local(b, l):
    """local is only compared with 0 (rejecting) and decremented: the LIMIT_SPENDS countdown"""
    uses_ok = True
    for bi, blk in enumerate(b.blocks):
        if bi not in b.reach:
            continue
        for s in blk["s"]:
            if s["k"] != "assign":
                continue
            rv = s["rv"]
            ops = [rv.get("a"), rv.get("b")]
            for o in ops:
                if isinstance(o, dict):
                    pl = o.get("cp") or o.get("mv")
                    if pl and pl["l"] == l and not pl.get("p"):
                        if rv["k"] == "bin" and rv["op"] in ("Eq", "Ne", "SubWithOverflow", "Sub"):
                            continue
                        if rv["k"] == "use" and s["pl"]["l"] != l:
                            # copy into a temp: follow one step
                            continue
                        uses_ok = False
    return uses_ok


IMMUTABLE_SPEND_ATTRS = (".coin_id", ".parent_id", ".puzzle_hash", ".coin_amount")
ORDER_ONLY = (".agg_sig_me", ".agg_sig_parent", ".agg_sig_puzzle", ".agg_sig_amount", ".agg_sig_puzzle_amount",
              ".agg_sig_parent_amount", ".agg_sig_parent_puzzle", ".agg_sig_unsafe", ".messages", ".pkm_pairs")
STATE_ROOTS = ("spend", "ret", "state", "max_cost", "var:announce_countdown")


def classify_effect(e, facts_):
    k = e[0]
    if k == "set":
        place, val = e[1], e[2]
        if isinstance(val, tuple) and val[0] in ("max", "min") and val[1] == place:
            return "fold-" + val[0]
        if isinstance(val, tuple) and val[0] == "Some" and isinstance(val[1], tuple) and val[1][0] in ("max", "min") and val[1][1] == place:
            return "fold-" + val[1][0]
        if isinstance(val, tuple) and val[0] == "Some":
            # first assignment (field was None) or idempotent birth assignment (different previous value rejected)
            if (place, "None") in facts_:
                return "first-assign"
            if any(isinstance(t, tuple) and t[0] == "Option::is_some_and" and t[1] == place and v is False for t, v in facts_):
                return "idempotent-assign"
            return None
        if isinstance(val, tuple) and val[0] == ".0" and isinstance(val[1], tuple) and val[1][0] in ("AddWithOverflow", "SubWithOverflow") and val[1][1] == place:
            return "sum"
        if isinstance(val, tuple) and val[0] == "Option::ok_or" and isinstance(val[1], tuple) and val[1][0] == "checked_add" and val[1][1] == place:
            return "sum"
        if isinstance(val, tuple) and val[0] in ("BitOr", "BitAnd") and val[1] == place:
            return "bit-" + val[0]
        return None
    if k == "call":
        c = e[1]
        if c[0] == "HashSet::insert":
            return "set-insert"
        if c[0] == "Vec::push" and c[1][0] in ORDER_ONLY:
            return "order-only-list"
        if c[0] in ("assert_not_ephemeral",):
            return "set-insert"
        if c[0] == "decrement":
            return "counter"
        if c[0] in ("extend", "extend_from_slice"):
            root = c[1]
            while isinstance(root, tuple) and len(root) == 2 and root[0] == "after" and root[1][0] in ("extend", "extend_from_slice"):
                root = root[1][1]
            if isinstance(root, tuple) and root and root[0] == "to_vec":
                return "local-buffer"   # the message being assembled, a fresh Vec of this iteration
        return None
    return None


def reads_state(t):
    """does a guard term read cross-iteration state (an accumulator)?"""
    for x in subterms(t) if isinstance(t, tuple) else []:
        if isinstance(x, tuple) and len(x) == 2 and isinstance(x[0], str) and x[0].startswith(".") and x[1] in ("spend", "ret", "state"):
            if x[0] in IMMUTABLE_SPEND_ATTRS and x[1] == "spend":
                continue
            return x
    if isinstance(t, str) and t in ("max_cost",):
        return t
    return None


def classify_guard(t, v, facts_):
    s = reads_state(t)
    if s is None and "max_cost" not in str(t) and "announce_countdown" not in str(t):
        return "stateless"
    if isinstance(t, tuple) and t[0] == "HashSet::insert":
        return "insert-result"
    if isinstance(t, tuple) and t[0] == "Lt" and t[1] == "max_cost":
        return "budget-guard"
    if isinstance(t, tuple) and t[0] == "decrement":
        return "countdown"
    if isinstance(t, tuple) and len(t) == 2 and t[0].startswith(".") and v in ("Some", "None"):
        return "fold-presence"
    if isinstance(t, tuple) and t[0] == "Le" and v in (True, False):
        return "mirrored-impossibility-guard"
    if isinstance(t, tuple) and t[0] == "Option::is_some_and":
        return "birth-equality"
    if isinstance(t, tuple) and t[0] == "Option::ok_or" and "checked_add" in str(t):
        return "sum-overflow"
    if isinstance(t, tuple) and t[0] == "Vec::len":
        return "spend-index"
    return None


def c06_2(ctx):
    R = "C06.2"
    b, regs = RG.variant_regions(ctx.fb)
    if b is None or regs is None:
        return ctx.missing(R, "parse_conditions", "dispatch not found")
    ctx.touched(b.path)
    classes = {}
    n_eff = n_guard = 0
    for variant, paths in sorted(regs.items()):
        if variant.startswith("__"):
            continue
        bad = []
        for ex, facts_, eff in paths:
            for e in eff:
                n_eff += 1
                c = classify_effect(e, facts_)
                if c is None:
                    bad.append("effect %s" % (str(e)[:200],))
                else:
                    classes[c] = classes.get(c, 0) + 1
            for t, v in facts_:
                n_guard += 1
                c = classify_guard(t, v, facts_)
                if c is None:
                    bad.append("guard reads accumulator state: %s" % (str(t)[:200],))
                else:
                    classes["guard:" + c] = classes.get("guard:" + c, 0) + 1
        ctx.ob(R, "arm:" + variant, not bad,
               "all effects of the %s arm are commutative / order-only, all state-reading guards are symmetric" % variant,
               where=b.fn.sp, found=bad[:3] or None)
    presence_independence(ctx, R, b, regs)
    ctx.floor(R, "effects classified", n_eff, 100)
    ctx.floor(R, "guards classified", n_guard, 150)
    ctx.sample({"rule": R, "classes": classes})
    # the pre-charge region (cost budget) and the unknown-opcode path
    sws = [bi for bi, blk in enumerate(b.blocks) if blk["t"]["k"] == "switch" and bi in b.reach and blk["t"]["dty"] == "u16"]
    pa = [bi for bi, n, t in b.calls() if n.endswith("conditions::parse_args")]
    if len(sws) == 1 and len(pa) == 1:
        bad = []
        for ex, facts_, eff in RG.region_paths(b, sws[0], pa):
            for e in eff:
                if classify_effect(e, facts_) is None:
                    bad.append(str(e)[:200])
        ctx.ob(R, "pre-charge", not bad, "cost pre-charging only moves sums", found=bad[:3] or None)
    # spend-level accumulation in process_single_spend: removal_amount sum, spent_coins insert (collision rejects)
    fs = [f for p, f in ctx.fb.fns.items() if p.startswith(CC + "conditions::process_single_spend") and f.e["kind"] == "Fn"]
    if len(fs) == 1:
        pb = Body(fs[0], ctx.fb)
        bad = []
        kinds = set()
        for ev, ex in P.enumerate_paths(pb, want_assign=True):
            facts_ = frozenset(apnf.fact(t, l) for t, l in P.conds(ev))
            for e in (RG.effect_of(x) for x in ev):
                if e is None:
                    continue
                c = classify_effect(e, facts_)
                if c is None:
                    s = str(e)
                    if "HashMap::insert" in s and "spent_coins" in s:
                        c = "map-insert(collision rejects)"
                    elif "new_spend" in s or "parse_conditions" in s or ("'set'" in s and "SpendConditions::new" in s):
                        c = "per-spend-local"
                    elif "SpendVisitor" in s:
                        c = "visitor"
                if c is None:
                    bad.append(str(e)[:200])
                else:
                    kinds.add(c)
        ctx.ob(R, "process_single_spend", not bad and "sum" in kinds and "map-insert(collision rejects)" in kinds,
               "per-spend bookkeeping is a sum (removal_amount), a set insert (spent_puzzles) and a map insert whose collision rejects",
               found=bad[:3] or sorted(kinds))


# ------------------------------------------------------------------ C06.2 (presence independence) / C06.3
def _mentions_only(t, place):
    """does the guard term read accumulator state only through `place`?"""
    r = [x for x in subterms(t) if isinstance(x, tuple) and len(x) == 2 and isinstance(x[0], str) and x[0].startswith(".")
         and x[1] in ("spend", "ret", "state") and not (x[0] in IMMUTABLE_SPEND_ATTRS and x[1] == "spend")]
    return bool(r) and all(x == place for x in r)


def presence_independence(ctx, R, b, regs):
    """an arm that folds its argument into an Option accumulator (first assignment vs max/min with the existing value)
    must apply the same other checks (the mirrored impossibility guard, ephemeral bookkeeping) in both cases: the
    verdict may not depend on whether an earlier condition of the same kind was already seen"""
    n = 0
    for variant, paths in sorted(regs.items()):
        if variant.startswith("__"):
            continue
        places = set()
        for ex, facts_, eff in paths:
            for e in eff:
                c = classify_effect(e, facts_)
                if c in ("fold-max", "fold-min", "first-assign") and e[0] == "set":
                    places.add(e[1])
        for place in sorted(places, key=str):
            part = {"Some": set(), "None": set()}
            for ex, facts_, eff in paths:
                pres = [v for t, v in facts_ if t == place and v in ("Some", "None")]
                if len(pres) != 1:
                    continue
                rest = frozenset((str(t), v) for t, v in facts_ if not (t == place) and not _mentions_only(t, place))
                others = frozenset(str(e)[:160] for e in eff if not (e[0] == "set" and e[1] == place))
                part[pres[0]].add((ex[0] if isinstance(ex, tuple) else str(ex), rest, others))
            if not part["Some"] and not part["None"]:
                continue
            n += 1
            diff = part["Some"] ^ part["None"]
            ctx.ob(R, "presence-independent:%s:%s" % (variant, place[0]), not diff,
                   "the %s arm applies the same other checks and effects whether or not %s was already set" % (variant, place[0]),
                   where=b.fn.sp, found=[(x[0], sorted(x[1])[:6]) for x in sorted(diff, key=str)[:2]] or None)
    ctx.floor(R, "fold arms checked for presence independence", n, 6)


AMOUNTS = {(".removal_amount", "ret"), (".addition_amount", "ret"), (".reserve_fee", "ret")}


def classify_post_guard(t, v):
    """guards of the post-loop validation: each must be invariant under permuting spends / conditions"""
    if not isinstance(t, tuple):
        return None
    s = str(t)
    if t[0] in ("Lt", "Le", "Gt", "Ge"):
        leaves = {x for x in subterms(t) if isinstance(x, tuple) and len(x) == 2 and isinstance(x[0], str) and x[0].startswith(".") and x[1] in ("ret", "state", "spend")}
        if leaves and leaves <= AMOUNTS:
            return "amount-balance"
        if t[0] == "Le" and len(leaves) == 2 and {x[0].replace("before_", "") for x in leaves} == {sorted(leaves)[0][0].replace("before_", "")} \
                and all(x[0].endswith("_absolute") and x[1] == "ret" for x in leaves):
            return "mirrored-impossibility-guard"
        return None       # an ordering test on anything else (a spend index, a position) is order-dependent
    if t[0] == "next":
        return "iteration"
    if t[0] in ("Iterator::all", "Iterator::any"):
        # a quantifier over a collection: commutative; the closure's own guards are classified with the function's
        return "quantifier"
    if t[0] in ("HashSet::contains", "HashMap::contains_key", "HashMap::get", "HashSet::is_empty", "Vec::is_empty", "HashMap::is_empty"):
        return "membership"
    if len(t) == 2 and isinstance(t[0], str) and t[0].startswith(".") and v in ("Some", "None"):
        return "presence"
    if t[0] == "is_ephemeral":
        return "is_ephemeral"
    if t[0] in ("Ne", "Eq") and "HashMap::values" in s:
        return "message-balance"
    if t[0] in ("Ne", "Eq", "eq", "ne"):
        return "equality"
    return None


def c06_3(ctx):
    R = "C06.3"
    n = 0
    for name in ("conditions::validate_conditions", "conditions::is_ephemeral"):
        b = U.body(ctx, R, CC + name)
        if not b:
            continue
        bad = []
        seen = set()
        bodies_ = [b] + [Body(c, ctx.fb) for c in ctx.fb.closures_of(b.path)]
        for b_, node in [(x, nd) for x in bodies_ for nd in x.edge_info]:
            if b_.edge_info[node][0] not in b_.reach:
                continue
            t, lab = b_.edge_condition(node)
            f = apnf.fact(t, lab)
            if lab[0] == "try":
                continue
            key = str(f[0])
            if key in seen:
                continue
            seen.add(key)
            n += 1
            c = classify_post_guard(f[0], f[1])
            if c is None:
                bad.append(key[:220])
        ctx.ob(R, "guards:" + name.split("::")[-1], not bad,
               "every guard of %s is a permutation-invariant test (balance of sums, set membership, per-element iteration, presence, equality); "
               "none orders spend positions" % name.split("::")[-1], where=b.fn.sp, found=bad[:4] or None)
    ctx.floor(R, "post-loop guards classified", n, 25)
    c06_3b(ctx)


ALLOWED_LOOP_MUT = ("HashSet::insert", "HashMap::entry", "Entry::or_insert", "::next", "into_iter", "Iterator::next", "HashMap::values",
                    "HashSet::contains", "HashMap::get", "IntoIterator::into_iter")


def _fresh_per_iteration(b, ct):
    """every `&mut` argument of the call borrows a local that is (re)created inside the loop on each iteration
    (a per-element hasher), so the call carries no state across iterations"""
    roots = []
    for a in ct[2]:
        x = a
        while isinstance(x, tuple) and x and x[0] == "mutated":
            x = x[1]
        if isinstance(x, tuple) and x and x[0] == "refmut":
            roots.append(x[1])
    if not roots:
        return False
    for l in roots:
        ds = b.defs().get(l, [])
        if not ds or not all(d[1] in b.reach and b.in_cycle(d[1]) for d in ds):
            return False
    return True


def c06_3b(ctx):
    """the deferred checks accumulate across spends/conditions only commutatively: inside the loops of validate_conditions
    the only stores are `*slot = *slot + v` (checked add: exact integer sum, so the final balance is independent of the order
    in which sends and receives are seen) and the only in-place calls are set/map insertions and iterator steps.
    A saturating/wrapping/min/max update of a balance is order dependent."""
    R = "C06.3"
    b = U.body(ctx, R, CC + "conditions::validate_conditions")
    if not b:
        return
    bad = []
    n = 0
    for bi, blk in enumerate(b.blocks):
        if bi not in b.reach or not b.in_cycle(bi):
            continue
        for st in blk["s"]:
            if st["k"] == "assign" and st["pl"].get("p") and "*" in [e for e in st["pl"]["p"] if isinstance(e, str)]:
                n += 1
                place = apnf.N(b.place_term(st["pl"]))
                val = apnf.N(b.rvalue_term(st["rv"]))
                ok = isinstance(val, tuple) and val[0] == ".0" and isinstance(val[1], tuple) and val[1][0] == "AddWithOverflow" and val[1][1] == place
                if not ok:
                    bad.append("store %s <- %s at %s" % (str(place)[:80], str(val)[:120], b.where(bi)))
        tt = blk["t"]
        if tt["k"] == "call":
            ct = b.call_term(tt)
            if len(ct) == 4:
                n += 1
                nm = U.flat(ct[1])
                if not any(nm.endswith(a) or a in nm for a in ALLOWED_LOOP_MUT) and not _fresh_per_iteration(b, ct):
                    bad.append("in-place call %s at %s" % (nm, b.where(bi)))
    ctx.ob(R, "accumulation:validate_conditions", not bad,
           "inside the loops of validate_conditions balances are updated only by exact checked addition and sets only by insertion",
           found=bad[:4] or None, where=b.fn.sp)
    ctx.floor(R, "in-loop stores and in-place calls of validate_conditions", n, 5)
