"""C15.6 — verdict tables of the three stand-alone verifiers (exact, for every path of the bounded unrolling).

Every return of aggregate_verify / aggregate_verify_gt / verify is classified; a return that fits no row, or a branch
on anything but the enumerated tests, is a violation.  This pins: the signature-validity gate, the empty-list rule
(`sig == Signature::default()`), rejection on an invalid key or on a blst error for *any* element, and that the accepting
verdict is the final pairing check itself (not a constant, not a partial check).

  aggregate_verify      false  <= !sig.is_valid() | !pk.is_valid() (any element) | blst_pairing_aggregate_pk_in_g1 != SUCCESS (any element)
                        sig == default()          <= valid sig, no element
                        blst_pairing_finalverify(ctx, sig_gt)  <= valid sig, >= 1 element, every element valid and aggregated OK
  aggregate_verify_gt   false <= !sig.is_valid();  sig == default() <= no element;  (product of all elements) == sig.pair(generator) otherwise
  verify                blst_core_verify_pk_in_g1(pk_affine, sig_affine, hash=true, aug_msg, DST, ..) == SUCCESS  (single path)
"""
from .. import apnf
from .. import paths as P
from ..mir import Body
from . import util as U

SIG = "chia_bls::signature::"


def _rows(b):
    out = []
    for ev, ex in P.enumerate_paths(b):
        if ex[0] != "return":
            out.append((None, "exit:" + str(ex[0])))
            continue
        cs = [(str(apnf.N(t)), l) for t, l in P.conds(ev)]
        out.append((cs, str(apnf.N(P.ret_of(ev)))))
    return out


def run(ctx):
    R = "C15.6"
    fb = ctx.fb
    # ---- aggregate_verify
    b = U.body(ctx, R, SIG + "aggregate_verify")
    if b:
        bad = []
        classes = set()
        try:
            rows = _rows(b)
        except P.Budget:
            rows = None
            ctx.missing(R, "table:aggregate_verify", "path budget")
        for cs, r in rows or []:
            if cs is None:
                bad.append(r)
                continue
            kinds = {}
            unknown = []
            for t, l in cs:
                if t == "('Signature::is_valid', 'sig')":
                    kinds.setdefault("sigvalid", []).append(l[1])
                elif t.startswith("('Option::is_none', ('Peekable::peek', ('peekable', 'data')))"):
                    kinds.setdefault("empty", []).append(l[1])
                elif t.startswith("('PublicKey::is_valid', ('.0', ('next', "):
                    kinds.setdefault("pkvalid", []).append(l[1])
                elif t.startswith("('PartialEq::ne', ('blst_pairing_aggregate_pk_in_g1', "):
                    kinds.setdefault("blsterr", []).append(l[1])
                elif t.startswith("('next', ('after', "):
                    kinds.setdefault("next", []).append(l[1])
                else:
                    unknown.append(t[:100])
            if unknown:
                bad.append("branch on an unlisted test: %s" % unknown[0])
                continue
            if r in ("0", "False", "false"):
                ok = kinds.get("sigvalid") == [False] or False in kinds.get("pkvalid", []) or True in kinds.get("blsterr", [])
                classes.add("false")
                if not ok:
                    bad.append("returns false without a failed test: %s" % sorted(kinds.items()))
            elif r == "('eq', 'sig', ('default',))":
                classes.add("empty")
                if not (kinds.get("sigvalid") == [True] and kinds.get("empty") == [True]):
                    bad.append("empty-list verdict on a non-empty path")
            elif r.startswith("('blst_pairing_finalverify', "):
                classes.add("final")
                if kinds.get("sigvalid") == [True] and kinds.get("empty") == [False] and kinds.get("next") == [("None",)] and \
                        not kinds.get("pkvalid") and not kinds.get("blsterr"):
                    continue    # infeasible: peek() reported an element, so the first next() cannot be None
                ok = (kinds.get("sigvalid") == [True] and kinds.get("empty") == [False] and kinds.get("pkvalid") and all(kinds["pkvalid"])
                      and kinds.get("blsterr") and not any(kinds["blsterr"]) and len(kinds["pkvalid"]) == len(kinds["blsterr"])
                      and kinds.get("next", [None])[-1] == ("None",))
                if not ok:
                    bad.append("final pairing check reached with %s" % sorted(kinds.items()))
            else:
                bad.append("unlisted verdict %s" % r[:120])
        if rows is not None:
            ctx.ob(R, "table:aggregate_verify", not bad and classes == {"false", "empty", "final"},
                   "aggregate_verify: false only after a failed validity/blst test, `sig == default()` for no pairs, otherwise the final pairing check",
                   found=sorted(set(bad))[:3] or None, where=b.fn.sp)
        # the final check compares against the signature's own pairing and follows commit
        names = [U.flat(n).split("::")[-1] for bi, n, t in b.calls()]
        ok = all(x in names for x in ("blst_aggregated_in_g2", "blst_pairing_commit", "blst_pairing_finalverify", "blst_pairing_init"))
        fv = [bi for bi, n, t in b.calls() if U.flat(n).endswith("blst_pairing_finalverify")]
        cm = [bi for bi, n, t in b.calls() if U.flat(n).endswith("blst_pairing_commit")]
        ok = ok and len(fv) == 1 and len(cm) == 1 and b.dominates(cm[0], fv[0])
        ag = [t for bi, n, t in b.calls() if U.flat(n).endswith("blst_aggregated_in_g2")]
        aff = [t for bi, n, t in b.calls() if U.flat(n).endswith("blst_p2_to_affine")]
        ok = ok and len(ag) == 1 and len(aff) == 1 and "('.0', 'sig')" in str(apnf.N(b.operand_term(aff[0]["args"][1])))
        ctx.ob(R, "final:aggregate_verify", ok, "commit precedes finalverify; the GT operand is blst_aggregated_in_g2 of the signature's affine form", where=b.fn.sp)
    # ---- aggregate_verify_gt
    b = U.body(ctx, R, SIG + "aggregate_verify_gt")
    if b:
        bad = []
        classes = set()
        for cs, r in _rows(b):
            if cs is None:
                bad.append(r)
                continue
            sv = [l[1] for t, l in cs if t == "('Signature::is_valid', 'sig')"]
            nx = [l[1] for t, l in cs if t.startswith("('next', ")]
            other = [t for t, l in cs if t != "('Signature::is_valid', 'sig')" and not t.startswith("('next', ")]
            if other:
                bad.append("branch on an unlisted test: %s" % other[0][:100])
            elif r in ("0", "False", "false"):
                classes.add("false")
                if sv != [False]:
                    bad.append("returns false although the signature is valid")
            elif r == "('eq', 'sig', ('default',))":
                classes.add("empty")
                if not (sv == [True] and nx == [("None",)]):
                    bad.append("empty verdict on a non-empty path")
            elif r.startswith("('eq', ") and r.endswith("('Signature::pair', 'sig', ('PublicKey::generator',)))"):
                classes.add("product")
                n_some = sum(1 for x in nx if x == ("Some",))
                n_mul = r.count("'mul_assign'")
                if not (sv == [True] and nx and nx[-1] == ("None",) and n_mul == n_some - 1):
                    bad.append("product of %d factors for %d elements" % (n_mul + 1, n_some))
            else:
                bad.append("unlisted verdict %s" % r[:120])
        ctx.ob(R, "table:aggregate_verify_gt", not bad and classes == {"false", "empty", "product"},
               "aggregate_verify_gt: false iff the signature is invalid, `sig == default()` for no factors, else (product of ALL factors) == sig.pair(generator)",
               found=sorted(set(bad))[:3] or None, where=b.fn.sp)
    # ---- verify
    b = U.body(ctx, R, SIG + "verify")
    if b:
        rows = _rows(b)
        ok = len(rows) == 1 and rows[0][0] == [] and rows[0][1].startswith("('eq', ('blst_core_verify_pk_in_g1', ")
        cv = [t for bi, n, t in b.calls() if U.flat(n).endswith("blst_core_verify_pk_in_g1")]
        detail = None
        if ok and len(cv) == 1:
            a = [str(apnf.N(b.operand_term(x))) for x in cv[0]["args"]]
            # hash-to-curve mode on, augmentation absent (the message itself is pre-augmented with the key)
            ok = a[2] in ("1", "True", "true") and a[8] == "0"
            detail = a[2:]
            affs = {U.flat(n).split("::")[-1]: str(apnf.N(b.operand_term(t["args"][1]))) for bi, n, t in b.calls() if "to_affine" in U.flat(n)}
            ok = ok and "('.0', 'key')" in affs.get("blst_p1_to_affine", "") and "('.0', 'sig')" in affs.get("blst_p2_to_affine", "")
        else:
            ok = False
        ctx.ob(R, "table:verify", ok, "verify = (blst_core_verify_pk_in_g1(affine(key), affine(sig), hash=true, aug_msg, DST, no aug) == SUCCESS), one path",
               found=detail or [r[1][:100] for r in rows][:2], where=b.fn.sp)
        # aug_msg = key.to_bytes() ++ msg
        am = b.local_named("augmented_msg")
        ok = False
        if am:
            init = str(apnf.N(b.local_term(am[0])))
            ext = [str(apnf.N(a[1])) for _, n, a, _ in b.mut_history(am[0]) if U.flat(n).endswith("extend_from_slice")]
            ok = "PublicKey::to_bytes" in init and "'key'" in init and len(ext) == 1 and ext[0] in ("msg", "('as_ref', 'msg')") or ("PublicKey::to_bytes" in init and len(ext) == 1 and "msg" in ext[0] and "key" not in ext[0])
        ctx.ob(R, "aug:verify", ok, "the message handed to blst is key.to_bytes() ++ msg", where=b.fn.sp)
