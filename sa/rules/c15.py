"""C15 — verification paths agree; pairing cache is transparent and bounded.

Decided (structural, necessary conditions only):
  C15.1 capacity: only `BlsCacheData::put` grows `items`; `put` evicts before inserting when len ==/>= capacity
  C15.2 lock regions in verify/update/len/is_empty hold one map operation, no second lock, no caller code
  C15.3 the value cached under sha256(aug_msg) is pair(hash_to_g2(aug_msg), pk) of the same pair
  C15.4 every verifier rejects the infinity key (explicit is_inf, or delegates each key to a blst primitive that does)
"""
from ..mir import Body, strip_all, show, callee_name
from . import util as U

GROW = ("insert", "entry", "get_refresh", "extend", "insert_before", "to_front", "to_back")
SHRINK_OR_READ = ("remove", "pop_front", "pop_back", "clear", "get", "len", "is_empty", "contains_key",
                  "iter", "into_iter", "new", "front", "back", "keys", "values", "clone", "fmt", "get_mut")


def run(ctx):
    fb = ctx.fb
    ctx.explanation = (
        "WMC/MPT/DT/LOCK/PROV/SIB rules over the MIR of chia-bls: who may grow the cache map, eviction "
        "dominates insertion, contents of each Mutex lock region, provenance of the cached pairing, "
        "and infinity-key handling of each verifier. Decides these structural clauses, not verdict equality "
        "(pairing algebra is inside blst).")
    ctx.trusted += ["blst_pairing_aggregate_pk_in_g1 and blst_core_verify_pk_in_g1 reject the infinity public key",
                    "linked_hash_map::LinkedHashMap semantics", "std::sync::Mutex"]
    ctx.assumptions += ["callers of the public BlsCache::update(aug_msg, gt) pass the true pairing of aug_msg",
                        "N: equality of verdicts between verifiers in general (pairing algebra in blst)"]
    c15_1(ctx)
    c15_2(ctx)
    c15_3(ctx)
    c15_4(ctx)
    c15_5(ctx)
    c15_4b(ctx)
    from . import c15_verdict
    c15_verdict.run(ctx)


def _find(fb, prefix):
    fs = [f for p, f in fb.fns.items() if (p == prefix or p.startswith(prefix + "::<")) and f.e["kind"] in ("Fn", "AssocFn")]
    return fs[0] if len(fs) == 1 else None


def c15_5(ctx, R="C15.5"):
    """every (pk, msg) pair contributes exactly one factor on every verification path: the cached verifier maps the
    caller's iterator 1:1 (no filter / dedup / skip), the folds multiply on every iteration, the closure returns a pairing on
    both the hit and the miss branch"""
    from .. import apnf
    from .. import paths as P
    fb = ctx.fb
    f = _find(fb, "chia_bls::bls_cache::BlsCache::aggregate_verify")
    if f:
        b = Body(f, fb)
        ctx.touched(b.path)
        gt = [t for bi, n, t in b.calls() if "aggregate_verify_gt" in n]
        ok = len(gt) == 1
        it = None
        if ok:
            it = apnf.N(strip_all(b.operand_term(gt[0]["args"][1])))
            ok = isinstance(it, tuple) and it[0] == "map" and it[1] == "pks_msgs" and isinstance(it[2], tuple) and it[2][0] == "closure"
        ctx.ob(R, "cached:one-factor-per-pair", ok, "BlsCache::aggregate_verify hands aggregate_verify_gt exactly pks_msgs.map(pairing): one factor per pair",
               found=str(it)[:200], where=f.sp)
        cl = fb.closures_of(f.path)
        if len(cl) == 1:
            cb = Body(cl[0], fb)
            rets = set()
            for ev, ex in P.enumerate_paths(cb):
                if ex[0] == "return":
                    rets.add(str(apnf.N(P.ret_of(ev)))[:60])
                elif ex[0] != "diverge":
                    rets.add("?" + str(ex[0]))
            ok = len(rets) == 2 and any("Signature::pair" in r for r in rets) and any("cloned" in r or "HashMap::get" in r or "get" in r for r in rets)
            ctx.ob(R, "cached:closure-returns-pairing", ok, "the per-pair closure returns the cached pairing on a hit and the computed pairing on a miss", found=sorted(rets))
        else:
            ctx.missing(R, "cached:closure", "closure not found")
    else:
        ctx.missing(R, "cached", "BlsCache::aggregate_verify not found")
    for nm, step in (("aggregate_verify_gt", "mul_assign"), ("aggregate_verify", "blst_pairing_aggregate_pk_in_g1")):
        f = _find(fb, "chia_bls::signature::" + nm)
        if not f:
            ctx.missing(R, "fold:" + nm, "not found")
            continue
        b = Body(f, fb)
        ctx.touched(b.path)
        nxt = [bi for bi, n, t in b.calls() if n.endswith("::next") and b.in_cycle(bi)]
        steps = [bi for bi, n, t in b.calls() if step in n and b.in_cycle(bi)]
        ok = len(nxt) == 1 and len(steps) == 1
        if ok:
            # from the Some-edge of next, the loop head is not reachable again without the fold step; leaving the loop
            # without it is only possible through a `return false`
            for x in b.succ[nxt[0]]:
                if b.reachable_avoiding(x, [nxt[0]], [steps[0]]):
                    ok = False
        ctx.ob(R, "fold:" + nm, ok, "%s folds every element of its input (no iteration returns to the loop head without `%s`)" % (nm, step),
               found={"next": len(nxt), "step": len(steps)}, where=f.sp)


def c15_1(ctx):
    fb = ctx.fb
    R = "C15.1"
    # --- who may grow a LinkedHashMap in chia_bls
    n_sites = 0
    for p, f in fb.fns.items():
        if not p.startswith("chia_bls::") and "chia_bls::" not in p:
            continue
        for c in f.e.get("calls", []):
            name = c.get("res") or c.get("def") or ""
            if not name.startswith("linked_hash_map::LinkedHashMap"):
                continue
            meth = U.flat(name).split("::")[-1]
            n_sites += 1
            if meth in SHRINK_OR_READ:
                continue
            ok = p == "chia_bls::bls_cache::BlsCacheData::put"
            ctx.ob(R, "wmc:%s:%s" % (p, meth), ok,
                   "LinkedHashMap::%s (may grow the cache) called from %s; only BlsCacheData::put may" % (meth, p),
                   where=f.sp)
    ctx.floor(R, "linked_hash_map call sites in chia_bls", n_sites, 8)
    # the struct and its fields are private
    adt = fb.adts.get("chia_bls::bls_cache::BlsCacheData")
    if not adt:
        ctx.missing(R, "adt:BlsCacheData", "struct not found")
    else:
        ctx.ob(R, "vis:BlsCacheData", not adt["pub"], "BlsCacheData must stay private to the module")
        flds = {f["name"]: f for f in adt["variants"][0]["fields"]}
        ctx.ob(R, "vis:BlsCacheData.items", "items" in flds and not flds["items"]["pub"], "items private")
        ctx.ob(R, "ty:BlsCacheData.capacity", "capacity" in flds and "NonZero" in flds["capacity"]["ty"],
               "capacity is NonZeroUsize", found=flds.get("capacity", {}).get("ty"))
    cache = fb.adts.get("chia_bls::bls_cache::BlsCache")
    if cache:
        flds = {f["name"]: f for f in cache["variants"][0]["fields"]}
        ctx.ob(R, "vis:BlsCache.cache", "cache" in flds and not flds["cache"]["pub"], "Mutex field private")
    # aggregates of BlsCacheData only in new() and the derived Clone
    for p, f in fb.fns.items():
        if "bls_cache" not in p:
            continue
        b = Body(f, fb)
        for bi, blk in enumerate(b.blocks):
            for s in blk["s"]:
                if s["k"] == "assign" and s["rv"]["k"] == "agg" and s["rv"].get("adt") == "chia_bls::bls_cache::BlsCacheData":
                    ok = p in ("chia_bls::bls_cache::BlsCache::new",
                               "<chia_bls::bls_cache::BlsCacheData as core::clone::Clone>::clone")
                    ctx.ob(R, "construct:%s" % p, ok, "BlsCacheData constructed in %s" % p, where=f.sp)
    # --- put: eviction dominates insertion
    b = U.body(ctx, R, "chia_bls::bls_cache::BlsCacheData::put")
    if not b:
        return
    ins = U.calls_named(b, "::insert")
    pops = U.calls_named(b, "::pop_front")
    if len(ins) != 1:
        ctx.missing(R, "put:insert", "expected exactly one insert in put, found %d" % len(ins))
        return

    def is_full_test(t, lab):
        # (len(self.items) ==|>= get(self.capacity)) is FALSE  -> no eviction needed
        if lab[0] != "bool" or t[0] != "bin":
            return False
        op, a, c = t[1], t[2], t[3]
        def is_len(x):
            return U.has_call(x, "::len") and U.has_field(x, "items")
        def is_cap(x):
            return U.has_call(x, "::get") and U.has_field(x, "capacity")
        if is_len(a) and is_cap(c) and op in ("Eq", "Ge"):
            return lab[1] is False
        if is_cap(a) and is_len(c) and op in ("Eq", "Le"):
            return lab[1] is False
        if is_len(a) and is_cap(c) and op in ("Ne", "Lt"):
            return lab[1] is True
        if is_cap(a) and is_len(c) and op in ("Ne", "Gt"):
            return lab[1] is True
        return False

    notfull = U.edges_where(b, is_full_test)
    pop_ret = [U.call_succ(b, bi) for bi, _, t in pops if U.has_field(b.operand_term(t["args"][0]), "items")]
    ctx.ob(R, "put:full-test", len(notfull) >= 1,
           "put compares items.len() with capacity.get() by ==/>= (found %d such branch)" % len(notfull),
           where=b.fn.sp)
    U.must_pass(ctx, R, b, "put:evict-before-insert", [ins[0][0]], notfull + pop_ret,
                "every path to items.insert passes `len < capacity` or items.pop_front()")
    ctx.sample({"rule": R, "fn": b.path, "insert_bb": ins[0][0], "not_full_edges": notfull, "pop_front_returns": pop_ret})


ALLOWED_IN_LOCK = (
    "::expect", "::unwrap", "Deref>::deref", "DerefMut>::deref_mut", "LinkedHashMap::get", "LinkedHashMap::len",
    "LinkedHashMap::is_empty", "BlsCacheData::put", "Option::cloned", "Clone>::clone",
)


def c15_2(ctx):
    R = "C15.2"
    targets = ["chia_bls::bls_cache::BlsCache::aggregate_verify::{closure#0}",
               "chia_bls::bls_cache::BlsCache::update",
               "chia_bls::bls_cache::BlsCache::len",
               "chia_bls::bls_cache::BlsCache::is_empty"]
    nreg = 0
    for p in targets:
        b = U.body(ctx, R, p)
        if not b:
            continue
        regs = U.lock_regions(b)
        if not regs:
            ctx.missing(R, "lock:" + p, "no Mutex::lock region found")
            continue
        for k, (lb, guards, region, drops) in enumerate(regs):
            nreg += 1
            key = "lock:%s#%d" % (p, k)
            if not drops:
                ctx.ob(R, key + ":released", False, "guard is never dropped inside the function", where=b.where(lb))
                continue
            bad = []
            mapops = 0
            for bi in sorted(x for x in region if x < b.n):
                t = b.blocks[bi]["t"]
                if t["k"] != "call":
                    continue
                name = U.flat(U.callee_name(t["f"]))
                st = t["f"].get("status")
                if st in ("indirect", "unresolved", "generic") and not any(name.endswith(a) or a in name for a in ALLOWED_IN_LOCK):
                    bad.append("caller-supplied/unresolved call %s" % name)
                    continue
                if name.endswith("::lock") and "Mutex" in name:
                    bad.append("nested lock")
                    continue
                if not any(a in name for a in ALLOWED_IN_LOCK):
                    bad.append("call %s" % name)
                    continue
                if "LinkedHashMap::" in name or name.endswith("BlsCacheData::put"):
                    mapops += 1
            ctx.ob(R, key, not bad and mapops == 1,
                   "lock region holds exactly one map operation and nothing else (map ops=%d%s)" % (
                       mapops, "; offending: " + "; ".join(bad) if bad else ""),
                   where=b.where(lb))
            ctx.sample({"rule": R, "fn": p, "lock_bb": lb, "region_blocks": sorted(x for x in region if x < b.n),
                        "map_ops": mapops})
    ctx.floor(R, "lock regions", nreg, 5)


def c15_3(ctx):
    R = "C15.3"
    b = U.body(ctx, R, "chia_bls::bls_cache::BlsCache::aggregate_verify::{closure#0}")
    if not b:
        return
    puts = U.calls_named(b, "BlsCacheData::put")
    if len(puts) != 1:
        return ctx.missing(R, "verify:put", "expected one put in the verify closure, found %d" % len(puts))
    bi, _, t = puts[0]
    key_t = strip_all(b.operand_term(t["args"][1]))
    val_t = strip_all(b.operand_term(t["args"][2]))
    # key = Sha256::finalize(hasher); hasher history = [update(&aug_msg)]
    ok_key = key_t[0] == "call" and U.flat(key_t[1]).endswith("Sha256::finalize")
    # the hasher and the augmented message are found by what they are, not by their names: the local created by Sha256::new,
    # and the local created by `to_vec` that is then extended
    hl = [l for l, ds in b.defs().items() if isinstance(l, int) and len(ds) == 1 and ds[0][0] == "c" and
          U.flat(callee_name(ds[0][3]["f"])).endswith("Sha256::new")]
    al = [l for l, ds in b.defs().items() if isinstance(l, int) and len(ds) == 1 and ds[0][0] == "c" and
          U.flat(callee_name(ds[0][3]["f"])).endswith("to_vec") and
          any(U.flat(n).endswith("extend_from_slice") for _, n, _, _ in b.mut_history(l))]
    if len(hl) != 1 or len(al) != 1:
        return ctx.missing(R, "verify:locals", "hasher/aug_msg locals not found")
    hh = b.mut_history(hl[0])
    ah = b.mut_history(al[0])
    upd = [(n, a) for _, n, a, _ in hh]
    ok_h = len(upd) == 1 and U.flat(upd[0][0]).endswith("Sha256::update") and _is_local(upd[0][1][1], b, al[0])
    ctx.ob(R, "verify:key", ok_key and ok_h,
           "cache key = sha256 over exactly aug_msg (history %s)" % [(U.flat(n), [show(x) for x in a]) for n, a in upd],
           where=b.where(bi), found=show(key_t))
    # aug_msg = to_vec(to_bytes(borrow(pk))) then extend_from_slice(as_ref(msg))
    a_def = strip_all(b.local_term(al[0]))
    pk = b.local_named("pk")
    msg = b.local_named("msg")
    ok_def = (a_def[0] == "call" and U.flat(a_def[1]).endswith("to_vec") and U.has_call(a_def, "PublicKey::to_bytes")
              and _mentions_local(a_def, b, pk))
    ext = [(U.flat(n), a) for _, n, a, _ in ah]
    ok_ext = len(ext) == 1 and ext[0][0].endswith("extend_from_slice") and _mentions_local(strip_all(ext[0][1][1]), b, msg)
    ctx.ob(R, "verify:aug_msg", ok_def and ok_ext,
           "aug_msg = pk.to_bytes() || msg and nothing else (def %s; mutations %s)" % (
               show(a_def), [(n, [show(x) for x in a]) for n, a in ext]), where=b.fn.sp)
    # value = clone(pair(hash_to_g2(&aug_msg), borrow(pk)))
    pair = U.find_call(val_t, "Signature::pair")
    ok_val = False
    if pair:
        g2 = strip_all(pair[2][0])
        ok_val = (g2[0] == "call" and U.flat(g2[1]).endswith("hash_to_g2") and _is_local(g2[2][0], b, al[0], deep=True)
                  and _mentions_local(strip_all(pair[2][1]), b, pk))
    ctx.ob(R, "verify:value", ok_val, "cached value = hash_to_g2(aug_msg).pair(pk) of the same pair",
           where=b.where(bi), found=show(val_t))
    # the miss path returns that same pairing; the hit path returns the (cloned) stored value
    rets = b.ret_assignments()
    rts = [strip_all(b.rvalue_term(x)) for _, k, _, x in rets if k != "call"]
    rterms = [show(r) for r in rts]
    ok_ret = len(rets) == 2 and all(
        (r[0] == "call" and U.flat(r[1]).endswith("Signature::pair")) or
        (U.has_call(r, "::cloned") and U.has_call(r, "LinkedHashMap::get") and U.has_field(r, "items"))
        for r in rts)
    ctx.ob(R, "verify:returns", ok_ret, "closure returns the stored clone on a hit, the computed pairing on a miss",
           found=rterms)
    ctx.sample({"rule": R, "key": show(key_t), "value": show(val_t), "aug_msg_def": show(a_def)})
    # update(): key = sha256(aug_msg param), value = gt param
    u = U.body(ctx, R, "chia_bls::bls_cache::BlsCache::update")
    if u:
        puts = U.calls_named(u, "BlsCacheData::put")
        if len(puts) != 1:
            ctx.missing(R, "update:put", "expected one put")
        else:
            t = puts[0][2]
            kt = strip_all(u.operand_term(t["args"][1]))
            vt = strip_all(u.operand_term(t["args"][2]))
            hl = u.local_named("hasher")
            hh = u.mut_history(hl[0]) if hl else []
            ok = (kt[0] == "call" and U.flat(kt[1]).endswith("Sha256::finalize") and len(hh) == 1
                  and U.has_arg(hh[0][2][1], "aug_msg") and vt == ("arg", 2, "gt"))
            ctx.ob(R, "update:key-value", ok, "update stores gt under sha256(aug_msg)", found=[show(kt), show(vt)])


def _is_local(t, b, l, deep=False):
    """term is (a reference to / deref of) local l"""
    lt = strip_all(b.local_term(l))
    return strip_all(t) == lt or (deep and lt in list(_sub(strip_all(t))))


def _sub(t):
    from ..mir import subterms
    return subterms(t)


def _mentions_local(t, b, ls):
    for l in ls:
        lt = strip_all(b.local_term(l))
        if lt in list(_sub(t)):
            return True
    return False


INF_REJECTING_BLST = ("blst_pairing_aggregate_pk_in_g1", "blst_core_verify_pk_in_g1")


def c15_4(ctx):
    """each verifier that takes public keys rejects infinity for every key"""
    R = "C15.4"
    fb = ctx.fb
    verifiers = {
        "chia_bls::signature::verify": "key",
        "chia_bls::signature::aggregate_verify": "pk",
        "chia_bls::bls_cache::BlsCache::aggregate_verify::{closure#0}": "pk",
    }
    for p, keyname in verifiers.items():
        b = U.body(ctx, R, p)
        if not b:
            continue
        names = [U.flat(n) for _, n, _ in b.calls()]
        explicit = [(bi, n, t) for bi, n, t in b.calls() if U.flat(n).endswith("PublicKey::is_inf")]
        delegated = [n for n in names if any(n.endswith(x) for x in INF_REJECTING_BLST)]
        ok = False
        how = ""
        if explicit:
            ok, how = _explicit_inf_effective(ctx, b, explicit)
        elif delegated:
            ok = True
            how = "delegates every key to %s" % delegated[0].split("::")[-1]
        ctx.ob(R, "inf:" + p, ok,
               "verifier rejects the infinity public key (%s)" % (how or "no is_inf test and no infinity-rejecting blst primitive on the key path"),
               where=b.fn.sp)
        ctx.sample({"rule": R, "fn": p, "how": how or "NONE"})
    # empty list => sig == default; invalid signature => false first
    for p in ("chia_bls::signature::aggregate_verify", "chia_bls::signature::aggregate_verify_gt"):
        b = U.body(ctx, R, p)
        if not b:
            continue
        valid = U.calls_named(b, "Signature::is_valid")
        ctx.ob(R, "sigvalid:" + p, len(valid) >= 1 and b.dominates(valid[0][0], _first_iter_block(b) or valid[0][0]),
               "signature validity is tested before anything else", where=b.fn.sp)
        eqs = [n for _, n, _ in b.calls() if "PartialEq" in n and "Signature" in n]
        dflt = [n for _, n, _ in b.calls() if "Default" in n and "Signature" in n]
        ctx.ob(R, "empty:" + p, bool(eqs) and bool(dflt), "empty list => verdict is `sig == Signature::default()`",
               where=b.fn.sp)


def _first_iter_block(b):
    for bi, n, t in b.calls():
        if "into_iter" in n:
            return bi
    return None


def _explicit_inf_effective(ctx, b, explicit):
    """an explicit is_inf() test counts only if its result decides the verdict:
    (a) its true-edge cannot reach an accepting exit of this function, or
    (b) (closure) it is accumulated into a captured flag that the enclosing function
        negates into every non-false return value."""
    from ..mir import subterms
    fb = ctx.fb
    # (a) branch on the result
    for bi, n, t in explicit:
        d = t["dest"]["l"]
        for node in b.edge_info:
            term, lab = b.edge_condition(node)
            if lab == ("bool", True) and U.has_call(term, "PublicKey::is_inf"):
                rets_true = [x for x, k, dd, rv in b.ret_assignments()
                             if not (k == "const" and dd.get("v") == 0)]
                if not b.reachable_avoiding(node, rets_true, []):
                    return True, "explicit is_inf branch that only reaches rejecting exits"
    # (b) captured flag
    flag_idx = None
    for bi, blk in enumerate(b.blocks):
        if bi not in b.reach:
            continue
        for s_ in blk["s"]:
            if s_["k"] != "assign":
                continue
            pl = s_["pl"]
            if not pl.get("p"):
                continue
            pt = strip_all(b.place_term(pl))
            if pt[0] == "f" and pt[1][0] == "arg" and pt[1][1] == 0 and pt[2].isdigit():
                rt = b.rvalue_term(s_["rv"])
                if U.has_call(rt, "PublicKey::is_inf") and rt[0] == "bin" and rt[1] in ("BitOr",):
                    # the accumulation must happen for every key: on every path of the closure (cache hit and miss alike)
                    rets = [x for x in b.return_blocks() if x in b.reach]
                    if any(b.reachable_avoiding(0, [x], [bi]) for x in rets) and bi != 0:
                        return False, "is_inf is accumulated only on some paths of the per-pair closure"
                    flag_idx = int(pt[2])
    if flag_idx is None:
        return False, ""
    parent_path = b.fn.e.get("closure_of")
    pf = fb.fns.get(parent_path)
    if not pf:
        return False, ""
    pb = Body(pf, fb)
    ctx.touched(parent_path)
    flag_local = None
    for bi, blk in enumerate(pb.blocks):
        for s_ in blk["s"]:
            if s_["k"] == "assign" and s_["rv"]["k"] == "agg" and s_["rv"].get("closure") == b.path:
                ot = pb.operand_term(s_["rv"]["ops"][flag_idx])
                if ot[0] == "refmut":
                    flag_local = ot[1]
    if flag_local is None:
        return False, ""
    good = True
    n = 0
    for bi, k, dd, rv in pb.ret_assignments():
        if k == "const" and dd.get("v") == 0:
            continue
        n += 1
        rt = pb.rvalue_term(rv) if k != "call" else ("call",)
        neg = any(isinstance(x, tuple) and x and x[0] == "un" and x[1] == "Not" and
                  any(isinstance(y, tuple) and y and y[0] == "mutated" and y[2] == flag_local for y in subterms(x))
                  for x in subterms(rt))
        guarded = any(lab == ("bool", False) and any(isinstance(y, tuple) and y and y[0] == "mutated" and y[2] == flag_local
                                                     for y in subterms(term))
                      for term, lab in pb.dominating_conditions(bi))
        if not (neg or guarded):
            good = False
    if good and n >= 1:
        return True, "is_inf accumulated into a captured flag that is negated into every non-false verdict"
    return False, ""


def c15_4b(ctx):
    """the infinity tests the verifiers rely on are the blst primitives on the point itself (projective coordinates: an
    infinity reached by arithmetic has Z == 0 with arbitrary X, Y, so comparing X/Y against zero misses it)"""
    from .. import apnf
    from .. import paths as P
    R = "C15.4"
    for ty, mod_, prim in (("PublicKey", "public_key", "blst_p1_is_inf"), ("Signature", "signature", "blst_p2_is_inf")):
        f = ctx.fb.fns.get("chia_bls::%s::%s::is_inf" % (mod_, ty))
        if f is None:
            if ty == "PublicKey":
                ctx.missing(R, "is_inf:" + ty, "not found")
            continue
        b = Body(f, ctx.fb)
        ctx.touched(b.path)
        rows = {(ex[0], str(apnf.N(P.ret_of(ev))) if ex[0] == "return" else "", len(P.conds(ev))) for ev, ex in P.enumerate_paths(b)}
        ctx.ob(R, "is_inf:" + ty, rows == {("return", "('%s', ('.0', 'self'))" % prim, 0)},
               "%s::is_inf = %s(&self.0)" % (ty, prim), found=sorted(map(str, rows))[:2], where=f.sp)
