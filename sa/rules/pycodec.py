"""Rule W2 — the Python methods the PyStreamable derive generates for every exported streamable class.

The pinned suite does not run Python, so these bodies are exercised by no test.  One macro produces them for all classes
(133 on the pinned tree), so the rule is evaluated on every generated instance:

  py_from_bytes            -> <T as Streamable>::from_bytes(blob)            (the *checked* decoder, never the unchecked one)
  py_from_bytes_unchecked  -> <T as Streamable>::from_bytes_unchecked(blob)
  parse_rust(blob,trusted) -> <T as Streamable>::parse::<true>  only under trusted == true,
                              <T as Streamable>::parse::<false> only under trusted == false
  py_to_bytes / __bytes__ / stream_to_bytes -> <T as Streamable>::stream(self)
  get_hash                 -> Sha256::new(); <T as Streamable>::update_digest(self, ..); finalize()
  to_json_dict             -> <T as ToJsonDict>::to_json_dict(self)      from_json_dict -> <T as FromJsonDict>::from_json_dict(json_dict)
"""
from .. import apnf
from ..mir import Body, strip_all
from . import util as U

ST = "chia_traits::streamable::Streamable"


def _calls(b):
    return [(bi, U.flat(n), t) for bi, n, t in b.calls()]


def run(ctx, R, parts=("bytes", "hash", "json")):
    fb = ctx.fb
    tys = sorted(p[:-len("::py_from_bytes")] for p in fb.fns if p.endswith("::py_from_bytes"))
    bad = {k: [] for k in ("from_bytes", "from_bytes_unchecked", "parse_rust", "to_bytes", "get_hash", "to_json", "from_json")}
    n = 0
    for ty in tys:
        tr = "<%s as %s>::" % (ty, ST)
        n += 1

        def body(m):
            f = fb.fns.get(ty + "::" + m)
            if f is None:
                return None
            return Body(f, fb)
        if "bytes" in parts:
            b = body("py_from_bytes")
            cs = [c for c in _calls(b) if c[1].startswith(tr) or "from_bytes" in c[1].split("::")[-1]] if b else []
            if not (b and [c[1] for c in cs] == [tr + "from_bytes"] and "blob" in str(apnf.N(b.operand_term(cs[0][2]["args"][0])))):
                bad["from_bytes"].append(ty)
            b = body("py_from_bytes_unchecked")
            cs = [c for c in _calls(b) if c[1].startswith(tr) or "from_bytes" in c[1].split("::")[-1]] if b else []
            if not (b and [c[1] for c in cs] == [tr + "from_bytes_unchecked"] and "blob" in str(apnf.N(b.operand_term(cs[0][2]["args"][0])))):
                bad["from_bytes_unchecked"].append(ty)
            b = body("parse_rust")
            ok = b is not None
            if ok:
                table = {}
                for bi, nm, t in b.calls():
                    fl = U.flat(nm)
                    if not fl.startswith(tr + "parse"):
                        continue
                    mode = (t["f"].get("args") or ["?"])[-1]
                    conds = [(strip_all(c[0]), c[1]) for c in b.dominating_conditions(bi)]
                    tv = [c[1][1] for c in conds if c[0] and c[0][0] == "arg" and c[0][2] == "trusted" and c[1][0] == "bool"]
                    table[mode] = tv
                ok = table == {"true": [True], "false": [False]}
            if not ok:
                bad["parse_rust"].append(ty)
            b = body("py_to_bytes")
            cs = [c for c in _calls(b) if c[1].startswith(tr)] if b else []
            ok = b is not None and [c[1] for c in cs] == [tr + "stream"] and str(apnf.N(b.operand_term(cs[0][2]["args"][0]))) == "self"
            for alias in ("__bytes__", "stream_to_bytes"):
                ab = body(alias)
                ok = ok and ab is not None and [c[1] for c in _calls(ab) if c[1].startswith(ty + "::") or c[1].startswith(tr)] == [ty + "::py_to_bytes"]
            if not ok:
                bad["to_bytes"].append(ty)
        if "hash" in parts:
            b = body("get_hash")
            ok = b is not None
            if ok:
                seq = [c[1] for c in _calls(b) if c[1].startswith(tr) or c[1].startswith("chia_sha2::Sha256::")]
                ok = seq == ["chia_sha2::Sha256::new", tr + "update_digest", "chia_sha2::Sha256::finalize"]
                if ok:
                    ud = [c for c in _calls(b) if c[1] == tr + "update_digest"][0]
                    ok = str(apnf.N(b.operand_term(ud[2]["args"][0]))) == "self"
            if not ok:
                bad["get_hash"].append(ty)
        if "json" in parts:
            for meth, trait, key, argpred in (
                    ("to_json_dict", "chia_traits::to_json_dict::ToJsonDict", "to_json", lambda a: a == "self"),
                    ("from_json_dict", "chia_traits::from_json_dict::FromJsonDict", "from_json", lambda a: "json_dict" in a)):
                b = body(meth)
                ok = b is not None
                if ok:
                    cs = [t for bi, nm, t in b.calls() if t["f"].get("method") == meth or nm.endswith("::" + meth)]
                    ok = len(cs) == 1 and cs[0]["f"].get("trait") == trait and cs[0]["f"].get("self_ty") == ty and \
                        cs[0]["f"].get("status") == "resolved" and argpred(str(apnf.N(b.operand_term(cs[0]["args"][0]))))
                if not ok:
                    bad[key].append(ty)
    texts = {
        "from_bytes": ("bytes", "py_from_bytes decodes with the checked Streamable::from_bytes(blob)"),
        "from_bytes_unchecked": ("bytes", "py_from_bytes_unchecked decodes with Streamable::from_bytes_unchecked(blob)"),
        "parse_rust": ("bytes", "parse_rust uses parse::<true> only when `trusted` is true and parse::<false> otherwise"),
        "to_bytes": ("bytes", "py_to_bytes / __bytes__ / stream_to_bytes emit Streamable::stream(self)"),
        "get_hash": ("hash", "get_hash = Sha256 over Streamable::update_digest(self)"),
        "to_json": ("json", "to_json_dict delegates to the ToJsonDict impl of the same type on self"),
        "from_json": ("json", "from_json_dict delegates to the FromJsonDict impl of the same type on the argument"),
    }
    for k, (part, text) in texts.items():
        if part in parts:
            ctx.ob(R, "pyclass:" + k, not bad[k], "%s (all %d exported classes)" % (text, n), found=bad[k][:4] or None)
    ctx.floor(R, "exported streamable classes with generated Python methods", n, 130)
