"""C09 — trusted fast paths report what full validation reports.

  C09.1 removals: additions_and_removals and get_coinspends[_with_conditions]_for_trusted_block compute each removed
        coin as Coin(parent, tree_hash_cached(puzzle), parse_amount(amount)) — the roles run_block_generator2 feeds to
        process_single_spend; the coin id is Coin::coin_id() (canonical by C11); removals are pushed in list order
  C09.2 additions scan: opcode literal [51]; arguments (Bytes32, (amount-node, rest)); amount via parse_amount;
        parent = the spent coin's id; hint rule = "first element of the third argument, if an atom of length <= 32",
        and the nil atom means no hint — the same None-rule OwnedSpendConditions applies (sibling agreement);
        SpendBundle::additions: opcode 51, (Bytes32, (u64, _)), parent = coin_id() of the spent coin, private cost
        constant == NEW_CREATE_COIN_COST
  C09.3 get_puzzle_and_solution_for_coin returns (puzzle, solution) only where parent, amount and
        tree_hash_cached(puzzle) were all compared with the requested coin and equal
"""
from .. import apnf
from .. import paths as P
from ..mir import Body, strip_all, show, subterms
from . import util as U
from .c02 import _fn

CC = "chia_consensus::"


def run(ctx):
    ctx.explanation = (
        "SIB/TBL/MPT rules: the trusted helpers re-implement spend and CREATE_COIN scanning with other parsers; the rules compare "
        "the roles of the values they build (coin = parent, tree hash of the puzzle node, parsed amount), the literal opcode, the "
        "hint None-rule against the one applied to validated conditions, and the equality gates of the coin lookup. That rebuilt "
        "generators have the same conditions needs CLVM execution and is not decided.")
    ctx.trusted += ["clvm-traits tuple FromClvm", "clvmr run_program", "tree_hash_cached (C17)"]
    ctx.assumptions += ["N: equality on concrete blocks; rebuilt generators having the same conditions"]
    c09_1(ctx)
    c09_2(ctx)
    c09_shapes(ctx)
    c09_3(ctx)
    c09_4(ctx)
    c09_5(ctx)
    c09_6(ctx)
    c09_7(ctx)
    c09_8(ctx)
    # removal / addition ids come from Coin::coin_id (amount ladder, shared with C11.1); the coin lookup walks spends with the
    # sanitiser atoms first/rest/next/check_nil (value-based nil test, shared with C01.3)
    from . import c11, c01
    from . import cond_spec as _S
    c11.ladder(ctx, "chia_protocol::coin::Coin::coin_id", "coin_id", rule="C09.1")
    c01.c01_3(ctx, _S.load(), R="C09.3")


def _coin_aggs(b):
    """[(bb, {field: term})] for Coin { .. } aggregates and Coin::new(..) calls"""
    out = []
    for bi, blk in enumerate(b.blocks):
        if bi not in b.reach:
            continue
        for s in blk["s"]:
            if s["k"] == "assign" and s["rv"]["k"] == "agg" and s["rv"].get("adt") == "chia_protocol::coin::Coin":
                out.append((bi, dict(zip(s["rv"]["fields"], [strip_all(b.operand_term(o)) for o in s["rv"]["ops"]]))))
    for bi, n, t in b.calls():
        if n == "chia_protocol::coin::Coin::new":
            a = [strip_all(b.operand_term(x)) for x in t["args"]]
            out.append((bi, {"parent_coin_info": a[0], "puzzle_hash": a[1], "amount": a[2]}))
    return out


def c09_1(ctx):
    R = "C09.1"
    fb = ctx.fb
    targets = {
        "additions_and_removals": CC + "additions_and_removals::additions_and_removals",
        "get_coinspends_for_trusted_block": CC + "run_block_generator::get_coinspends_for_trusted_block",
        "get_coinspends_with_conditions_for_trusted_block": CC + "run_block_generator::get_coinspends_with_conditions_for_trusted_block",
    }
    for nm, path in targets.items():
        f = _fn(fb, path)
        if not f:
            ctx.missing(R, "removal:" + nm, "not found")
            continue
        b = Body(f, fb)
        ctx.touched(b.path)
        coins = [c for bi, c in _coin_aggs(b) if U.has_call(c["puzzle_hash"], "tree_hash_cached")]
        ok = len(coins) == 1
        detail = None
        if ok:
            c = coins[0]
            th = U.find_call(c["puzzle_hash"], "tree_hash_cached")
            puzzle_node = strip_all(th[2][1])
            ok = U.has_call(c["amount"], "parse_amount")
            detail = {k: show(v)[:140] for k, v in c.items()}
            # the puzzle that is hashed is the puzzle item of the spend (item 1), the amount item 2, the parent item 0
            s_par, s_amt, s_puz = show(c["parent_coin_info"]), show(c["amount"]), show(puzzle_node)
            if nm == "additions_and_removals":
                ok = ok and ".0" in s_par and ".1.0" in s_puz and ".1.1.0" in s_amt
            else:
                ok = ok and "[0]" in s_par and "[1]" in s_puz and "[2]" in s_amt
        ctx.ob(R, "removal:" + nm, ok,
               "%s builds the removed coin as (item0 as parent, tree_hash_cached(item1), parse_amount(item2))" % nm, found=detail, where=f.sp)
    f = _fn(fb, targets["additions_and_removals"])
    if f:
        b = Body(f, fb)
        def _vec_name(t):
            a0 = b.operand_term(t["args"][0])
            return b.names.get(a0[1]) if a0[0] == "refmut" else None
        pushes = [(bi, strip_all(b.operand_term(t["args"][1]))) for bi, n, t in b.calls() if U.flat(n).endswith("Vec::push")
                  and _vec_name(t) == "removals"]
        ok = len(pushes) == 1 and U.has_call(pushes[0][1], "Coin::coin_id") and b.in_cycle(pushes[0][0])
        ctx.ob(R, "removal-id", ok, "each removal is recorded once per spend, in list order, with id = Coin::coin_id()")


def c09_2(ctx, R="C09.2"):
    fb = ctx.fb
    f = _fn(fb, CC + "additions_and_removals::additions_and_removals")
    if f:
        b = Body(f, fb)
        # opcode literal
        lits = set()
        for bi, blk in enumerate(b.blocks):
            if bi not in b.reach:
                continue
            for s in blk["s"]:
                if s["k"] == "assign":
                    for x in subterms(b.rvalue_term(s["rv"])):
                        if isinstance(x, tuple) and x and x[0] == "cb" and len(x[2]) == 1:
                            lits.add(x[2][0])
                        if isinstance(x, tuple) and x and x[0] == "agg" and x[1] == "array" and len(x[3]) == 1 and x[3][0][0] == "c":
                            lits.add(x[3][0][2])
        ctx.ob(R, "opcode-literal", 51 in lits, "the additions scan matches the single byte 51 (CREATE_COIN)", found=sorted(lits))
        coins = [c for bi, c in _coin_aggs(b) if not U.has_call(c["puzzle_hash"], "tree_hash_cached")]
        ok = len(coins) == 1 and U.has_call(coins[0]["amount"], "parse_amount") and U.has_call(coins[0]["parent_coin_info"], "Coin::coin_id")
        ctx.ob(R, "addition-coin", ok, "created coin = (id of the spent coin, puzzle hash argument, parse_amount(amount argument))",
               found=[{k: show(v)[:120] for k, v in c.items()} for c in coins])
        # hint rule: the Some(..) hint is produced only under: third arg is ((hint . _) . _), hint is an atom, not nil, len <= 32
        hl = b.local_named("hint")
        somes = []
        for bi, blk in enumerate(b.blocks):
            if bi not in b.reach:
                continue
            for s in blk["s"]:
                if s["k"] == "assign" and s["rv"]["k"] == "agg" and s["rv"].get("adt") == "core::option::Option" and s["rv"].get("variant") == "Some":
                    v = strip_all(b.rvalue_term(s["rv"]))
                    if U.has_call(v, "Allocator::atom") and "Bytes" in str(v):
                        somes.append((bi, v))
        ok = len(somes) == 1
        facts_ = set()
        if ok:
            for t, lab in b.dominating_conditions(somes[0][0]):
                facts_.add(apnf.fact(t, lab))
            s = {str(x) for x in facts_}
            has_pair = any("from_clvm" in x and "'Ok'" in x for x in s)
            has_atom = any("Allocator::sexp" in x and "'Atom'" in x for x in s)
            has_len = any("Allocator::atom_len" in x and "32" in x and ("'Le'" in x and "True" in x) for x in s)
            has_nonnil = any(("Allocator::nil" in x) and ((_is_ne(x) and "True" in x) or (_is_eq(x) and "False" in x)) for x in s)
            ok = has_pair and has_atom and has_len and has_nonnil
            ctx.ob(R, "hint-rule", ok,
                   "a hint is reported only if the memo list's first element is an atom of length <= 32 that is not nil "
                   "(the None-rule of OwnedSpendConditions)", found={"pair": has_pair, "atom": has_atom, "len<=32": has_len, "not-nil": has_nonnil},
                   where=b.where(somes[0][0]))
        else:
            ctx.missing(R, "hint-rule", "cannot locate the Some(hint) construction")
    # the sibling: OwnedSpendConditions::from maps nil => None
    of = fb.fns.get(CC + "owned_conditions::OwnedSpendConditions::from")
    if of:
        ob = Body(of, fb)

        def isnil(t, lab):
            t2 = strip_all(t)
            return "Allocator::nil" in str(t2) and U.has_field(t2, "hint") and lab[0] == "bool"
        edges = U.edges_where(ob, isnil)
        nones = []
        for bi, blk in enumerate(ob.blocks):
            for s in blk["s"]:
                if s["k"] == "assign" and s["rv"]["k"] == "agg" and s["rv"].get("adt") == "core::option::Option" and s["rv"].get("variant") == "None":
                    nones.append(bi)
        ok = len(edges) == 2 and any(ob.dominates(e, n) for e in edges for n in nones)
        ctx.ob(R, "owned:nil-is-none", ok, "validated conditions report a nil hint as None (the rule the fast path must mirror)")
    # SpendBundle::additions
    sb = fb.fns.get("chia_protocol::spend_bundle::SpendBundle::additions")
    if sb:
        b = Body(sb, fb)
        ctx.touched(b.path)
        consts = {}
        for bi, blk in enumerate(b.blocks):
            if bi not in b.reach:
                continue
            for s in blk["s"]:
                if s["k"] == "assign":
                    for x in subterms(b.rvalue_term(s["rv"])):
                        if isinstance(x, tuple) and x and x[0] == "c" and x[3] and x[3].endswith(("::CREATE_COIN_COST", "::CREATE_COIN")):
                            consts[x[3].split("::")[-1]] = x[2]
            t = blk["t"]
            if t["k"] == "switch":
                for x in subterms(b.operand_term(t["d"])):
                    if isinstance(x, tuple) and x and x[0] == "c" and x[3] and x[3].endswith("::CREATE_COIN"):
                        consts["CREATE_COIN"] = x[2]
                    # `atom == [CREATE_COIN]`: the opcode as a promoted one-byte array
                    if isinstance(x, tuple) and x and x[0] == "cb" and isinstance(x[2], tuple) and len(x[2]) == 1 and "CREATE_COIN" not in consts:
                        consts["CREATE_COIN"] = x[2][0]
        want_cost = fb.consts.get(CC + "opcodes::NEW_CREATE_COIN_COST", {}).get("value")
        ctx.ob(R, "SpendBundle::additions:constants", consts.get("CREATE_COIN") == 51 and consts.get("CREATE_COIN_COST") == want_cost == 1350000,
               "SpendBundle::additions matches opcode 51 and budgets NEW_CREATE_COIN_COST per coin (a larger value would refuse bundles consensus accepts)",
               found=consts)
        coins = _coin_aggs(b)
        ok = len(coins) == 1 and U.has_call(coins[0][1]["parent_coin_info"], "Coin::coin_id") and U.has_field(coins[0][1]["parent_coin_info"], "coin")
        ctx.ob(R, "SpendBundle::additions:parent", ok, "created coins get parent = coin_id() of the spent coin")
    else:
        ctx.missing(R, "SpendBundle::additions", "not found")


def _is_ne(x):
    import re
    return re.search(r"\('(\w+::)?[nN]e'", x) is not None


def _is_eq(x):
    import re
    return re.search(r"\('(\w+::)?[eE]q'", x) is not None


def c09_shapes(ctx):
    """full validation (without STRICT_ARGS_COUNT) ignores trailing items of a spend, of a condition and of the memo list: the
    fast paths must decode with open tails — no tuple shape may demand a nil terminator `()`"""
    R = "C09.2"
    fb = ctx.fb
    n = 0
    for path in (CC + "additions_and_removals::additions_and_removals", CC + "run_block_generator::get_coinspends_for_trusted_block",
                 CC + "run_block_generator::get_coinspends_with_conditions_for_trusted_block", "chia_protocol::spend_bundle::SpendBundle::additions"):
        f = _fn(fb, path)
        if not f:
            continue
        b = Body(f, fb)
        shapes = []
        for bi, nm, t in b.calls():
            if nm.endswith("::from_clvm") and nm.startswith("<("):
                shapes.append(nm[1:nm.index(" as clvm_traits")])
        n += len(shapes)
        closed = [x for x in shapes if "()" in x]
        ctx.ob(R, "open-tails:" + path.split("::")[-1], not closed,
               "%s decodes spends / conditions / memos with open tails (trailing items are ignored, as in full validation)" % path.split("::")[-1],
               found=closed or None, where=f.sp)
    ctx.floor(R, "tuple decode shapes inspected", n, 4)


def c09_3(ctx):
    R = "C09.3"
    b = U.body(ctx, R, CC + "get_puzzle_and_solution::get_puzzle_and_solution_for_coin")
    if not b:
        return
    oks = b.ok_exits()

    def same_parent_amount(t, lab):
        # (parent != find.parent || amount != find.amount) == false  is compiled as two branches
        s = str(strip_all(t))
        return ("parent_coin_info" in s and lab[0] == "bool") or ("'amount'" in s and "find_coin" in s and lab[0] == "bool")
    conds = []
    for e in oks:
        conds = [(apnf.N(t), lab) for t, lab in b.dominating_conditions(e)]
    s = [str(c) for c in conds]
    parent_ok = any("parent_coin_info" in x and "find_coin" in x and ((_is_ne(x) and "False" in x) or (_is_eq(x) and "True" in x)) for x in s)
    amount_ok = any(".amount" in x and "find_coin" in x and "parse_coin_spend" in x and (("'Ne'" in x and "False" in x) or ("'Eq'" in x and "True" in x)) for x in s)
    hash_ok = any("tree_hash_cached" in x and "puzzle_hash" in x and ((_is_ne(x) and "False" in x) or (_is_eq(x) and "True" in x)) for x in s)
    ctx.ob(R, "lookup-gates", len(oks) == 1 and parent_ok and amount_ok and hash_ok,
           "a (puzzle, solution) pair is returned only after parent id, amount and tree_hash_cached(puzzle) all equalled the requested coin",
           found={"parent": parent_ok, "amount": amount_ok, "puzzle_hash": hash_ok}, where=b.fn.sp)
    # what is returned are the puzzle and solution items of that same spend
    r = None
    for bi, k, d, rv in b.ret_assignments():
        if k == "agg" and d[1] == "Ok":
            r = apnf.N(b.rvalue_term(rv))
    ok = bool(r) and ".2" in str(r) and ".3" in str(r) and "parse_coin_spend" in str(r)
    ctx.ob(R, "lookup-returns", ok, "the returned pair is (puzzle, solution) of the matching spend", found=str(r)[:200])
    # completeness: "not found" is reported only once the whole list was scanned — a mismatching spend moves on to the next one
    nf = [bi for bi, k, d, rv in b.ret_assignments() if k == "agg" and d[1] == "Err"]
    ok = len(nf) == 1
    if ok:
        fs = [apnf.fact(t, lab) for t, lab in b.dominating_conditions(nf[0])]
        ok = any(isinstance(t, tuple) and t[0] == "next" and v == "None" for t, v in fs) and \
            not any(("find_coin" in str(t)) for t, v in fs)
    ctx.ob(R, "lookup-complete", ok, "the not-found error is returned only after the spend list is exhausted (no early exit on a partial match)",
           found=[str(f)[:120] for f in (fs if len(nf) == 1 else [])][:4], where=b.fn.sp)
    pb = U.body(ctx, R, CC + "get_puzzle_and_solution::parse_coin_spend")
    if pb:
        got = {(frozenset(f), r2) for f, r2, _ in apnf.paths_of(pb, want=("Ok",))}
        ok = len(got) == 1
        if ok:
            f, r2 = list(got)[0]
            s2 = str(r2)
            ok = "parse_amount" in s2 and "check_nil" in str(f) and s2.count("first") >= 4
        ctx.ob(R, "parse_coin_spend", ok, "a coin spend is (parent puzzle amount solution) with a strict nil terminator", found=[str(x)[:200] for x in got][:1])


FAST_PATHS = ("additions_and_removals::additions_and_removals", "run_block_generator::get_coinspends_for_trusted_block",
              "run_block_generator::get_coinspends_with_conditions_for_trusted_block", "get_puzzle_and_solution::get_puzzle_and_solution_for_coin")


def c09_4(ctx):
    """'for every block full validation accepts' the helpers answer: so they may refuse for cost only where full validation
    does under every flag set.  Full validation's byte charge depends on the fork flags (raw length vs interned size) and its
    condition charges on COST_CONDITIONS; the only charge common to all configurations is CLVM execution.  Hence every amount
    a fast path subtracts from its budget must be the cost returned by a run_program call, and the budget starts at
    max_block_cost_clvm; there is no other cost-based refusal."""
    R = "C09.4"
    fb = ctx.fb
    n = 0
    for suffix in FAST_PATHS:
        fs = [f for p, f in fb.fns.items() if (p == CC + suffix or p.startswith(CC + suffix + "::<")) and f.e["kind"] == "Fn"]
        if len(fs) != 1:
            ctx.missing(R, "charges:" + suffix.split("::")[-1], "function not found")
            continue
        b = Body(fs[0], fb)
        ctx.touched(b.path)
        bad = []
        for bi, nm, t in b.calls():
            fl = U.flat(nm)
            if fl.endswith("::subtract_cost"):
                n += 1
                amt = strip_all(b.operand_term(t["args"][1]))
                if not (U.has_call(amt, "run_program") and not any(isinstance(x, tuple) and x and x[0] == "bin" for x in subterms(amt))):
                    bad.append("subtract_cost(%s) at %s" % (show(amt)[:100], b.where(bi)))
        # no explicit cost comparison other than through subtract_cost
        for node in b.edge_info:
            if b.edge_info[node][0] not in b.reach:
                continue
            t_, lab = b.edge_condition(node)
            s_ = str(apnf.N(t_))
            if ("cost_per_byte" in s_ or "max_block_cost" in s_ or "max_cost" in s_) and s_.startswith(("('Lt'", "('Gt'", "('Le'", "('Ge'")):
                bad.append("cost comparison %s at %s" % (s_[:100], b.where(b.edge_info[node][0])))
        ctx.ob(R, "charges:" + suffix.split("::")[-1], not bad,
               "%s subtracts only CLVM execution costs returned by run_program from its budget" % suffix.split("::")[-1],
               found=bad[:3] or None, where=fs[0].sp)
    ctx.floor(R, "subtract_cost sites in the trusted fast paths", n, 2)


def c09_5(ctx):
    """which conditions the fast scans treat as CREATE_COIN, and what they do with everything else, mirrors full validation
    in consensus mode (parse_opcode: a CREATE_COIN is the atom whose bytes are exactly [51]; any other opcode atom -- including
    zero-padded encodings of 51 such as 00 33 -- and, for the block scan, a pair in opcode position, is an unknown condition and
    is skipped without error):
      additions_and_removals : the Coin is built only under `atom(first(c)) == [51]` as a byte-string comparison, and a failing
                               atom() (pair opcode) returns to the loop, never to an error exit
      SpendBundle::additions : the Coin is built only under `len(atom(op)) == 1` and `atom(op)[0] == 51` (no integer decoding
                               of the opcode, which would accept redundant leading zeros)"""
    R = "C09.5"
    fb = ctx.fb
    f = _fn(fb, CC + "additions_and_removals::additions_and_removals")
    if f:
        b = Body(f, fb)
        coins = [bi for bi, c in _coin_aggs(b) if not U.has_call(c["puzzle_hash"], "tree_hash_cached")]
        ok = len(coins) == 1
        detail = None
        if ok:
            conds = [(str(apnf.N(t)), l) for t, l in b.dominating_conditions(coins[0])]
            op = "('atom', ('make_allocator', 'flags'), ('first', ('make_allocator', 'flags'), 'var:c'), "
            isatom = [c for c in conds if c[0].startswith(op) and c[1] == ("is", ("Ok",))]
            eq51 = [c for c in conds if c[0].startswith("('ne', " + op) and c[0].endswith("b'3')") and c[1] == ("bool", False)] + \
                   [c for c in conds if c[0].startswith("('eq', " + op) and c[0].endswith("b'3')") and c[1] == ("bool", True)]
            ok = len(isatom) == 1 and len(eq51) == 1
            detail = [c[0][:100] + " " + str(c[1]) for c in conds if "atom" in c[0][:12] or c[0][:5] in ("('ne'", "('eq'")]
        ctx.ob(R, "create-coin-test:additions_and_removals", ok,
               "a condition is a CREATE_COIN iff its opcode atom equals the byte string [51]", found=detail, where=f.sp)

        def atom_err(t, lab):
            return str(apnf.N(t)).startswith("('atom', ") and lab == ("is", ("Err",))
        edges = U.edges_where(b, atom_err)
        exits = b.return_blocks()
        heads = [bi for bi, n, t in b.calls() if U.flat(n).endswith("validation_error::next") and b.in_cycle(bi)]
        ok = bool(edges) and bool(heads) and all(not b.reachable_avoiding(e, exits, heads) for e in edges)
        ctx.ob(R, "non-atom-opcode-skipped:additions_and_removals", ok,
               "a condition whose opcode is not an atom is skipped (back to the condition loop), not turned into an error", where=f.sp)
    f = fb.fns.get("chia_protocol::spend_bundle::SpendBundle::additions")
    if f is None:
        return ctx.missing(R, "create-coin-test:SpendBundle::additions", "not found")
    b = Body(f, fb)
    ctx.touched(b.path)
    coins = [bi for bi, c in _coin_aggs(b)]
    ok = len(coins) == 1
    detail = None
    if ok:
        conds = [(str(apnf.N(t)), l) for t, l in b.dominating_conditions(coins[0])]
        opa = "('Allocator::atom', ('Allocator::new',), ('first', ('Allocator::new',), ('.0', ('Allocator::next', ('Allocator::new',), 'var:conds'))))"
        one = [c for c in conds if c[0] == "('Ne', ('len', %s), 1)" % opa and c[1] == ("bool", False)] + \
              [c for c in conds if c[0] == "('Eq', ('len', %s), 1)" % opa and c[1] == ("bool", True)]
        is51 = [c for c in conds if c[0] == "('Eq', ('[]', %s, 0), 51)" % opa and c[1] == ("bool", True)] + \
               [c for c in conds if c[0] == "('Ne', ('[]', %s, 0), 51)" % opa and c[1] == ("bool", False)]
        ok = len(one) == 1 and len(is51) == 1
        # the same test as one whole-slice comparison: atom == [51] (length one and that byte)
        whole = [c for c in conds if (c[0] == "('ne', %s, b'3')" % opa and c[1] == ("bool", False)) or
                 (c[0] == "('eq', %s, b'3')" % opa and c[1] == ("bool", True))]
        if not one and not is51 and len(whole) == 1:
            ok = True
        detail = [c[0][:110] + " " + str(c[1]) for c in conds if "Allocator::atom" in c[0]]
    ctx.ob(R, "create-coin-test:SpendBundle::additions", ok,
           "SpendBundle::additions treats a condition as CREATE_COIN iff its opcode atom is exactly one byte equal to 51", found=detail, where=f.sp)


def c09_6(ctx):
    """(a) the trusted-block scans walk the whole spend list: the loop that pushes recovered spends / removals is left only when
    the list is exhausted or towards an error (no count-based `break`: the 6000-spend limit is a consensus rule only under
    LIMIT_SPENDS, blocks validated without it may hold more);  (b) SpendBundle::additions runs each puzzle under the consensus
    dialect (ClvmFlags::empty()), as block validation does for the same spend -- mempool-mode strictness would refuse puzzles
    (unknown operators) that validation accepts."""
    R = "C09.6"
    fb = ctx.fb

    def pushes_to(b, name):
        out = []
        for bi, n, t in b.calls():
            if U.flat(n).endswith("Vec::push") and t["args"]:
                a0 = b.operand_term(t["args"][0])
                while isinstance(a0, tuple) and a0 and a0[0] == "mutated":
                    a0 = a0[1]
                if isinstance(a0, tuple) and a0 and a0[0] == "refmut" and b.names.get(a0[1]) == name:
                    out.append(bi)
        return out
    for suffix, vec in (("run_block_generator::get_coinspends_for_trusted_block", "output"),
                        ("run_block_generator::get_coinspends_with_conditions_for_trusted_block", "output"),
                        ("additions_and_removals::additions_and_removals", "removals")):
        fs = [f for p, f in fb.fns.items() if (p == CC + suffix or p.startswith(CC + suffix + "::<")) and f.e["kind"] == "Fn"]
        if len(fs) != 1:
            ctx.missing(R, "whole-list:" + suffix.split("::")[-1], "function not found")
            continue
        b = Body(fs[0], fb)
        ctx.touched(b.path)
        U.whole_list(ctx, R, b, "whole-list:" + suffix.split("::")[-1], pushes_to(b, vec),
                     "%s walks the whole spend list (the loop ends only at the end of the list or on an error)" % suffix.split("::")[-1])
    f = fb.fns.get("chia_protocol::spend_bundle::SpendBundle::additions")
    if f:
        b = Body(f, fb)
        runs = [t for bi, n, t in b.calls() if U.flat(n).endswith("Program::run")]
        got = [str(apnf.N(strip_all(b.operand_term(t["args"][2])))) for t in runs] if runs else []
        ctx.ob(R, "additions:consensus-dialect", got == ["('empty',)"], "SpendBundle::additions runs puzzles with ClvmFlags::empty()", found=got, where=f.sp)


def c09_7(ctx):
    """(a) 'looking up any removed coin returns its puzzle and solution': parse_coin_spend accepts every spend full validation
    accepts -- it takes (parent, puzzle, amount, solution) positionally, demands an atom only for the parent id, a canonical
    amount and a nil tail, and puts no shape requirement on the puzzle (an atom is a legal puzzle): exact accepting path.
    (b) the recovered coin spends carry the real puzzle and solution: Program::from_clvm(Allocator) is node_to_bytes(node) -- the
    serializer's own limit, not a smaller local one, since get_coinspends_* turn a conversion failure into an empty program --
    and Program::to_clvm is node_from_bytes of the stored bytes."""
    R = "C09.3"
    b = U.body(ctx, R, CC + "get_puzzle_and_solution::parse_coin_spend")
    if b:
        accs = []
        for ev, ex in P.enumerate_paths(b):
            if ex[0] == "return" and P.ret_class(ev) == "Ok":
                accs.append(sorted((str(apnf.N(t)).split(", ('ValidationErr")[0].split(", ('ErrorCode")[0], l[1]) for t, l in P.conds(ev)))
        cs = "coin_spend"
        r1, r2, r3, r4 = "('rest', '%s')" % cs, "('rest', ('rest', '%s'))" % cs, "('rest', ('rest', ('rest', '%s')))" % cs, "('rest', ('rest', ('rest', ('rest', '%s'))))" % cs
        exp = sorted([("('first', '%s')" % cs, True), ("('atom', ('first', '%s')" % cs, True), (r1, True), ("('first', %s)" % r1, True), (r2, True),
                      ("('first', %s)" % r2, True), ("('parse_amount', ('first', %s)" % r2, True), (r3, True), ("('first', %s)" % r3, True), (r4, True),
                      ("('check_nil', %s)" % r4, True)])
        ctx.ob(R, "parse_coin_spend:exact", accs == [exp],
               "parse_coin_spend accepts (parent atom, any puzzle, canonical amount, any solution) followed by nil -- and nothing narrower",
               found=None if accs == [exp] else [sorted(set(map(str, a)) ^ set(map(str, exp)))[:3] for a in accs][:2], where=b.fn.sp)
    R = "C09.1"
    f = ctx.fb.fns.get("<chia_protocol::program::Program as clvm_traits::from_clvm::FromClvm<clvmr::allocator::Allocator>>::from_clvm")
    if f is None:
        ctx.missing(R, "program:from-node", "impl FromClvm<Allocator> for Program not found")
    else:
        pb = Body(f, ctx.fb)
        ctx.touched(pb.path)
        rows = {(ex[0], P.ret_class(ev) if ex[0] == "return" else "", str(apnf.N(P.ret_of(ev))) if ex[0] == "return" and P.ret_class(ev) == "Ok" else "")
                for ev, ex in P.enumerate_paths(pb)}
        exp = {("return", "Ok", "('Ok', ('Program::Program', ('Result::map_err', ('node_to_bytes', 'node'), ('closure', '{closure#0}'))))"), ("return", "Err", "")}
        ctx.ob(R, "program:from-node", rows == exp, "Program::from_clvm(Allocator, node) = Program(node_to_bytes(node)?)", found=sorted(map(str, rows ^ exp))[:2] or None)
    f = ctx.fb.fns.get("<chia_protocol::program::Program as clvm_traits::to_clvm::ToClvm<clvmr::allocator::Allocator>>::to_clvm")
    if f is not None:
        pb = Body(f, ctx.fb)
        rows = {(ex[0], str(apnf.N(P.ret_of(ev))) if ex[0] == "return" else "") for ev, ex in P.enumerate_paths(pb)}
        ctx.ob(R, "program:to-node", rows == {("return", "('Result::map_err', ('node_from_bytes', ('.0', 'self')), ('closure', '{closure#0}'))")},
               "Program::to_clvm(Allocator) = node_from_bytes(self bytes)", found=sorted(map(str, rows))[:2])


# ------------------------------------------------------------------ C09.8 (round 7)
def c09_8(ctx):
    """(a) the trusted helpers run the generator under the caller's consensus flags, whole: ChiaDialect::new receives
    `flags.to_clvm_flags()` and nothing derived from it (a masked flag set silently runs post-fork blocks with pre-fork operator
    semantics); (b) the conditions that survive the per-spend reporting cap are exactly the eight AGG_SIG_* codes and
    CREATE_COIN: decision table of is_high_priority_condition over every u16 plus the out-of-range class."""
    R = "C09.8"
    fb = ctx.fb
    n = 0
    for suffix in ("additions_and_removals::additions_and_removals", "run_block_generator::get_coinspends_for_trusted_block",
                   "run_block_generator::get_coinspends_with_conditions_for_trusted_block"):
        fs = [f for p, f in fb.fns.items() if (p == CC + suffix or p.startswith(CC + suffix + "::<")) and f.e["kind"] == "Fn"]
        if len(fs) != 1:
            ctx.missing(R, "dialect:" + suffix.split("::")[-1], "function not found")
            continue
        b = Body(fs[0], fb)
        ctx.touched(b.path)
        ds = [strip_all(b.operand_term(t["args"][0])) for bi, nm, t in b.calls() if U.flat(nm).endswith("ChiaDialect::new")]
        ok = len(ds) >= 1 and all(d[0] == "call" and d[1].endswith("ConsensusFlags::to_clvm_flags") and len(d[2]) == 1 and
                                  strip_all(d[2][0])[0] == "arg" and strip_all(d[2][0])[2] == "flags" for d in ds)
        n += 1
        ctx.ob(R, "dialect:" + suffix.split("::")[-1], ok,
               "%s evaluates under ChiaDialect::new(flags.to_clvm_flags()) -- the caller's flags, unmasked" % suffix.split("::")[-1],
               found=[show(d)[:120] for d in ds], where=fs[0].sp)
    ctx.floor(R, "trusted helpers with a dialect", n, 3)
    b = U.body(ctx, R, CC + "run_block_generator::is_high_priority_condition")
    if b:
        want = {43, 44, 45, 46, 47, 48, 49, 50, 51}
        rows = []
        ok = True
        try:
            for ev, ex in P.enumerate_paths(b):
                if ex[0] != "return":
                    continue
                rc = P.ret_class(ev)
                fits, vals = None, None
                for t, l in U.canon_int_conds(P.conds(ev)):
                    x = strip_all(t)
                    sx = show(x)
                    if "try_from" in sx and l[0] == "bool":
                        fits = l[1] if "is_ok" in sx else (not l[1] if "is_err" in sx else None)
                        if fits is None:
                            ok = False
                    elif l[0] in ("in", "notin") and any(isinstance(y, tuple) and y and y[0] == "arg" and y[1] == 0 for y in subterms(x)):
                        vals = (l[0], set(l[1]))
                    else:
                        ok = False
                rows.append((rc, fits, vals))
        except P.Budget:
            ok = False
        bad = []
        if ok:
            for v in list(range(0, 0x10000)) + [0x10000, 0x1002B, 0x10033, 0xFFFFFFFF]:
                fits_v = v < 0x10000
                hit = set()
                for rc, fits, vals in rows:
                    if fits is not None and fits != fits_v:
                        continue
                    if vals is not None and fits_v and ((v in vals[1]) != (vals[0] == "in")):
                        continue
                    if vals is not None and not fits_v:
                        continue
                    hit.add(rc)
                if hit != {"true" if (fits_v and v in want) else "false"}:
                    bad.append((v, sorted(hit)))
                    if len(bad) > 4:
                        break
        ctx.ob(R, "high-priority-table", ok and not bad,
               "is_high_priority_condition is true exactly for AGG_SIG_* (43..50) and CREATE_COIN (51), evaluated on every u16 and "
               "the out-of-range class", found=bad or (None if ok else "guards not of the evaluable form"), where=b.fn.sp)
