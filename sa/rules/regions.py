"""Per-`Condition`-variant regions of parse_conditions: the paths from each arm of `match cva` to the loop
head (continue) or to a rejecting return, reduced to (exit, facts, effects)."""
from .. import apnf
from .. import mir
from .. import paths as P
from ..mir import Body

PC = "chia_consensus::conditions::parse_conditions"


def parse_conditions_body(fb):
    fs = [x for p, x in fb.fns.items() if p.startswith(PC) and x.e["kind"] == "Fn"]
    if len(fs) != 1:
        return None
    return Body(fs[0], fb)


def locate(b):
    """(switch block on the Condition discriminant, loop-head blocks)"""
    sw = None
    for bi, blk in enumerate(b.blocks):
        t = blk["t"]
        if t["k"] == "switch" and bi in b.reach:
            d = b.operand_term(t["d"])
            if d[0] == "discr" and d[2].endswith("conditions::Condition"):
                sw = bi
    heads = [bi for bi, n, t in b.calls() if n.endswith("validation_error::next")]
    return sw, heads


def effect_of(e):
    if e[0] == "assign":
        return ("set", apnf.N(e[2]), apnf.N(e[3]))
    if e[0] == "call" and any(mir._has_refmut(a) for a in e[3]):
        return ("call", apnf.N(e[5]))
    return None


def region_paths(b, start, heads, env0=None):
    """[(exit, facts, effects-in-order)] for the region entered at block `start`"""
    out = []
    for ev, ex in P.enumerate_paths(b, start=start, stop_at=set(heads), want_assign=True, env0=env0):
        if ex[0] == "stop":
            exit_ = "continue"
        elif ex[0] == "return":
            exit_ = P.ret_class(ev)
        elif ex[0] == "diverge":
            exit_ = "panic"
        else:
            exit_ = ex[0]
        facts = frozenset(apnf.fact(t, l) for t, l in P.conds(ev))
        effects = [x for x in (effect_of(e) for e in ev) if x is not None]
        out.append((exit_, facts, effects))
    return out


def variant_regions(fb):
    """{variant name: [(exit, facts, effects)]} or None"""
    b = parse_conditions_body(fb)
    if b is None:
        return None, None
    sw, heads = locate(b)
    if sw is None or not heads:
        return b, None
    vt = mir.variant_table(fb, "chia_consensus::conditions::Condition")
    t = b.blocks[sw]["t"]
    res = {}
    for v, tb in t["targets"]:
        res[vt[v]] = region_paths(b, tb, heads)
    # the `otherwise` edge must be unreachable (all variants handled)
    ot = b.blocks[t["otherwise"]]
    res["__otherwise_unreachable__"] = ot["t"]["k"] == "unreachable"
    return b, res
