"""C17 — every tree-hash routine computes the same hash.

Decided (structural):
  C17.1 PRECOMPUTED_HASHES[i] == sha256(0x01 || minimal(i)) for all entries (recomputed with hashlib); table only
        indexed under `val < len`; table length <= 128 (single-byte atoms)
  C17.2 tree_hash and tree_hash_cached: atoms via tree_hash_atom (prefix [1]), pairs via tree_hash_pair
        (prefix [2], first then rest); both push Cons/left/right and pop first/rest in the same order;
        tree_hash_from_bytes delegates to tree_hash_cached with a fresh allocator and cache
  C17.3 memo soundness premises: TreeCache::insert only receives tree_hash_pair(first, rest) computed in the same
        operation; get returns only slots below the sentinels; three distinct top-u32 sentinels; nobody who holds a
        TreeCache restores an allocator checkpoint
  C17.4 curry_tree_hash / curry_and_treehash use operator bytes a=2, q=1, c=4, nil terminator in the same roles
"""
import hashlib
from .. import paths as P
from ..mir import Body, strip_all, show, subterms
from . import util as U

TH = "clvm_utils::tree_hash::"


def run(ctx):
    ctx.explanation = (
        "CONST/SIB/PROV/WMC rules on clvm-utils tree hashing: the 24 precomputed constants are recomputed with hashlib; the "
        "Sha256 update sequences of tree_hash_atom/tree_hash_pair; push/pop order agreement of the two iterative traversals; "
        "who calls TreeCache::insert and with what; sentinel constants; allocator checkpoint restores vs cache holders; "
        "operator bytes of the curry-hash helpers. Does not prove equality with the recursive definition for every DAG and "
        "visit history (an induction over the operation stack).")
    ctx.trusted += ["SHA-256", "clvmr Allocator node/atom accessors"]
    ctx.assumptions += ["N: equality with the recursive tree-hash definition for every DAG and every visit history"]
    c17_1(ctx)
    c17_2(ctx)
    c17_3(ctx)
    c17_4(ctx)
    c17_5(ctx)
    c17_6(ctx)
    c17_7(ctx)


def minimal(i):
    if i == 0:
        return b""
    n = (i.bit_length() + 8) // 8
    return i.to_bytes(n, "big")


def c17_1(ctx, R="C17.1"):
    fb = ctx.fb
    c = fb.consts.get(TH + "PRECOMPUTED_HASHES")
    if not c or "value" not in c:
        return ctx.missing(R, "const", "PRECOMPUTED_HASHES not evaluated")
    vals = c["value"]
    ctx.ob(R, "len", 1 <= len(vals) <= 128, "table covers only single-byte small atoms", found=len(vals))
    bad = []
    for i, v in enumerate(vals):
        bs = bytes(v["fields"][0]) if isinstance(v, dict) else bytes(v[0])
        want = hashlib.sha256(b"\x01" + minimal(i)).digest()
        if bs != want:
            bad.append(i)
    ctx.ob(R, "values", not bad, "PRECOMPUTED_HASHES[i] == sha256(0x01 || minimal(i)) for all %d entries" % len(vals),
           found=bad, where=c.get("sp", ""))
    ctx.sample({"rule": R, "entries": len(vals), "first": bytes(vals[0]["fields"][0]).hex()})
    # both users index under val < len
    for fn_ in ("tree_hash", "tree_hash_cached"):
        b = U.body(ctx, R, TH + fn_)
        if not b:
            continue
        n = 0
        for bi, blk in enumerate(b.blocks):
            if bi not in b.reach:
                continue
            t = blk["t"]
            if t["k"] == "assert" and t["msg"]["k"] == "bounds":
                ln = strip_all(b.operand_term(t["msg"]["len"]))
                if ln[0] == "c" and ln[2] == len(vals):
                    n += 1
                    idx = strip_all(b.operand_term(t["msg"]["index"]))
                    ok = False
                    for dt_, lab in b.dominating_conditions(bi):
                        d = strip_all(dt_)
                        if d[0] == "bin" and d[1] == "Lt" and strip_all(d[2]) == idx and lab == ("bool", True):
                            ok = True
                    ctx.ob(R, "index-guard:" + fn_, ok, "table is indexed only under `val < PRECOMPUTED_HASHES.len()`", where=b.where(bi))
        ctx.ob(R, "index-sites:" + fn_, n == 1, "one table lookup in " + fn_, found=n)


def _updates(b):
    hl = b.local_named("sha256") or b.local_named("hasher")
    if not hl:
        return None
    return [strip_all(a[1]) for _, n, a, _ in b.mut_history(hl[0]) if U.flat(n).endswith("Sha256::update")]


def c17_2(ctx, R="C17.2"):
    b = U.body(ctx, R, TH + "tree_hash_atom")
    if b:
        u = _updates(b) or []
        ok = len(u) == 2 and _bytes(u[0]) == (1,) and u[1] == ("arg", 0, "bytes")
        ctx.ob(R, "atom", ok, "tree_hash_atom = sha256([1] || bytes)", found=[show(x) for x in u])
    b = U.body(ctx, R, TH + "tree_hash_pair")
    if b:
        u = _updates(b) or []
        ok = len(u) == 3 and _bytes(u[0]) == (2,) and u[1] == ("arg", 0, "first") and u[2] == ("arg", 1, "rest")
        ctx.ob(R, "pair", ok, "tree_hash_pair = sha256([2] || first || rest)", found=[show(x) for x in u])
    shapes = {}
    for fn_ in ("tree_hash", "tree_hash_cached"):
        b = U.body(ctx, R, TH + fn_)
        if not b:
            continue
        # pushes onto `ops`: order of TreeOp variants pushed in the Pair arm
        opsl = b.local_named("ops")
        hl = b.local_named("hashes")
        if not opsl or not hl:
            ctx.missing(R, "locals:" + fn_, "ops/hashes not found")
            continue
        pushes = []
        for bi, name, args, pos in b.mut_history(opsl[0]):
            if U.flat(name).endswith("Vec::push"):
                a = strip_all(args[1])
                if a[0] == "agg":
                    pushes.append((a[2], show(a[3][0]) if a[3] else ""))
        # per dominance: sequence in the pair arm
        seq = [v for v, _ in pushes]
        shapes[fn_] = seq
        # Cons handler: first = pop, rest = pop, push(tree_hash_pair(first, rest))
        ok_cons = 0
        for bi, name, t in b.calls():
            if name == TH + "tree_hash_pair":
                a0 = strip_all(b.operand_term(t["args"][0]))
                a1 = strip_all(b.operand_term(t["args"][1]))
                f0 = _pop_site(a0)
                f1 = _pop_site(a1)
                if f0 is not None and f1 is not None and b.dominates(f0, f1) and f0 != f1:
                    ok_cons += 1
        want = 1 if fn_ == "tree_hash" else 2
        ctx.ob(R, "cons-order:" + fn_, ok_cons == want,
               "pair hash = tree_hash_pair(first popped, second popped) at %d site(s)" % want, found=ok_cons)
        # atoms hashed with tree_hash_atom
        atoms = [bi for bi, name, t in b.calls() if name == TH + "tree_hash_atom"]
        ctx.ob(R, "atoms:" + fn_, len(atoms) == 2, "buffer atoms and large small-ints are hashed with tree_hash_atom", found=len(atoms))
        # ... and what is hashed is the allocator's own byte view of the popped node (the Buffer payload, or a.atom(node) for
        # small integers outside the precomputed table): no locally re-derived encoding of the integer value
        argsv = sorted(show(strip_all(b.operand_term(t["args"][0]))) for bi, name, t in b.calls() if name == TH + "tree_hash_atom")
        popped = "((Vec::pop(boxed::box_assume_init_into_vec_unsafe(Box::new_uninit())) as Some).0 as SExp).0"
        want_args = sorted(["(Allocator::node(a, %s) as Buffer).0" % popped, "Allocator::atom(a, %s)" % popped])
        ctx.ob(R, "atom-bytes:" + fn_, argsv == want_args,
               "%s hashes the allocator's bytes of the node itself (Buffer payload / a.atom(node))" % fn_, found=[x[-70:] for x in argsv])
        # result: hashes[0] after assert len == 1
        ctx.sample({"rule": R, "fn": fn_, "ops_pushes": pushes})
    if len(shapes) == 2:
        a = [x for x in shapes["tree_hash"]]
        c = [x for x in shapes["tree_hash_cached"] if x != "ConsAddCache"]
        # both: initial SExp(root) then in the pair arm Cons, SExp(left), SExp(right)
        ctx.ob(R, "push-order", a == ["Cons", "SExp", "SExp"] and c == ["Cons", "SExp", "SExp"],
               "both traversals push Cons, then left, then right", found=shapes)
        for fn_ in ("tree_hash", "tree_hash_cached"):
            b = Body(ctx.fb.fn(TH + fn_), ctx.fb)
            opsl = b.local_named("ops")[0]
            order = []
            for bi, name, args, pos in b.mut_history(opsl):
                if U.flat(name).endswith("Vec::push"):
                    a_ = strip_all(args[1])
                    if a_[0] == "agg" and a_[2] == "SExp" and a_[3]:
                        order.append(show(a_[3][0]))
            lr = [x for x in order if "Pair" in x]
            ctx.ob(R, "left-right:" + fn_, len(lr) == 2 and lr[0].endswith(".0") and lr[1].endswith(".1"),
                   "left child is pushed before right child (so right is hashed first and popped second)", found=order)
    b = U.body(ctx, R, TH + "tree_hash_from_bytes")
    if b:
        names = [U.flat(n) for _, n, _ in b.calls()]
        ok = any(n.endswith("Allocator::new") for n in names) and any(n.endswith("node_from_bytes_backrefs") for n in names) and \
            any("TreeCache" in n and "default" in n for n in names) and any(n.endswith("tree_hash_cached") for n in names)
        ctx.ob(R, "from_bytes", ok, "tree_hash_from_bytes = tree_hash_cached on a fresh allocator and a fresh cache", found=names)


def _bytes(t):
    if t[0] == "agg" and t[1] == "array" and all(x[0] == "c" for x in t[3]):
        return tuple(x[2] for x in t[3])
    if t[0] == "cb":
        return tuple(t[2])
    return None


def _pop_site(t):
    """site (block) of the Vec::pop call whose unwrapped result t is"""
    for x in subterms(t):
        if isinstance(x, tuple) and x and x[0] == "call" and U.flat(x[1]).endswith("Vec::pop") and len(x) == 4:
            return x[3]
    return None


def c17_3(ctx):
    R = "C17.3"
    fb = ctx.fb
    ins = TH + "TreeCache::insert"
    callers = sorted(fb.callers(ins))
    ctx.ob(R, "insert-callers", callers == [TH + "tree_hash_cached"], "TreeCache::insert is called only by tree_hash_cached", found=callers)
    b = U.body(ctx, R, TH + "tree_hash_cached")
    if b:
        for bi, name, t in b.calls():
            if name == ins:
                h = strip_all(b.operand_term(t["args"][2]))
                node = strip_all(b.operand_term(t["args"][1]))
                ok = h[0] == "call" and h[1] == TH + "tree_hash_pair" and _pop_site(h[2][0]) is not None and _pop_site(h[2][1]) is not None
                ok_node = "ConsAddCache" in str(node)
                ctx.ob(R, "insert-value", ok and ok_node,
                       "insert(node, h): h = tree_hash_pair(first, rest) popped in the same operation, node = the ConsAddCache payload",
                       found=[show(node), show(h)], where=b.where(bi))
    for k, want in (("NOT_VISITED", 2 ** 32 - 1), ("SEEN_ONCE", 2 ** 32 - 2), ("SEEN_MULTIPLE", 2 ** 32 - 3)):
        c = fb.consts.get(TH + k)
        ctx.ob(R, "sentinel:" + k, bool(c) and c.get("value") == want, "%s == %d" % (k, want), found=c.get("value") if c else None)
    b = U.body(ctx, R, TH + "TreeCache::get")
    if b:
        def below(t, lab):
            return t[0] == "bin" and t[1] in ("Ge", "Lt") and any(
                isinstance(x, tuple) and x and x[0] == "c" and x[2] == 2 ** 32 - 3 for x in subterms(t)) and \
                lab == ("bool", t[1] == "Lt")
        somes = [bi for bi, k_, d, rv in b.ret_assignments() if k_ == "agg" and d[1] == "Some"]
        U.must_pass(ctx, R, b, "get:slot-below-sentinels", somes, U.edges_where(b, below), "get returns a hash only for slot < SEEN_MULTIPLE")
    b = U.body(ctx, R, ins)
    if b:
        def full(t, lab):
            return t[0] == "bin" and t[1] == "Eq" and any(
                isinstance(x, tuple) and x and x[0] == "c" and x[2] == 2 ** 32 - 3 for x in subterms(t)) and lab == ("bool", False)
        pushes = [bi for bi, n, t in b.calls() if U.flat(n).endswith("Vec::push")]
        U.must_pass(ctx, R, b, "insert:refuses-at-sentinel", pushes, U.edges_where(b, full), "insert refuses once SEEN_MULTIPLE hashes are stored")
    # nobody who uses a TreeCache restores an allocator checkpoint
    restorers = {p for p in fb.fns if any((c.get("res") or "").endswith("Allocator::restore_checkpoint") for c in fb.fns[p].e.get("calls", []))}
    holders = {p for p in fb.fns if any("tree_hash_cached" in (c.get("res") or "") or "TreeCache" in (c.get("res") or "")
                                        for c in fb.fns[p].e.get("calls", []))}
    both = sorted(restorers & holders)
    ctx.ob(R, "no-restore-while-cached", not both,
           "no function both holds a TreeCache and restores an allocator checkpoint (node indices stay immutable while cached)",
           found={"both": both, "restorers": sorted(restorers)})
    ctx.floor(R, "TreeCache holders", len(holders), 5)


def c17_4(ctx, R="C17.4"):
    b = U.body(ctx, R, "clvm_utils::curry_tree_hash::curry_tree_hash")
    if b:
        roles = {}
        for nm in ("nil", "op_q", "op_a", "op_c"):
            l = b.local_named(nm)
            if l:
                t = strip_all(b.local_term(l[0]))
                if t[0] == "call" and t[1] == TH + "tree_hash_atom":
                    roles[nm] = _lit(t[2][0])
        ctx.ob(R, "curry:ops", roles == {"nil": (), "op_q": (1,), "op_a": (2,), "op_c": (4,)},
               "curry_tree_hash: nil=[], q=[1], a=[2], c=[4]", found={k: list(v) if v is not None else None for k, v in roles.items()})
        # final result = pair(op_a, pair(pair(op_q, program_hash), pair(quoted_args, nil)))
        r = None
        for bi, k, d, rv in b.ret_assignments():
            r = strip_all(b.call_term(rv)) if k == "call" else strip_all(b.rvalue_term(rv))
        ok = False
        if r and r[0] == "call" and r[1] == TH + "tree_hash_pair":
            a0, a1 = r[2]
            ok = _is_atom_hash(a0, (2,)) and a1[0] == "call" and a1[1] == TH + "tree_hash_pair" and \
                a1[2][0][0] == "call" and _is_atom_hash(a1[2][0][2][0], (1,)) and a1[2][0][2][1] == ("arg", 0, "program_hash")
        ctx.ob(R, "curry:shape", ok, "result = pair(a, pair(pair(q, program_hash), pair(args, nil)))", found=show(r) if r else None)
    lits = []
    roles = {}
    for fn_ in ("chia_consensus::fast_forward::curry_and_treehash", "chia_consensus::fast_forward::curry_single_arg"):
        b = U.body(ctx, R, fn_)
        if not b:
            continue
        for bi, name, t in b.calls():
            if name == TH + "tree_hash_atom":
                a = strip_all(b.operand_term(t["args"][0]))
                lits.append(_lit(a))
                for x in subterms(a):
                    if isinstance(x, tuple) and x and x[0] == "c" and x[3]:
                        roles[x[3].split("::")[-1]] = x[2]
    consts_ok = all(ctx.fb.consts.get("chia_consensus::fast_forward::" + k, {}).get("value") == v
                    for k, v in (("OP_QUOTE", 1), ("OP_APPLY", 2), ("OP_CONS", 4)))
    ctx.ob(R, "ff-curry:ops", consts_ok and {(1,), (2,), (4,), ()} <= set(x for x in lits if x is not None),
           "fast_forward curry helpers use q=1, a=2, c=4 and the nil terminator", found={"roles": roles, "literals": [list(x) if x is not None else None for x in lits]})
    b = U.body(ctx, R, "chia_consensus::fast_forward::curry_and_treehash")
    if b:
        r = None
        for bi, k, d, rv in b.ret_assignments():
            r = strip_all(b.call_term(rv)) if k == "call" else strip_all(b.rvalue_term(rv))
        pairs = [x for x in subterms(r) if isinstance(x, tuple) and x and x[0] == "call" and x[1] == TH + "tree_hash_pair"] if r else []
        ok = False
        if pairs:
            top = pairs[0]
            a0 = top[2][0]
            ok = _is_atom_hash(a0, (2,))
            inner = strip_all(top[2][1])
            if inner[0] == "call" and inner[1] == TH + "tree_hash_pair":
                qp = strip_all(inner[2][0])
                ok = ok and qp[0] == "call" and _is_atom_hash(qp[2][0], (1,)) and U.has_field(qp[2][1], "mod_hash")
            else:
                ok = False
        ctx.ob(R, "ff-curry:shape", ok, "result = pair(a, pair(pair(q, mod_hash), pair(args, nil)))", found=show(r)[:300] if r else None)


def _lit(t):
    t = strip_all(t)
    for x in subterms(t):
        if isinstance(x, tuple) and x and x[0] == "cb":
            return tuple(x[2])
        if isinstance(x, tuple) and x and x[0] == "agg" and x[1] == "array":
            if all(y[0] == "c" for y in x[3]):
                return tuple(y[2] for y in x[3])
    return None


def _is_atom_hash(t, lit):
    t = strip_all(t)
    return t[0] == "call" and t[1] == TH + "tree_hash_atom" and _lit(t[2][0]) == lit


def c17_5(ctx):
    """(a) curry_tree_hash returns, on every path, the hash of (a (q . P) ARGS) with ARGS = 1 for no arguments and
    (c (q . arg) ARGS') otherwise — including the zero-argument case, which is still an application, not P itself;
    (b) TreeCache::visit moves a pair's state NOT_VISITED -> SEEN_ONCE -> SEEN_MULTIPLE and never touches an entry that is
    already a memo slot (a value at or below SEEN_MULTIPLE): the decrement is guarded by `> SEEN_MULTIPLE`"""
    from .. import apnf
    R = "C17.4"
    b = U.body(ctx, R, "clvm_utils::curry_tree_hash::curry_tree_hash")
    if b:
        A = lambda v: ("tree_hash_atom", ("as &[u8]", bytes(v)))
        PAIR = lambda x, y: ("tree_hash_pair", x, y)

        def args_ok(t, depth=0):
            if t == A([1]):
                return True
            # (c (q . arg) rest)
            return isinstance(t, tuple) and len(t) == 3 and t[0] == "tree_hash_pair" and t[1] == A([4]) and isinstance(t[2], tuple) and len(t[2]) == 3 \
                and t[2][0] == "tree_hash_pair" and isinstance(t[2][1], tuple) and t[2][1][:2] == ("tree_hash_pair", A([1])) and "arg_hashes" in str(t[2][1][2]) \
                and isinstance(t[2][2], tuple) and t[2][2][0] == "tree_hash_pair" and t[2][2][2] == A([]) and depth < 4 and args_ok(t[2][2][1], depth + 1)
        rets = []
        bad = []
        for ev, ex in P.enumerate_paths(b):
            if ex[0] != "return":
                continue
            r = apnf.N(P.ret_of(ev))
            rets.append(r)
            ok = isinstance(r, tuple) and len(r) == 3 and r[0] == "tree_hash_pair" and r[1] == A([2]) and isinstance(r[2], tuple) and len(r[2]) == 3 \
                and r[2][1] == PAIR(A([1]), "program_hash") and isinstance(r[2][2], tuple) and r[2][2][0] == "tree_hash_pair" and r[2][2][2] == A([]) \
                and args_ok(r[2][2][1])
            if not ok:
                bad.append(str(r)[:200])
        ctx.ob(R, "curry_tree_hash:shape", not bad and len(rets) >= 2,
               "curry_tree_hash returns hash((a (q . P) ARGS)) on every path (zero arguments included), ARGS built as (c (q . arg) ..) ending in 1",
               found=bad[:2] or None, where=b.fn.sp)
    R = "C17.3"
    vb = U.body(ctx, R, TH + "TreeCache::visit")
    if vb:
        consts = {k: ctx.fb.consts.get(TH + k, {}).get("value") for k in ("NOT_VISITED", "SEEN_ONCE", "SEEN_MULTIPLE")}
        rows = set()
        for ev, ex in P.enumerate_paths(vb, want_assign=True):
            if ex[0] != "return":
                continue
            dec = any(e[0] == "assign" and "SubWithOverflow" in str(apnf.N(e[3])) and ".pairs" in str(apnf.N(e[2])) for e in ev)
            g = [(t, v) for t, v in (apnf.fact(t, l) for t, l in P.conds(ev)) if isinstance(t, tuple) and t[0] in ("Gt", "Ge", "Lt", "Le", "Ne", "Eq") and ".pairs" in str(t[1]) and "index" in str(t[1])]
            rows.add((tuple(sorted((t[0], t[2], v) for t, v in g)), dec))
        sm = consts.get("SEEN_MULTIPLE")
        want = {((("Gt", sm, True),), True), ((("Gt", sm, False),), False), ((), False)}
        ctx.ob(R, "visit:decrement-guard", rows == want and sm is not None,
               "TreeCache::visit decrements a pair's state only while it is above SEEN_MULTIPLE (never a memo slot index)",
               found=sorted(map(str, rows ^ want))[:4] or None, where=vb.fn.sp)


def c17_6(ctx):
    """the hash-only encoder (ToTreeHash, used for curried-program hashes 'computed from hashes alone') has exactly the two
    primitive hooks -- atoms through tree_hash_atom, pairs through tree_hash_pair(first, rest) -- and overrides nothing else of
    ClvmEncoder: every other value kind (big integers, curried arguments, lists) reaches the hash through the same canonical
    byte encodings the real allocator-backed encoder uses, so both trees hash alike.  An extra override is a second,
    unverified hashing path (fail closed)."""
    from .. import apnf
    R = "C17.5"
    fb = ctx.fb
    TH_ = "clvm_utils::hash_encoder::TreeHasher"
    items = sorted(x for i in fb.impls if i.get("self_ty") == TH_ and i.get("trait") == "clvm_traits::clvm_encoder::ClvmEncoder" for x in i.get("items", []) if not x.endswith("::Node"))
    want = sorted("<%s as clvm_traits::clvm_encoder::ClvmEncoder>::%s" % (TH_, m) for m in ("encode_atom", "encode_pair"))
    ctx.ob(R, "tree-hasher:hooks", items == want, "impl ClvmEncoder for TreeHasher defines exactly encode_atom and encode_pair", found=items)
    for m, exp in (("encode_atom", "('Ok', ('tree_hash_atom', 'bytes'))"), ("encode_pair", "('Ok', ('tree_hash_pair', 'first', 'rest'))")):
        b = U.body(ctx, R, "<%s as clvm_traits::clvm_encoder::ClvmEncoder>::%s" % (TH_, m))
        if not b:
            continue
        rows = set()
        for ev, ex in P.enumerate_paths(b):
            rows.add((ex[0], str(apnf.N(P.ret_of(ev))) if ex[0] == "return" else "", len(P.conds(ev))))
        ctx.ob(R, "tree-hasher:" + m, rows == {("return", exp, 0)}, "TreeHasher::%s = %s (single path)" % (m, exp), found=sorted(map(str, rows))[:3])
    fs = [p for p in fb.fns if p.endswith("ToClvm<clvm_utils::hash_encoder::TreeHasher> for clvm_utils::tree_hash::TreeHash>::to_clvm")]
    if len(fs) == 1:
        b = Body(fb.fns[fs[0]], fb)
        rows = {(ex[0], str(apnf.N(P.ret_of(ev))) if ex[0] == "return" else "") for ev, ex in P.enumerate_paths(b)}
        ctx.ob(R, "tree-hasher:embedded-hash", rows == {("return", "('Ok', 'self')")}, "a TreeHash embedded in a value stands for itself")
    else:
        ctx.missing(R, "tree-hasher:embedded-hash", "impl ToClvm<TreeHasher> for TreeHash not found")


def c17_7(ctx):
    """(a) memo keys: in tree_hash_cached the node recorded for memoisation (ConsAddCache(X)), the node asked
    should_memoize / cache.get, and the node whose children are pushed are one and the same -- the node popped from the work
    stack -- and cache.insert files the freshly computed pair hash under exactly that recorded node.  A key taken from anywhere
    else (e.g. the function's root parameter) leaves a wrong hash in a reused cache.
    (b) tree_hash_from_bytes has one accepting path: decode the whole buffer (back-references allowed) and return
    tree_hash_cached of the decoded node with a fresh cache; no byte-level shortcut (the one-byte serialisation 0x80 is nil,
    not the atom 0x80)."""
    from .. import apnf
    R = "C17.3"
    b = U.body(ctx, R, TH + "tree_hash_cached")
    if b:
        popped = None
        keys = {}
        for bi, n, t in b.calls():
            f = U.flat(n)
            for nm in ("TreeCache::get", "TreeCache::should_memoize", "TreeCache::insert", "Allocator::node"):
                if f.endswith(nm):
                    keys.setdefault(nm.split("::")[-1], []).append(show(strip_all(b.operand_term(t["args"][1]))))
        opsl = b.local_named("ops")
        pushes = {}
        if opsl:
            for bi, name, args, pos in b.mut_history(opsl[0]):
                if U.flat(name).endswith("Vec::push"):
                    a = strip_all(args[1])
                    if a[0] == "agg" and a[3]:
                        pushes.setdefault(a[2], []).append(show(strip_all(a[3][0])))
        node_ = (keys.get("node") or [None])[0]
        ok = node_ is not None and node_.endswith("as SExp).0") and "Vec::pop" in node_ and \
            keys.get("get") == [node_] and keys.get("should_memoize") == [node_] and pushes.get("ConsAddCache") == [node_] and \
            len(keys.get("insert") or []) == 1 and keys["insert"][0] == node_.replace("as SExp).0", "as ConsAddCache).0")
        ctx.ob(R, "memo-key", ok,
               "the node examined (a.node), looked up (cache.get), asked should_memoize and recorded in ConsAddCache is the popped work item; "
               "cache.insert uses the recorded node", found={k: [x[-60:] for x in v] for k, v in list(keys.items()) + [("ConsAddCache", pushes.get("ConsAddCache") or [])]},
               where=b.fn.sp)
    R = "C17.2"
    b = U.body(ctx, R, TH + "tree_hash_from_bytes")
    if b:
        rows = set()
        for ev, ex in P.enumerate_paths(b):
            rows.add((ex[0], P.ret_class(ev) if ex[0] == "return" else "", str(apnf.N(P.ret_of(ev))) if ex[0] == "return" and P.ret_class(ev) == "Ok" else "",
                      tuple(sorted((str(apnf.N(t)), str(l)) for t, l in P.conds(ev)))))
        d = "('node_from_bytes_backrefs', ('Allocator::new',), 'buf')"
        exp = {("return", "Ok", "('Ok', ('tree_hash_cached', ('after', %s), %s, ('default',)))" % (d, d), ((d, "('try', True)"),)),
               ("return", "Err", "", ((d, "('try', False)"),))}
        ctx.ob(R, "from-bytes:exact", rows == exp,
               "tree_hash_from_bytes = tree_hash_cached(decode(buf), fresh cache); the only other exit is the decoder's error",
               found=sorted(map(str, rows ^ exp))[:2] or None, where=b.fn.sp)
