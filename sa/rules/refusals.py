"""Rule REF — refusal inventory.

Many properties say that an operation *succeeds* on every valid input (every honest proof verifies, every blob reloads,
every accepted block is answered by the trusted helpers, every key has a proof ...).  A change that adds a new way to refuse
-- a size cap, a depth cap, a "sanity" test, an early validation call whose error is propagated -- breaks such a clause on
exactly the inputs the added test dislikes, while every existing test still passes.  For the functions on those paths the
rule compares the complete inventory of refusal sites with spec/refusals.json:

  * explicit refusals: every `_0 = Err(<error value>)` / `return None` construction, by error variant;
  * propagated refusals: every `?` (FromResidual) site, by the callee whose failure it forwards.

Descriptors do not depend on line numbers, block numbers or local names.  Only *new kinds* of refusal are reported: an
explicit error variant the function did not return before, or a `?` on a callee whose failure it did not forward before.
Repeating or re-arranging existing kinds (a second `first(..)?`, a moved check) and removing sites is not reported here --
dropped checks are the business of the properties' must-pass rules -- which keeps the rule quiet on refactorings that do
not add a way to fail.  Rows were produced from the pinned tree, reviewed, frozen."""
import json
import os

from .. import apnf
from ..mir import Body, strip_all, subterms
from . import util as U

SPEC = os.path.join(os.path.dirname(os.path.dirname(os.path.dirname(os.path.abspath(__file__)))), "spec", "refusals.json")


def _callee_heads(t):
    """names of the calls a normalised term is built from, outermost first"""
    out = []
    if isinstance(t, tuple) and t:
        if isinstance(t[0], str) and t[0] not in ("from_residual", "branch", "as:Break", ".0", ".1", "after", "Result::map_err", "Option::ok_or",
                                                   "Option::ok_or_else", "Result::or", "map_err", "ok_or", "Result::map", "as:Continue") \
                and not t[0].startswith((".", "as:", "as ")):
            out.append(t[0])
            return out
        for x in t[1:]:
            out += _callee_heads(x)
            if out:
                break
    return out


def _ok_or(t):
    """the error variant E of `from_residual(.. branch(Option::ok_or(_, E)))`, if E is a literal variant"""
    x = t
    while isinstance(x, tuple) and x and x[0] in ("from_residual", ".0", "as:Break", "branch") and len(x) == 2:
        x = x[1]
    if isinstance(x, tuple) and len(x) == 3 and x[0] == "Option::ok_or" and isinstance(x[2], tuple) and x[2] and \
            isinstance(x[2][0], str) and "::" in x[2][0]:
        e = x[2]
        while isinstance(e, tuple) and len(e) > 1 and isinstance(e[1], tuple) and e[1] and isinstance(e[1][0], str) and "::" in e[1][0]:
            e = e[1]
        return e[0]
    return None


ALT = {}


def inventory(b):
    inv = []
    ALT.clear()
    # explicit refusals: every construction of Result::Err(<error value>) anywhere in the body (covers `return Err(..)`,
    # `Some(Err(..))` of fallible iterators, `.ok_or(Err..)` arguments) and every `_0 = None`
    for bi, blk in enumerate(b.blocks):
        if bi not in b.reach:
            continue
        for st in blk["s"]:
            if st["k"] != "assign" or st["rv"]["k"] != "agg":
                continue
            rv = st["rv"]
            if rv.get("adt") == "core::result::Result" and rv.get("variant") == "Err":
                t = apnf.N(strip_all(b.rvalue_term(rv)))
                x = t
                while isinstance(x, tuple) and len(x) > 1 and isinstance(x[1], tuple) and x[1] and isinstance(x[1][0], str) and "::" in x[1][0]:
                    x = x[1]
                inv.append("explicit:Err(%s)" % (x[0] if isinstance(x, tuple) and isinstance(x[0], str) else str(x)[:40]))
            elif rv.get("adt") == "core::option::Option" and rv.get("variant") == "None" and st["pl"]["l"] == 0 and not st["pl"].get("p"):
                inv.append("explicit:None")
    for bi, k, d, rv in b.ret_assignments():
        if k == "call" and "from_residual" in str(d):
            t = apnf.N(strip_all(b.call_term(rv)))
            ok_or = _ok_or(t)
            heads = _callee_heads(t)
            d_ = "propagates:" + (heads[0] if heads else "?")
            if ok_or is not None:
                # `opt.ok_or(E)?` is the explicit refusal `return Err(E)` spelled with a combinator: either descriptor names it
                ALT[d_] = ALT.get(d_, set()) | {"explicit:Err(%s)" % ok_or}
            inv.append(d_)
    return sorted(inv)


def load():
    with open(SPEC) as f:
        return json.load(f)["rows"]


def find(fb, path):
    fs = [f for p, f in fb.fns.items() if (p == path or p.startswith(path + "::<")) and f.e["kind"] in ("Fn", "AssocFn")]
    return fs[0] if len(fs) == 1 else None


def run_for(ctx):
    rows = [r for r in load() if ctx.pid in r["property"]]
    n = 0
    for r in rows:
        f = find(ctx.fb, r["fn"])
        key = r["fn"].split("::", 1)[1] if "::" in r["fn"] else r["fn"]
        rule = "%s.REF" % ctx.pid
        if f is None:
            ctx.missing(rule, key, "function not found")
            continue
        b = Body(f, ctx.fb)
        ctx.touched(b.path)
        got = set(inventory(b))
        want = set(r["refusals"])
        n += 1
        added = sorted(x for x in got - want if not (ALT.get(x, set()) & want))
        ctx.ob(rule, key, not added,
               "no new kind of refusal (%d kinds reviewed)" % len(want) if not added else
               "%s can now refuse in a way that was not reviewed: %s" % (key, added),
               expected=sorted(want), found=sorted(got), where=f.sp)
    if rows:
        ctx.floor("%s.REF" % ctx.pid, "functions with a refusal inventory", n, len(rows))
