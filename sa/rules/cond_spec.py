"""Expected accepting-path sets of `parse_args`, generated from the semantic rows of spec/conditions.json.
Vocabulary = the normal form produced by sa.apnf (positions as first/rest chains over the argument list `c`)."""
import json
import os

from .. import facts as F

SPEC = os.path.join(F.VERIF, "spec", "conditions.json")
STRICT = ("contains", "flags", "chia_consensus::flags::ConsensusFlags::STRICT_ARGS_COUNT")
NOUNK = ("contains", "flags", "chia_consensus::flags::ConsensusFlags::NO_UNKNOWN_CONDS")
CODE = "CODE"
C = "c"


def load():
    with open(SPEC) as f:
        return json.load(f)


def first(x):
    return ("first", x)


def rest(x):
    return ("rest", x)


def ok(t):
    return (t, "ok")


def strict(flag, pos):
    """terminator rule: with STRICT_ARGS_COUNT the list must end right after `pos`'s first element"""
    if not flag:
        return {(STRICT, False)}
    return {(STRICT, True), ok(rest(pos)), ok(("check_nil", rest(pos)))}


def cond(variant, *args):
    return ("Ok", ("Condition::" + variant,) + tuple(args))


def expected(row, sizes):
    t = row["template"]
    v = row["variant"]
    out = set()
    if t == "agg_sig":
        pk = ("sanitize_hash", first(C), sizes["public_key"], CODE)
        msg = ("sanitize_announce_msg", first(rest(C)), CODE)
        base = {ok(first(C)), ok(pk), ok(rest(C)), ok(first(rest(C))), ok(msg)}
        for flag in (False, True):
            out.add((frozenset(base | strict(flag, rest(C))), cond(v, pk, msg)))
    elif t in ("one_hash", "one_msg", "one_amount"):
        if t == "one_hash":
            s = ("sanitize_hash", first(C), sizes["hash"], CODE)
        elif t == "one_msg":
            s = ("sanitize_announce_msg", first(C), CODE)
        else:
            s = ("parse_amount", first(C), CODE)
        for flag in (False, True):
            out.add((frozenset({ok(first(C)), ok(s)} | strict(flag, C)), cond(v, s)))
    elif t == "one_uint":
        su = ("sanitize_uint", first(C), row["width"], CODE)
        val = su if row["width"] == 8 else ("as u32", su)
        for flag in (False, True):
            base = {ok(first(C)), (su, "ok")} | strict(flag, C)
            out.add((frozenset(base | {(su, "Ok")}), cond(v, val)))
            for cls, key in (("NegativeOverflow", "negative"), ("PositiveOverflow", "oversized")):
                how = row[key]
                if how == "skip":
                    out.add((frozenset(base | {(su, cls)}), cond("Skip")))
                elif how == "skip_relative":
                    out.add((frozenset(base | {(su, cls)}), cond("SkipRelativeCondition")))
    elif t == "no_arg":
        out.add((frozenset({(STRICT, False)}), cond(v)))
        out.add((frozenset({(STRICT, True), ok(("check_nil", C))}), cond(v)))
    elif t == "remark":
        out.add((frozenset(), cond(v)))
    elif t == "softfork":
        su = ("sanitize_uint", first(C), row["width"], CODE)
        out.add((frozenset({(NOUNK, False), ok(first(C)), (su, "ok"), (su, "Ok")}),
                 cond(v, (".0", ("MulWithOverflow", su, row["scale"])))))
    elif t == "message":
        mode = ("sanitize_message_mode", first(C))
        msg = ("sanitize_announce_msg", first(rest(C)), CODE)
        lo = ("as u8", ("BitAnd", mode, 7))
        hi = ("as u8", ("BitAnd", ("Shr", mode, 3), 7))
        other = lo if row["direction"] == "send" else hi      # mode bits describing the *other* party
        own = hi if row["direction"] == "send" else lo
        sp = ("SpendId::parse", rest(rest(C)), other)
        base = {ok(first(C)), ok(mode), ok(rest(C)), ok(first(rest(C))), ok(msg), ok(rest(rest(C))), ok(sp)}
        res = cond(v, own, sp, msg) if row["direction"] == "send" else cond(v, sp, own, msg)
        out.add((frozenset(base | {(STRICT, False)}), res))
        out.add((frozenset(base | {(STRICT, True), ok(("check_nil", ("after", sp)))}), res))
    elif t == "create_coin":
        ph = ("sanitize_hash", first(C), sizes["hash"], CODE)
        su = ("sanitize_uint", first(rest(C)), 8, CODE)
        c2 = rest(rest(C))
        params = first(c2)
        param = first(params)
        base = {ok(first(C)), ok(ph), ok(rest(C)), ok(first(rest(C))), (su, "ok"), (su, "Ok"), ok(c2)}
        nil = ("Allocator::nil",)
        # no third argument at all: c2 is the terminator
        out.add((frozenset(base | {(params, "Err"), (STRICT, False)}), cond(v, ph, su, nil)))
        out.add((frozenset(base | {(params, "Err"), (STRICT, True), ok(("check_nil", c2))}), cond(v, ph, su, nil)))
        for flag in (False, True):
            b2 = base | {(params, "Ok")} | strict(flag, c2)
            out.add((frozenset(b2 | {(param, "Err")}), cond(v, ph, su, nil)))
            out.add((frozenset(b2 | {(param, "Ok"), (("Allocator::sexp", param), "Pair")}), cond(v, ph, su, nil)))
            atom = b2 | {(param, "Ok"), (("Allocator::sexp", param), "Atom")}
            le = ("Le", ("Allocator::atom_len", param), sizes["hint_max"])
            out.add((frozenset(atom | {(le, False)}), cond(v, ph, su, nil)))
            out.add((frozenset(atom | {(le, True)}), cond(v, ph, su, param)))
    else:
        raise ValueError(t)
    return out


def expected_two_byte(op):
    return {(frozenset({(NOUNK, False)}), cond("Softfork", ("compute_unknown_condition_cost", op)))}


def canon(x):
    """error codes are not part of the accept/reject behaviour: collapse them"""
    if isinstance(x, tuple):
        if x and isinstance(x[0], str) and (x[0].startswith("ErrorCode::") or x[0].startswith("ValidationErr::")):
            return CODE
        return tuple(canon(y) for y in x)
    if isinstance(x, frozenset):
        return frozenset(canon(y) for y in x)
    return x


def expand_helper(paths):
    """maybe_check_args_terminator(pos, flags) == strict terminator rule at pos: expand it so that the helper
    being inlined or extracted does not change the normal form"""
    out = set()
    for facts_, res in paths:
        helpers = [f for f in facts_ if isinstance(f[0], tuple) and f[0] and f[0][0] == "maybe_check_args_terminator"]
        variants = [set(facts_) - set(helpers)]
        for h in helpers:
            pos = h[0][1]
            if h[1] != "ok":
                variants = []
                break
            variants = [v | strict(flag, pos) for v in variants for flag in (False, True)]
        for v in variants:
            # a path cannot assume both values of the flag
            if (STRICT, True) in v and (STRICT, False) in v:
                continue
            out.add((frozenset(v), res))
    return out
