"""C02 — accepted bundles conserve value and never duplicate coins.

  C02.1 double spend: parse_conditions is only called from process_single_spend; SpendBundleConditions.spends is
        pushed only by parse_conditions; process_single_spend inserts the computed coin id into ParseState.spent_coins
        and rejects a collision on every path to Ok; every entry point creates one ParseState per call and routes every
        spend through process_single_spend; ParseState's sets are private
  C02.2 duplicate outputs: addition_amount grows only after create_coin.insert returned true; create_coin is a
        HashSet<NewCoin>; NewCoin's Hash and Eq use exactly {puzzle_hash, amount}
  C02.3 conservation: validate_conditions rejects removal < addition and removal - addition < reserve_fee; it is on
        every entry point's Ok path (C01.5); the totals are u128, each written at one site by `+= x as u128` with x: u64;
        reserve_fee accumulates with checked_add (overflow rejects)
  C02.4 coin id: compute_coin_id feeds sha256 exactly atom(parent) || atom(puzzle_hash) || amount-bytes, where the
        amount bytes are the raw atom of the node validated by parse_amount; Coin::coin_id feeds parent || puzzle_hash ||
        canonical amount (C11.1); in run_block_generator2 the node hashed is the node that was run; run_spendbundle
        compares the declared puzzle hash with tree_hash of the node that was run
"""
from .. import apnf
from .. import paths as P
from ..mir import Body, strip_all, show, subterms
from . import util as U
from . import regions as RG
from . import c01_effects as E

CC = "chia_consensus::"
HARNESS_MARK = ("::tests", "fuzz")


def _fn(fb, prefix):
    fs = [f for p, f in fb.fns.items() if (p == prefix or p.startswith(prefix + "::<") or p.startswith(prefix)) and f.e["kind"] == "Fn"
          and p.split("::<")[0] == prefix]
    return fs[0] if len(fs) == 1 else None


def run(ctx):
    ctx.explanation = (
        "MPT/WMC/TBL/PROV rules over chia-consensus: who may call parse_conditions / push spends, the double-spend and "
        "duplicate-output guards dominate every acceptance, conservation guards and their operand identities, 128-bit "
        "accumulation at single write sites, and the provenance of the bytes hashed into coin ids and of the puzzle node that "
        "is both run and hashed. SHA-256 collision freeness and the legacy ROM are external.")
    ctx.trusted += ["SHA-256", "clvmr run_program / tree nodes", "std HashSet/HashMap"]
    ctx.assumptions += ["N: collision-freeness of SHA-256; that tree_hash* compute the tree hash (C17); the legacy ROM's puzzle hashing (CLVM)"]
    c02_1(ctx)
    c02_2(ctx)
    c02_3(ctx)
    c02_4(ctx)
    # "the reported totals equal the sums over the listed spends": the owned summary lists every spend (shared with C01.8)
    from . import c01_owned, c11
    c01_owned.run(ctx, R="C02.5")
    # "minimal big-endian encoding of the amount": the coin id hashes the raw amount atom, so the sanitiser must admit only the
    # canonical form (shared with C11.2)
    c11.c11_2(ctx, R="C02.6")
    # value conservation is enforced by validate_conditions: no accepting path of an entry point may skip it (shared with C01.5)
    from . import c01_effects
    c01_effects.entry_points_validate(ctx, "C02.3")
    # the reserved fee and the created amounts are read through the canonical, overflow-rejecting amount parser (spec rows shared with C01.2)
    from . import c01
    from . import cond_spec as _S
    c01.c01_2(ctx, _S.load(), rule="C02.3", only={"name:RESERVE_FEE", "name:CREATE_COIN", "two-byte"})
    # "the reported puzzle hash is the tree hash of the revealed puzzle": atoms and pairs are hashed by tree_hash_atom / tree_hash_pair
    # in both traversals (shared with C17.2); and no condition is dropped between cost pre-charging and parsing (shared with C04.2)
    from . import c17, c04
    c17.c17_2(ctx, R="C02.4")
    # the precomputed-hash table is consulted only for allocator small-ints (index sites / guard), shared with C17.1: a
    # table lookup added on the byte-buffer path changes coin-id inputs (puzzle hashes) for one-byte atoms not stored as small ints
    c17.c17_1(ctx, R="C02.4")
    c04.c04_2(ctx, c04.load(), R="C02.3")


def c02_1(ctx):
    R = "C02.1"
    fb = ctx.fb
    pc = RG.parse_conditions_body(fb)
    if pc is None:
        return ctx.missing(R, "parse_conditions", "not found")
    callers = sorted(x for x in fb.callers(pc.path))
    ok = bool(callers) and all(c.startswith(CC + "conditions::process_single_spend") for c in callers)
    ctx.ob(R, "wmc:parse_conditions", ok, "parse_conditions is called only by process_single_spend (production scope)", found=callers)
    # who pushes to SpendBundleConditions.spends
    pushers = set()
    for p, f in fb.fns.items():
        if not p.startswith(CC) or "owned_conditions" in p:
            continue
        if not any((c.get("res") or "").endswith("Vec::<T, A>::push") or "Vec" in (c.get("res") or "") and (c.get("res") or "").endswith("::push")
                   for c in f.e.get("calls", [])):
            continue
        b = Body(f, fb)
        for bi, n, t in b.calls():
            if U.flat(n).endswith("Vec::push"):
                a0 = b.operand_term(t["args"][0])
                x = a0[2] if a0[0] == "refmut" else a0
                x = strip_all(x)
                if x[0] == "f" and x[2] == "spends":
                    pushers.add(p)
    ctx.ob(R, "wmc:spends.push", pushers == {pc.path}, "SpendBundleConditions.spends is pushed only by parse_conditions", found=sorted(pushers))
    pss = _fn(fb, CC + "conditions::process_single_spend")
    if pss:
        b = Body(pss, fb)
        ctx.touched(b.path)

        def fresh(t, lab):
            return U.has_call(t, "HashMap::insert") and U.has_field(t, "spent_coins") and U.has_call(t, "is_some") and lab == ("bool", False)
        edges = U.edges_where(b, fresh)
        exits = [bi for bi, k, d, rv in b.ret_assignments()]
        okexits = [bi for bi, k, d, rv in b.ret_assignments() if k == "call" and "parse_conditions" in d] + b.ok_exits()
        U.must_pass(ctx, R, b, "double-spend-guard", okexits, edges,
                    "every non-rejecting exit of process_single_spend has inserted the coin id into spent_coins without collision")
        # the id inserted is compute_coin_id(parent, puzzle_hash, atom(amount)) of this spend
        ins = [t for bi, n, t in b.calls() if U.flat(n).endswith("HashMap::insert")]
        ok = False
        if len(ins) == 1:
            k = strip_all(b.operand_term(ins[0]["args"][1]))
            c = U.find_call(k, "coin_id::compute_coin_id")
            ok = bool(c) and "sanitize_hash" in str(c[2][1]) and "sanitize_hash" in str(c[2][2]) and U.has_call(c[2][3], "Allocator::atom") \
                and U.has_arg(c[2][3], "amount") and U.has_arg(c[2][1], "parent_id") and U.has_arg(c[2][2], "puzzle_hash")
        ctx.ob(R, "id-inserted", ok, "the key inserted is compute_coin_id(sanitised parent, sanitised puzzle hash, raw amount atom)")
    # entry points: one ParseState per call, every spend via process_single_spend
    for ep in (CC + "conditions::parse_spends", CC + "run_block_generator::run_block_generator2", CC + "spendbundle_conditions::run_spendbundle"):
        f = _fn(fb, ep)
        if not f:
            ctx.missing(R, "entry:" + ep, "not found")
            continue
        b = Body(f, fb)
        ctx.touched(b.path)
        news = [bi for bi, n, t in b.calls() if "ParseState" in n and "default" in n.lower()]
        pss_calls = [bi for bi, n, t in b.calls() if n.startswith(CC + "conditions::process_single_spend")]
        ok = len(news) == 1 and not b.in_cycle(news[0]) and len(pss_calls) == 1 and b.in_cycle(pss_calls[0])
        ctx.ob(R, "entry:%s" % ep.split("::")[-1], ok,
               "%s creates one ParseState (outside the loop) and runs every spend through process_single_spend" % ep.split("::")[-1],
               found={"ParseState::default": len(news), "process_single_spend": len(pss_calls)})
        U.loop_no_skip(ctx, R, b, "no-skipped-spend:%s" % ep.split("::")[-1], pss_calls,
                       "every element of the spend list reaches process_single_spend or aborts the run (no iteration is skipped)")
    adt = fb.adts.get(CC + "conditions::ParseState")
    if adt:
        pub = sorted(f["name"] for f in adt["variants"][0]["fields"] if f["pub"])
        ctx.ob(R, "vis:ParseState", pub == ["pkm_pairs"], "all ParseState fields except pkm_pairs are private", found=pub)


def _root_local(b, op):
    pl = op.get("cp") or op.get("mv")
    return pl["l"] if pl else None


def c02_2(ctx):
    R = "C02.2"
    fb = ctx.fb
    b, regs = RG.variant_regions(fb)
    if regs:
        T = E.effect_table()
        got = {(ex, E.canon(f), frozenset(E.canon(e) for e in eff)) for ex, f, eff in regs.get("CreateCoin", [])}
        ctx.ob(R, "create-coin-arm", got == T["CreateCoin"],
               "addition_amount += amount happens exactly on the path where create_coin.insert returned true; false => DuplicateOutput")
    adt = fb.adts.get(CC + "conditions::SpendConditions")
    if adt:
        ty = {f["name"]: f["ty"] for f in adt["variants"][0]["fields"]}.get("create_coin", "")
        ctx.ob(R, "type:create_coin", ty.startswith("std::collections::hash::set::HashSet<chia_consensus::conditions::NewCoin"),
               "create_coin is a HashSet<NewCoin>", found=ty)
    for tr, meth in (("core::hash::Hash", "hash"), ("core::cmp::PartialEq", "eq")):
        p = "<chia_consensus::conditions::NewCoin as %s>::%s" % (tr, meth)
        f = fb.fns.get(p)
        if not f:
            ctx.missing(R, "NewCoin:" + meth, "impl not found")
            continue
        bb = Body(f, fb)
        fields = set()
        for bi, blk in enumerate(bb.blocks):
            if bi not in bb.reach:
                continue
            for s in blk["s"]:
                if s["k"] == "assign":
                    for x in subterms(bb.rvalue_term(s["rv"])):
                        if isinstance(x, tuple) and x and x[0] == "f" and x[1][0] == "arg":
                            fields.add(x[2])
        ctx.ob(R, "NewCoin:" + meth, fields == {"puzzle_hash", "amount"},
               "NewCoin::%s uses exactly {puzzle_hash, amount} (the hint is not part of a coin's identity)" % meth, found=sorted(fields))


def c02_3(ctx):
    R = "C02.3"
    fb = ctx.fb
    adt = fb.adts.get(CC + "conditions::SpendBundleConditions")
    if adt:
        tys = {f["name"]: f["ty"] for f in adt["variants"][0]["fields"]}
        ctx.ob(R, "types", tys.get("removal_amount") == "u128" and tys.get("addition_amount") == "u128" and tys.get("reserve_fee") == "u64",
               "removal_amount/addition_amount are u128, reserve_fee u64", found={k: tys.get(k) for k in ("removal_amount", "addition_amount", "reserve_fee")})
    # single write sites, `+= x as u128`
    writes = {"removal_amount": [], "addition_amount": [], "reserve_fee": []}
    for p, f in fb.fns.items():
        if not p.startswith(CC) or "owned_conditions" in p:
            continue
        b = Body(f, fb)
        for bi, blk in enumerate(b.blocks):
            if bi not in b.reach:
                continue
            for s in blk["s"]:
                if s["k"] == "assign" and s["pl"].get("p"):
                    last = s["pl"]["p"][-1]
                    if isinstance(last, dict) and last.get("n") in writes and (last.get("of") or "") == CC + "conditions::SpendBundleConditions":
                        writes[last["n"]].append((p, apnf.N(b.rvalue_term(s["rv"]))))
    for fld in ("removal_amount", "addition_amount"):
        ws = writes[fld]
        ok = len(ws) == 1 and ws[0][1][0] == ".0" and ws[0][1][1][0] == "AddWithOverflow" and ws[0][1][1][2][0] == "as u128"
        ctx.ob(R, "sum:" + fld, ok, "%s is written at exactly one site, by `+= (x as u128)`" % fld, found=[(p, str(v)[:160]) for p, v in ws])
    ws = writes["reserve_fee"]
    ok = len(ws) == 1 and "checked_add" in str(ws[0][1])
    ctx.ob(R, "sum:reserve_fee", ok, "reserve_fee accumulates with checked_add (overflow rejects)", found=[(p, str(v)[:160]) for p, v in ws])
    # conservation guards (operator and operand identity)
    b = U.body(ctx, R, CC + "conditions::validate_conditions")
    if b:
        def minting(t, lab):
            t = strip_all(t)
            return t[0] == "bin" and t[1] == "Lt" and _is_field(t[2], "removal_amount") and _is_field(t[3], "addition_amount") and lab == ("bool", True)

        def fee(t, lab):
            t = strip_all(t)
            if not (t[0] == "bin" and t[1] == "Lt" and lab == ("bool", True)):
                return False
            l, r = strip_all(t[2]), strip_all(t[3])
            sub = [x for x in subterms(l) if isinstance(x, tuple) and x and x[0] == "bin" and x[1] in ("Sub", "SubWithOverflow")]
            return bool(sub) and _is_field(sub[0][2], "removal_amount") and _is_field(sub[0][3], "addition_amount") and \
                r[0] == "cast" and _is_field(r[1], "reserve_fee") and r[2] == "u128"
        for nm, pred in (("minting", minting), ("reserve-fee", fee)):
            edges = U.edges_where(b, pred)
            ok = len(edges) == 1 and not b.reachable_avoiding(edges[0], b.ok_exits(), [])
            ctx.ob(R, "guard:" + nm, ok, "validate_conditions rejects %s" % (
                "removal_amount < addition_amount" if nm == "minting" else "removal - addition < reserve_fee as u128"))


def _is_field(t, name):
    t = strip_all(t)
    return t[0] == "f" and t[2] == name


def c02_4(ctx):
    R = "C02.4"
    fb = ctx.fb
    b = U.body(ctx, R, CC + "coin_id::compute_coin_id")
    if b:
        hl = b.local_named("hasher")
        seq = [strip_all(a[1]) for _, n, a, _ in b.mut_history(hl[0])] if hl else []
        ok = len(seq) == 3 and U.has_call(seq[0], "Allocator::atom") and U.has_arg(seq[0], "parent_id") and \
            U.has_call(seq[1], "Allocator::atom") and U.has_arg(seq[1], "puzzle_hash") and seq[2] == ("arg", 3, "amount")
        ctx.ob(R, "compute_coin_id", ok, "compute_coin_id = sha256(atom(parent_id) || atom(puzzle_hash) || amount bytes)", found=[show(x) for x in seq])
    b = U.body(ctx, R, "chia_protocol::coin::Coin::coin_id")
    if b:
        hl = b.local_named("hasher")
        seq = [strip_all(a[1]) for _, n, a, _ in b.mut_history(hl[0])] if hl else []
        ok = len(seq) >= 3 and U.has_field(seq[0], "parent_coin_info") and U.has_field(seq[1], "puzzle_hash")
        ctx.ob(R, "Coin::coin_id", ok, "Coin::coin_id hashes parent_coin_info, puzzle_hash, then the amount ladder (C11.1)")
    # process_single_spend: amount bytes = atom(amount) of the very node given to parse_amount
    pss = _fn(fb, CC + "conditions::process_single_spend")
    if pss:
        b = Body(pss, fb)
        pa = [strip_all(b.operand_term(t["args"][1])) for bi, n, t in b.calls() if n.endswith("condition_sanitizers::parse_amount")]
        at = [strip_all(b.operand_term(t["args"][1])) for bi, n, t in b.calls() if U.flat(n).endswith("Allocator::atom")]
        ok = len(pa) == 1 and pa[0] == ("arg", 5, "amount") and pa[0] in at
        ctx.ob(R, "amount-node", ok, "the amount bytes hashed are the atom of the same node parse_amount validated (canonical by C01.3)", found=[show(x) for x in pa])
    # run_block_generator2: hashed node == run node
    f = _fn(fb, CC + "run_block_generator::run_block_generator2")
    if f:
        b = Body(f, fb)
        runs = [t for bi, n, t in b.calls() if U.flat(n).endswith("run_program::run_program") and b.in_cycle(bi)]
        ths = [t for bi, n, t in b.calls() if n.endswith("tree_hash::tree_hash_cached") and b.in_cycle(bi)]
        ok = len(runs) == 1 and len(ths) == 1 and strip_all(b.operand_term(runs[0]["args"][2])) == strip_all(b.operand_term(ths[0]["args"][1]))
        ctx.ob(R, "rbg2:hash-what-you-run", ok, "run_block_generator2 tree-hashes the very node it runs as the puzzle",
               found=[show(strip_all(b.operand_term(runs[0]["args"][2])))[:120], show(strip_all(b.operand_term(ths[0]["args"][1])))[:120]] if runs and ths else None)
        # the puzzle hash atom given to process_single_spend is new_atom(tree hash)
        ps = [t for bi, n, t in b.calls() if n.startswith(CC + "conditions::process_single_spend")]
        ok = False
        if len(ps) == 1:
            ph = strip_all(b.operand_term(ps[0]["args"][4]))
            ok = U.has_call(ph, "Allocator::new_atom") and U.has_call(ph, "tree_hash_cached")
        ctx.ob(R, "rbg2:puzzle-hash-arg", ok, "the puzzle hash handed to process_single_spend is the computed tree hash")
    f = _fn(fb, CC + "spendbundle_conditions::run_spendbundle")
    if f:
        b = Body(f, fb)
        runs = [t for bi, n, t in b.calls() if U.flat(n).endswith("run_program::run_program")]
        ths = [t for bi, n, t in b.calls() if n.endswith("tree_hash::tree_hash")]
        same = len(runs) == 1 and len(ths) == 1 and strip_all(b.operand_term(runs[0]["args"][2])) == strip_all(b.operand_term(ths[0]["args"][1]))

        def matches(t, lab):
            return "PartialEq" in str(t) and U.has_field(t, "puzzle_hash") and U.has_call(t, "tree_hash::tree_hash") and \
                ((U.find_call(t, "::ne") is not None and lab == ("bool", False)) or (U.find_call(t, "::eq") is not None and lab == ("bool", True)))
        edges = U.edges_where(b, matches)
        ps = [bi for bi, n, t in b.calls() if n.startswith(CC + "conditions::process_single_spend")]
        ok2 = bool(edges) and bool(ps) and b.witness_path(0, ps, edges) is None
        ctx.ob(R, "mempool:declared-hash-checked", same and ok2,
               "run_spendbundle processes a spend only if the declared puzzle hash equals tree_hash of the node it ran")
