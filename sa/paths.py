"""Bounded path enumeration over one MIR body with an along-path symbolic environment.

Along each path every local holds a *term* (value numbering along that path: copies/moves transparent, calls
uninterpreted, literals folded).  A path is a list of events:
  ("cond", term, label, bb)                   a branch decision (normalised as in mir.normalise_cond)
  ("call", bb, name, args, dest, callterm)    a call, in execution order
  ("assign", bb, place_term, value_term)      a store through a projection (field stores)   [want_assign]
  ("ret", bb, term)                           assignment to the return place
ending in an exit descriptor.  Loops: every block may be entered at most `max_visits` times per path
(default 2: zero and one iteration of each loop).  Feasibility pruning is constant folding only: a switch whose
operand folds to a literal follows that edge.  No solver; no repository code is executed."""
from . import mir
from .mir import callee_name, const_term


class Budget(Exception):
    pass


FOLD = {
    "Lt": lambda a, b: int(a < b), "Le": lambda a, b: int(a <= b), "Gt": lambda a, b: int(a > b),
    "Ge": lambda a, b: int(a >= b), "Eq": lambda a, b: int(a == b), "Ne": lambda a, b: int(a != b),
    "BitAnd": lambda a, b: a & b, "BitOr": lambda a, b: a | b, "BitXor": lambda a, b: a ^ b,
    "Shr": lambda a, b: a >> b, "Shl": lambda a, b: a << b,
}


def _cval(t):
    if isinstance(t, tuple) and t and t[0] == "c" and isinstance(t[2], int):
        return t[2]
    return None


_RO = {("core::result::Result", "Ok"): 0, ("core::result::Result", "Err"): 1,
       ("core::option::Option", "None"): 0, ("core::option::Option", "Some"): 1}


def _known_discr(pt):
    """discriminant of a literally constructed Result / Option, or of `Try::branch` applied to one (`Err(e)?`):
    ControlFlow::Continue = 0, ControlFlow::Break = 1"""
    x = mir.strip_all(pt)
    if isinstance(x, tuple) and x and x[0] == "agg" and (x[1], x[2]) in _RO:
        return _RO[(x[1], x[2])]
    r = _residual_kind(x)
    if r is not None:
        return 1 if r == "Err" else 0
    if isinstance(x, tuple) and x and x[0] == "call" and x[1].endswith("as core::ops::try_trait::Try>::branch") and len(x[2]) == 1:
        a = mir.strip_all(x[2][0])
        if isinstance(a, tuple) and a and a[0] == "agg" and (a[1], a[2]) in _RO:
            return 0 if a[2] in ("Ok", "Some") else 1
        if _residual_kind(a) is not None:
            return 1
    return None


def _residual_kind(x):
    """`FromResidual::from_residual` of Result / Option always builds Err / None (the value an inlined helper returns from `?`)"""
    if isinstance(x, tuple) and x and x[0] == "call" and isinstance(x[1], str) and x[1].endswith("::from_residual"):
        if x[1].startswith("<core::result::Result<"):
            return "Err"
        if x[1].startswith("<core::option::Option<"):
            return "None"
    return None


class Sym:
    """symbolic evaluation of operands/rvalues under an environment local -> term"""

    def __init__(self, b):
        self.b = b

    def local(self, l, env):
        if l in env:
            return env[l]
        b = self.b
        if 1 <= l <= b.argc:
            return ("arg", l - 1, b.names.get(l, "_%d" % l))
        # not yet assigned on this path (e.g. used before definition in a loop): opaque
        return ("var", l, b.names.get(l, "_%d" % l))

    def place(self, pl, env):
        t = self.local(pl["l"], env)
        for e in pl.get("p", []):
            if e == "*":
                t = mir.strip_ref(t)
            elif isinstance(e, str):
                pass
            elif "f" in e:
                t = self._field(t, str(e.get("n", e["f"])), e["f"])
            elif "dc" in e:
                t = ("dc", t, str(e.get("n", e["dc"])))
            elif "idx" in e:
                t = ("idx", t, self.local(e["idx"], env))
            elif "ci" in e:
                t = ("idx", t, ("c", "usize", (-1 - e["ci"]) if e.get("from_end") else e["ci"], None))
            elif "sub" in e:
                t = ("sub", t, e["sub"], e["to"], bool(e.get("from_end")))
        return t

    def _field(self, t, name, idx):
        # projection of a known tuple aggregate: take the operand
        x = t
        if isinstance(x, tuple) and x and x[0] == "agg" and x[1] in ("tuple",) and idx < len(x[3]):
            return x[3][idx]
        return ("f", t, name)

    def operand(self, op, env):
        if "c" in op:
            return const_term(op["c"])
        pl = op.get("cp") or op.get("mv")
        if pl is None:
            return ("?",)
        return self.place(pl, env)

    def rvalue(self, rv, env):
        k = rv["k"]
        if k == "use":
            return self.operand(rv["a"], env)
        if k in ("ref", "rawptr"):
            inner = self.place(rv["pl"], env)
            m = str(rv.get("m"))
            if m == "mut" or "Mut" in m:
                return ("refmut", self._root(rv["pl"], env), inner)
            return ("ref", inner)
        if k == "cast":
            a = self.operand(rv["a"], env)
            v = _cval(a)
            if v is not None and str(rv.get("ck", "")).startswith("IntToInt"):
                return ("c", rv["to"], _wrap(v, rv["to"]), None)
            return ("cast", a, rv["to"])
        if k == "bin":
            a = self.operand(rv["a"], env)
            c = self.operand(rv["b"], env)
            va, vb = _cval(a), _cval(c)
            if va is not None and vb is not None and rv["op"] in FOLD:
                try:
                    r = FOLD[rv["op"]](va, vb)
                    ty = "bool" if rv["op"] in ("Lt", "Le", "Gt", "Ge", "Eq", "Ne") else a[1]
                    return ("c", ty, r, None)
                except Exception:
                    pass
            return ("bin", rv["op"], a, c)
        if k == "un":
            a = self.operand(rv["a"], env)
            v = _cval(a)
            if v is not None and rv["op"] == "Not" and a[1] == "bool":
                return ("c", "bool", int(not v), None)
            return ("un", rv["op"], a)
        if k == "discr":
            pt = self.place(rv["pl"], env)
            known = _known_discr(pt)
            if known is not None:
                return ("c", "isize", known, None)
            return ("discr", pt, mir.adt_base(rv.get("of", "")))
        if k == "agg":
            ops = tuple(self.operand(o, env) for o in rv["ops"])
            ak = rv["ak"]
            if ak == "adt":
                return ("agg", rv["adt"], rv["variant"], ops)
            if ak == "closure":
                return ("closure", rv["closure"], ops)
            return ("agg", ak, None, ops)
        if k == "repeat":
            return ("repeat", self.operand(rv["a"], env), rv["n"])
        return ("?", k)

    def _root(self, pl, env):
        l = pl["l"]
        proj = pl.get("p", [])
        if proj and proj[0] == "*":
            t = self.local(l, env)
            while isinstance(t, tuple) and t and t[0] == "mutated":
                t = t[1]
            if isinstance(t, tuple) and t and t[0] == "refmut":
                return t[1]
        return l

    def call(self, t, env, site):
        name = callee_name(t["f"])
        args = tuple(self.operand(a, env) for a in t["args"])
        if any(mir._has_refmut(a) for a in args):
            return ("call", name, args, site)
        return ("call", name, args)


def _wrap(v, ty):
    bits = {"u8": 8, "u16": 16, "u32": 32, "u64": 64, "usize": 64, "u128": 128}.get(ty)
    if bits:
        return v & ((1 << bits) - 1)
    return v


def enumerate_paths(b, start=0, max_paths=20000, max_visits=2, stop_at=None, want_assign=False, env0=None,
                    track_out=True):
    """list of (events, exit) for every path from `start`.
    exit = ("return", bb) | ("unreachable", bb) | ("diverge", bb, name) | ("stop", bb) | ("other", bb)
    env0: {local: int} constants assumed for parameters (selects a match arm by constant folding)"""
    out = []
    n_paths = [0]
    sym = Sym(b)
    env_init = {}
    for l, v in (env0 or {}).items():
        env_init[l] = ("c", b.locals[l], v, None)

    def walk(bb, env, events, visits):
        while True:
            if stop_at is not None and bb in stop_at and (events or bb != start):
                out.append((events, ("stop", bb)))
                return
            v = visits.get(bb, 0)
            if v >= max_visits:
                return  # loop bound reached: path abandoned (covered by the shorter unrolling)
            visits = dict(visits)
            visits[bb] = v + 1
            blk = b.blocks[bb]
            env = dict(env)
            for s in blk["s"]:
                if s["k"] != "assign":
                    continue
                pl = s["pl"]
                val = sym.rvalue(s["rv"], env)
                if not pl.get("p"):
                    env[pl["l"]] = val
                    if pl["l"] == 0:
                        events = events + [("ret", bb, val)]
                else:
                    if want_assign:
                        events = events + [("assign", bb, sym.place(pl, env), val)]
                    # a store through a projection changes the local: mark it
                    root = pl["l"]
                    if pl["p"] and pl["p"][0] != "*":
                        cur = sym.local(root, env)
                        if not (isinstance(cur, tuple) and cur and cur[0] == "mutated"):
                            env[root] = ("mutated", cur, root)
            t = blk["t"]
            k = t["k"]
            if k == "return":
                out.append((events, ("return", bb)))
                n_paths[0] += 1
                if n_paths[0] > max_paths:
                    raise Budget(b.path)
                return
            if k in ("unreachable", "resume", "terminate"):
                out.append((events, ("unreachable", bb)))
                return
            if k in ("goto", "drop"):
                bb = t["t"]
                continue
            if k == "assert":
                events = events + [("assert", bb, t["msg"]["k"])]
                bb = t["t"]
                continue
            if k == "call":
                ct = sym.call(t, env, bb)
                name = ct[1]
                events = events + [("call", bb, name, ct[2], t["dest"]["l"], ct)]
                if not t["dest"].get("p"):
                    env[t["dest"]["l"]] = ct
                    if t["dest"]["l"] == 0:
                        events = events + [("ret", bb, ct)]
                if track_out:
                    # `&mut local` handed to a call: afterwards the local holds whatever the callee left there
                    for ai, a_ in enumerate(ct[2]):
                        x = a_
                        while isinstance(x, tuple) and x and x[0] == "mutated":
                            x = x[1]
                        if isinstance(x, tuple) and x and x[0] == "refmut" and isinstance(x[1], int):
                            root = x[1]
                            if root != t["dest"]["l"] and not (1 <= root <= b.argc and _is_refparam(b, root)):
                                cur = sym.local(root, env)
                                if mir.strip_ref(x[2]) == mir.strip_ref(cur) or mir.strip_all(x[2]) == mir.strip_all(cur):
                                    env[root] = ("out", ct, ai)     # the whole local was handed out
                                elif not (isinstance(cur, tuple) and cur and cur[0] == "mutated"):
                                    env[root] = ("mutated", cur, root)   # only a field of it
                if t["t"] is None:
                    out.append((events, ("diverge", bb, name)))
                    return
                bb = t["t"]
                continue
            if k == "switch":
                dterm = sym.operand(t["d"], env)
                cv = _cval(dterm)
                if cv is not None:
                    tgt = t["otherwise"]
                    for val, tb in t["targets"]:
                        if val == cv:
                            tgt = tb
                    bb = tgt
                    continue
                by_t = {}
                for val, tb in t["targets"]:
                    by_t.setdefault(tb, []).append(val)
                taken = tuple(sorted(v_ for v_, _ in t["targets"]))
                branches = [(tb, ("in", tuple(sorted(vals)))) for tb, vals in by_t.items()]
                branches.append((t["otherwise"], ("notin", taken)))
                for tb, lab in branches:
                    if b.blocks[tb]["t"]["k"] == "unreachable" and not b.blocks[tb]["s"]:
                        continue
                    cond = mir.normalise_cond(b.fb, dterm, lab, t["dty"])
                    env2 = env
                    pl = t["d"].get("cp") or t["d"].get("mv")
                    if pl is not None and not pl.get("p") and lab[0] == "in" and len(lab[1]) == 1 and \
                            not (isinstance(dterm, tuple) and dterm[0] == "discr"):
                        env2 = dict(env)
                        env2[pl["l"]] = ("c", t["dty"], lab[1][0], None)
                    walk(tb, env2, events + [("cond", cond[0], cond[1], bb)], visits)
                return
            out.append((events, ("other", bb)))
            return

    walk(start, env_init, [], {})
    return out


def _is_refparam(b, l):
    """parameter of reference type (`out: &mut Vec<u8>`): `&mut *param` re-borrows, it does not replace the param"""
    ty = b.locals[l] if l < len(b.locals) else ""
    return ty.startswith("&")


def ret_of(events):
    """the last value assigned to the return place on this path (a term) or None"""
    r = None
    for e in events:
        if e[0] == "ret":
            r = e[2]
    return r


def ret_class(events):
    """'Ok'/'Some'/'Err'/'None'/'true'/'false'/'call'/'unit'/'other'"""
    r = ret_of(events)
    if r is None:
        return "unit"
    if r[0] == "agg" and r[2] in ("Ok", "Some", "Err", "None"):
        return r[2]
    if r[0] == "call":
        if "from_residual" in r[1]:
            return "Err"
        return "call"
    if r[0] == "c" and r[1] == "bool":
        return "true" if r[2] else "false"
    if r[0] == "agg" and r[1] == "tuple" and not r[3]:
        return "unit"
    return "other"


def conds(events):
    return [(e[1], e[2]) for e in events if e[0] == "cond"]


def calls(events):
    return [e for e in events if e[0] == "call"]
