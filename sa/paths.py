"""Bounded path enumeration over one MIR body with along-path constant folding.

A path is a list of events:
  ("cond", term, label)            a branch decision (normalised as in mir.normalise_cond)
  ("call", bb, name, args, dest)   a call (terms), in execution order
  ("assign", bb, place_term, rvalue_term)   writes through projections (field stores)
ending in an exit descriptor.  Loops: every block may be entered at most
`max_visits` times per path (default 2: zero and one iteration of each loop).
Feasibility pruning is constant folding only: locals assigned literal
constants along the path (drop flags, version variables) decide later
switches on them.  No solver, no evaluation of repository code."""
from . import mir
from .mir import callee_name


class Budget(Exception):
    pass


def _const_of(op, env):
    if "c" in op:
        c = op["c"]
        if "v" in c:
            return c["v"]
        return None
    pl = op.get("cp") or op.get("mv")
    if pl is not None and not pl.get("p"):
        return env.get(pl["l"])
    return None


def _subst(t, envt):
    """replace opaque multi-definition locals by the value they were last given on this path"""
    if not envt or not isinstance(t, tuple):
        return t
    if t and t[0] == "var" and t[1] in envt:
        return envt[t[1]]
    return tuple(_subst(x, envt) if isinstance(x, tuple) else x for x in t)


def enumerate_paths(b, start=0, max_paths=20000, max_visits=2, stop_at=None, want_assign=False):
    """yield (events, exit) for every path from `start`.
    exit = ("return", bb) | ("unreachable", bb) | ("diverge", bb, name) | ("stop", bb)"""
    out = []
    n_paths = [0]

    multi = {l for l, ds in b.defs().items() if isinstance(l, int) and len(ds) > 1 and l > b.argc}

    def walk(bb, env, events, visits, envt=None):
        envt = envt or {}
        while True:
            if stop_at is not None and bb in stop_at and events:
                out.append((events, ("stop", bb)))
                return
            v = visits.get(bb, 0)
            if v >= max_visits:
                return  # loop bound reached: path abandoned (covered by the shorter unrolling)
            visits = dict(visits)
            visits[bb] = v + 1
            blk = b.blocks[bb]
            env = dict(env)
            for s in blk["s"]:
                if s["k"] != "assign":
                    continue
                pl = s["pl"]
                if not pl.get("p"):
                    rv = s["rv"]
                    if pl["l"] in multi:
                        envt = dict(envt)
                        envt[pl["l"]] = _subst(b.rvalue_term(rv), envt)
                    val = None
                    if rv["k"] == "use":
                        val = _const_of(rv["a"], env)
                    if val is None:
                        env.pop(pl["l"], None)
                    else:
                        env[pl["l"]] = val
                    if pl["l"] == 0:
                        events = events + [("ret", bb, _subst(b.rvalue_term(rv), envt))]
                elif want_assign:
                    events = events + [("assign", bb, b.place_term(pl), _subst(b.rvalue_term(s["rv"]), envt))]
            t = blk["t"]
            k = t["k"]
            if k == "return":
                out.append((events, ("return", bb)))
                n_paths[0] += 1
                if n_paths[0] > max_paths:
                    raise Budget(b.path)
                return
            if k in ("unreachable", "resume", "terminate"):
                out.append((events, ("unreachable", bb)))
                return
            if k in ("goto", "drop"):
                bb = t["t"]
                continue
            if k == "assert":
                events = events + [("assert", bb, t["msg"]["k"])]
                bb = t["t"]
                continue
            if k == "call":
                name = callee_name(t["f"])
                ct = _subst(b.call_term(t), envt)
                events = events + [("call", bb, name, ct[2], t["dest"]["l"], ct)]
                env.pop(t["dest"]["l"], None)
                if t["dest"]["l"] in multi and not t["dest"].get("p"):
                    envt = dict(envt)
                    envt[t["dest"]["l"]] = ct
                if t["dest"]["l"] == 0 and not t["dest"].get("p"):
                    events = events + [("ret", bb, ct)]
                if t["t"] is None:
                    out.append((events, ("diverge", bb, name)))
                    return
                bb = t["t"]
                continue
            if k == "switch":
                cv = _const_of(t["d"], env)
                if cv is not None:
                    tgt = t["otherwise"]
                    for val, tb in t["targets"]:
                        if val == cv:
                            tgt = tb
                    bb = tgt
                    continue
                # real branch
                by_t = {}
                for val, tb in t["targets"]:
                    by_t.setdefault(tb, []).append(val)
                taken = tuple(sorted(v_ for v_, _ in t["targets"]))
                dterm = _subst(b.operand_term(t["d"]), envt)
                branches = [(tb, ("in", tuple(sorted(vals)))) for tb, vals in by_t.items()]
                branches.append((t["otherwise"], ("notin", taken)))
                for tb, lab in branches:
                    if b.blocks[tb]["t"]["k"] == "unreachable" and not b.blocks[tb]["s"]:
                        continue
                    cond = mir.normalise_cond(b.fb, dterm, lab, t["dty"])
                    # remember which constant a local switched on has, for re-dispatch on the same local
                    env2 = env
                    pl = t["d"].get("cp") or t["d"].get("mv")
                    if pl is not None and not pl.get("p") and lab[0] == "in" and len(lab[1]) == 1:
                        env2 = dict(env)
                        env2[pl["l"]] = lab[1][0]
                    walk(tb, env2, events + [("cond", cond[0], cond[1], bb)], visits, envt)
                return
            # tailcall / other
            out.append((events, ("other", bb)))
            return

    walk(start, {}, [], {})
    return out


def ret_of(events):
    """the last value assigned to the return place on this path (a term) or None"""
    r = None
    for e in events:
        if e[0] == "ret":
            r = e[2]
    return r


def ret_class(events):
    """'Ok'/'Some'/'Err'/'None'/'true'/'false'/'call:<name>'/'other'"""
    r = ret_of(events)
    if r is None:
        return "unit"
    if r[0] == "agg" and r[2] in ("Ok", "Some", "Err", "None"):
        return r[2]
    if r[0] == "call":
        if "from_residual" in r[1]:
            return "Err"
        return "call"
    if r[0] == "c" and r[1] == "bool":
        return "true" if r[2] else "false"
    return "other"


def conds(events):
    return [(e[1], e[2]) for e in events if e[0] == "cond"]


def calls(events):
    return [e for e in events if e[0] == "call"]
