"""Obligation bookkeeping, evidence files, known findings, exit codes."""
import hashlib
import json
import os
import sys
import time
import traceback

from . import facts

VERIF = facts.VERIF
EVID = os.environ.get("VERIF_EVIDENCE_DIR", os.path.join(VERIF, "evidence"))
OUT = os.environ.get("VERIF_OUT_DIR", os.path.join(VERIF, "out", "violations"))
KNOWN = os.path.join(VERIF, "known_findings.json")


class Ctx:
    def __init__(self, pid, tier, seed=0):
        self.pid = pid
        self.tier = tier
        self.seed = seed
        self.obs = []           # obligations
        self.notes = []
        self.samples = []
        self.analysed_fns = set()
        self.floors = {}
        self.t0 = time.time()
        self.fb = None
        self.configs = []
        self.trusted = []
        self.assumptions = []
        self.explanation = ""
        self.fixtures = {}

    def log(self, msg):
        print("[%s] %s" % (self.pid, msg), file=sys.stderr)

    # -- obligations -----------------------------------------------------
    def ob(self, rule, construct, ok, detail="", where="", expected=None, found=None, trivial=False):
        """record one obligation. `construct` is the stable key (no line numbers)."""
        o = {"rule": rule, "construct": construct, "ok": bool(ok), "detail": detail,
             "where": where, "trivial": trivial}
        if expected is not None:
            o["expected"] = expected
        if found is not None:
            o["found"] = found
        self.obs.append(o)
        return bool(ok)

    def missing(self, rule, construct, why):
        """an anchor that cannot be found / a shape that cannot be normalised: fail closed"""
        return self.ob(rule, construct, False, "obligation not dischargeable: " + why)

    def floor(self, rule, what, count, minimum):
        self.floors["%s:%s" % (rule, what)] = [count, minimum]
        return self.ob(rule, "floor:" + what, count >= minimum,
                       "instances matched: %d (floor %d)" % (count, minimum),
                       expected=">=%d" % minimum, found=count, trivial=True)

    def note(self, msg):
        self.notes.append(msg)

    def sample(self, obj):
        if len(self.samples) < 12:
            self.samples.append(obj)

    def touched(self, *paths):
        for p in paths:
            self.analysed_fns.add(p)


def load_known():
    if not os.path.exists(KNOWN):
        return {"findings": [], "fixed": []}
    with open(KNOWN) as f:
        return json.load(f)


def key_of(pid, o):
    return "%s|%s|%s" % (pid, o["rule"], o["construct"])


def finish(ctx, crashed=None):
    """write evidence, print verdict lines, return exit code"""
    os.makedirs(EVID, exist_ok=True)
    known = load_known()
    known_keys = {k["key"]: k for k in known.get("findings", []) if k.get("property") == ctx.pid}
    failed = [o for o in ctx.obs if not o["ok"]]
    violations = []
    known_hit = []
    for o in failed:
        k = key_of(ctx.pid, o)
        if k in known_keys:
            known_hit.append((k, o))
        else:
            violations.append((k, o))
    for k, o in known_hit:
        print("KNOWN-FINDING: property=%s %s [%s]" % (ctx.pid, known_keys[k].get("what", o["detail"]), k))
    rc = 0
    if violations:
        os.makedirs(OUT, exist_ok=True)
        rc = 1
        for k, o in violations:
            h = hashlib.sha256(k.encode()).hexdigest()[:12]
            path = os.path.join(OUT, "%s-%s.json" % (ctx.pid, h))
            with open(path, "w") as f:
                json.dump({"property": ctx.pid, "key": k, "obligation": o, "tier": ctx.tier}, f, indent=1)
            print("VIOLATION property=%s replay=%s" % (ctx.pid, path))
            print("  rule=%s construct=%s %s %s" % (o["rule"], o["construct"], o.get("where", ""), o["detail"]))
    if crashed:
        rc = 2
    distinct = len({(o["rule"], o["construct"]) for o in ctx.obs if not o.get("trivial")})
    ev = {
        "property_id": ctx.pid,
        "tier": ctx.tier,
        "seed": ctx.seed,
        "level": "other",
        "coverage": {
            "explanation": ctx.explanation or "static rules over MIR facts",
            "evaluations": len(ctx.obs),
            "distinct_nontrivial": distinct,
            "rule": "one evaluation per (rule, construct) obligation; non-trivial = the obligation inspects a "
                    "MIR construct (floors / anti-vacuity counters are counted as trivial); distinct by (rule, construct)",
            "obligations": len(ctx.obs),
            "discharged": len(ctx.obs) - len(failed),
            "known_findings": [k for k, _ in known_hit],
            "samples": ctx.samples or [{"rule": o["rule"], "construct": o["construct"], "detail": o["detail"]}
                                       for o in ctx.obs[:8]],
            "by_rule": _by_rule(ctx.obs),
            "functions_analysed": sorted(ctx.analysed_fns),
            "n_functions_analysed": len(ctx.analysed_fns),
            "units": ctx.fb.n_loaded_units if ctx.fb else 0,
            "production_functions_in_fact_base": len(ctx.fb.fns) if ctx.fb else 0,
            "configurations": ctx.configs,
            "floors": ctx.floors,
            "fixtures": ctx.fixtures,
            "notes": ctx.notes,
            "checker_cmd": "./check %s --tier %s" % (ctx.pid, ctx.tier),
            "trusted_base": ["rustc nightly front-end + MIR construction", "/verif/driver fact extractor"] + ctx.trusted,
            "exhaustive": False,
        },
        "assumptions": ctx.assumptions,
        "wall_s": round(time.time() - ctx.t0, 2),
        "violations": len(violations),
    }
    if crashed:
        ev["coverage"]["crashed"] = crashed
    with open(os.path.join(EVID, "%s.json" % ctx.pid), "w") as f:
        json.dump(ev, f, indent=1)
    print("%s tier=%s obligations=%d discharged=%d known=%d violations=%d wall=%.1fs" % (
        ctx.pid, ctx.tier, len(ctx.obs), len(ctx.obs) - len(failed), len(known_hit), len(violations),
        time.time() - ctx.t0))
    return rc


def _by_rule(obs):
    d = {}
    for o in obs:
        r = d.setdefault(o["rule"], [0, 0])
        r[0] += 1
        if o["ok"]:
            r[1] += 1
    return {k: {"obligations": v[0], "discharged": v[1]} for k, v in sorted(d.items())}
