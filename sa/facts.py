"""Fact base: runs the rustc_private driver over /repo (cargo decides freshness)
and loads the per-unit fact files.  No repository code is executed."""
import glob
import hashlib
import json
import os
import shutil
import subprocess
import sys
import time

VERIF = os.path.dirname(os.path.dirname(os.path.abspath(__file__)))
REPO = os.environ.get("VERIF_REPO", "/repo")
CACHE = os.environ.get("VERIF_CACHE", os.path.join(VERIF, ".cache"))
DRIVER_DIR = os.path.join(VERIF, "driver")
DRIVER = os.path.join(DRIVER_DIR, "target", "release", "chia-facts-driver")

# packages that are harnesses, not production code (they call internal
# functions such as parse_conditions directly on purpose)
HARNESS_PKG_MARKERS = ("/fuzz#", "/chia-tools#")


class BuildError(Exception):
    pass


def _sysroot():
    return subprocess.check_output(["rustc", "+nightly", "--print", "sysroot"], text=True).strip()


def build_driver():
    env = dict(os.environ)
    env["CARGO_NET_OFFLINE"] = "true"
    r = subprocess.run(["cargo", "build", "--release", "--offline"], cwd=DRIVER_DIR, env=env,
                       stdout=subprocess.PIPE, stderr=subprocess.STDOUT, text=True)
    if r.returncode != 0 or not os.path.exists(DRIVER):
        raise BuildError("driver build failed:\n" + r.stdout[-4000:])


def _driver_hash():
    h = hashlib.sha256()
    with open(DRIVER, "rb") as f:
        h.update(f.read())
    return h.hexdigest()


def _cargo_check(repo, target, facts_dir, extra_args=()):
    env = dict(os.environ)
    env["CARGO_NET_OFFLINE"] = "true"
    env["CARGO_INCREMENTAL"] = "0"
    env["LD_LIBRARY_PATH"] = os.path.join(_sysroot(), "lib") + ":" + env.get("LD_LIBRARY_PATH", "")
    env["RUSTFLAGS"] = "-Zmir-opt-level=0 -Awarnings"
    env["RUSTC_WORKSPACE_WRAPPER"] = DRIVER
    env["CHIA_FACTS_DIR"] = facts_dir
    env["CARGO_TARGET_DIR"] = target
    env.pop("RUSTC_WRAPPER", None)
    cmd = ["cargo", "+nightly", "check", "--offline", "--message-format=json"] + list(extra_args)
    r = subprocess.run(cmd, cwd=repo, env=env, stdout=subprocess.PIPE, stderr=subprocess.PIPE, text=True)
    arts = []
    for line in r.stdout.splitlines():
        if not line.startswith("{"):
            continue
        try:
            m = json.loads(line)
        except ValueError:
            continue
        if m.get("reason") == "compiler-artifact":
            arts.append(m)
    return r.returncode, arts, r.stderr


def _unit_key(art, repo):
    """(crate_name, extra_filename, kind) of a workspace artifact, or None"""
    pid = art["package_id"]
    if "path+file://" + repo not in pid:
        return None
    kinds = art["target"]["kind"]
    if "custom-build" in kinds:
        return None
    name = art["target"]["name"].replace("-", "_")
    extra = None
    for fn in art["filenames"]:
        base = os.path.basename(fn)
        stem = base.split(".")[0]
        if stem.startswith("lib"):
            stem = stem[3:]
        if stem.startswith(name + "-"):
            extra = stem[len(name):]
            break
    if extra is None:
        return None
    kind = "bin" if "bin" in kinds else "lib"
    return (name, extra, kind)


def ensure_facts(config="ws", repo=REPO, cache=CACHE, log=None):
    """Run extraction for a configuration; return list of unit descriptors.
    config 'ws' = unified workspace configuration (what cargo test --workspace builds).
    Other configs: 'pkg:<spec>' = that package alone with default features."""
    def say(msg):
        if log:
            log(msg)
    if not os.path.exists(DRIVER):
        say("building driver")
        build_driver()
    target = os.path.join(cache, "target")
    facts_dir = os.path.join(cache, "facts-" + config.replace(":", "_").replace("@", "_"))
    os.makedirs(facts_dir, exist_ok=True)
    os.makedirs(target, exist_ok=True)
    # a changed driver invalidates all facts: wipe member fingerprints + facts
    stamp = os.path.join(facts_dir, "DRIVER_HASH")
    dh = _driver_hash()
    old = open(stamp).read().strip() if os.path.exists(stamp) else None
    if old != dh:
        say("driver changed: forcing re-extraction")
        for f in glob.glob(os.path.join(facts_dir, "*.json*")):
            os.unlink(f)
        _wipe_member_fingerprints(target, repo)
        with open(stamp, "w") as f:
            f.write(dh)
    if config == "ws":
        args = ["--workspace"]
    elif config.startswith("pkg:"):
        args = ["-p", config[4:]]
    else:
        raise ValueError(config)
    t0 = time.time()
    rc, arts, err = _cargo_check(repo, target, facts_dir, args)
    if rc != 0:
        raise BuildError("cargo check failed (rc=%d):\n%s" % (rc, err[-6000:]))
    units = _collect_units(arts, repo, facts_dir)
    missing = [u for u in units if not os.path.exists(u["meta"]) or not os.path.exists(u["bodies"])]
    if missing:
        say("facts missing for %d units: re-extracting" % len(missing))
        _wipe_member_fingerprints(target, repo)
        rc, arts, err = _cargo_check(repo, target, facts_dir, args)
        if rc != 0:
            raise BuildError("cargo check failed (rc=%d):\n%s" % (rc, err[-6000:]))
        units = _collect_units(arts, repo, facts_dir)
        missing = [u for u in units if not os.path.exists(u["meta"]) or not os.path.exists(u["bodies"])]
        if missing:
            raise BuildError("fact files still missing: %s" % [u["name"] for u in missing])
    say("extraction %s: %d units in %.1fs (%d re-extracted)" % (
        config, len(units), time.time() - t0, sum(1 for u in units if not u["fresh"])))
    return units


def _collect_units(arts, repo, facts_dir):
    units = []
    seen = set()
    for a in arts:
        k = _unit_key(a, repo)
        if not k or k in seen:
            continue
        seen.add(k)
        name, extra, kind = k
        base = os.path.join(facts_dir, "%s%s.%s" % (name, extra, kind))
        units.append({
            "name": name, "extra": extra, "kind": kind,
            "pkg": a["package_id"], "target_kinds": a["target"]["kind"],
            "fresh": a.get("fresh", False),
            "harness": any(m in a["package_id"] for m in HARNESS_PKG_MARKERS),
            "proc_macro": "proc-macro" in a["target"]["kind"],
            "meta": base + ".meta.json", "bodies": base + ".fns.jsonl",
        })
    return units


def _wipe_member_fingerprints(target, repo):
    fp = os.path.join(target, "debug", ".fingerprint")
    if not os.path.isdir(fp):
        return
    names = set()
    r = subprocess.run(["cargo", "+nightly", "metadata", "--offline", "--no-deps", "--format-version=1"],
                       cwd=repo, stdout=subprocess.PIPE, stderr=subprocess.PIPE, text=True)
    try:
        md = json.loads(r.stdout)
        for p in md["packages"]:
            names.add(p["name"])
    except Exception:
        pass
    for d in os.listdir(fp):
        pkg = d.rsplit("-", 1)[0]
        if pkg in names:
            shutil.rmtree(os.path.join(fp, d), ignore_errors=True)


class Fn:
    __slots__ = ("unit", "e", "_body", "fb")

    def __init__(self, fb, unit, e):
        self.fb = fb
        self.unit = unit
        self.e = e
        self._body = None

    @property
    def path(self):
        return self.e["path"]

    @property
    def sp(self):
        return self.e.get("sp", "?")

    @property
    def body(self):
        if self._body is None:
            with open(self.unit["bodies"], "rb") as f:
                f.seek(self.e["off"])
                b = json.loads(f.read(self.e["len"]))
            if self.fb is not None and self.fb.new_helpers:
                b = inline_new_helpers(self.fb, b, (self.path,))
            self._body = b
        return self._body

    def callees(self):
        """resolved def paths called directly"""
        out = set()
        for c in self.e.get("calls", []):
            out.add(c.get("res") or c.get("def") or "?")
        return out

    def __repr__(self):
        return "<Fn %s>" % self.path


# ---------------------------------------------------------------------------------------------------------
# Normalisation: helper functions that did not exist when the rules were armed (spec/fn_inventory.txt) are
# inlined into their callers at the MIR level before any rule runs.  Extracting a private helper out of an
# anchored function is the most common behaviour-preserving edit; without this the helper would be an opaque
# call and every shape rule on the caller would fail closed.  It is also stricter, not laxer: logic moved into a
# new helper is analysed as part of each caller instead of being skipped.
def _ml(l, lo):
    """callee local -> caller local.  lo = (offset, dest): the callee's return slot becomes the call's destination local
    itself when that is a plain local (so `_0 = helper(..)` keeps its Ok/Err assignments visible as return assignments)"""
    off, dest = lo
    if l == 0 and dest is not None:
        return dest
    return l + off


def _mp(pl, lo):
    q = dict(pl)
    q["l"] = _ml(pl["l"], lo)
    if pl.get("p"):
        q["p"] = [dict(e, idx=_ml(e["idx"], lo)) if isinstance(e, dict) and "idx" in e else e for e in pl["p"]]
    return q


def _mo(op, lo):
    for k in ("cp", "mv"):
        if k in op:
            q = dict(op)
            q[k] = _mp(op[k], lo)
            return q
    return op


def _mrv(rv, lo):
    q = dict(rv)
    for k in ("a", "b"):
        if k in q and isinstance(q[k], dict):
            q[k] = _mo(q[k], lo)
    if "pl" in q:
        q["pl"] = _mp(q["pl"], lo)
    if "ops" in q:
        q["ops"] = [_mo(o, lo) for o in q["ops"]]
    return q


def inline_new_helpers(fb, body, stack, budget=[0]):
    blocks = body["blocks"]
    sites = []
    for bi, blk in enumerate(blocks):
        t = blk["t"]
        if t["k"] == "call":
            f = t["f"]
            name = f.get("res") or f.get("def")
            if name in fb.new_helpers and name not in stack and name in fb.helper_fns:
                sites.append((bi, name))
    if not sites:
        return body
    body = dict(body)
    blocks = list(blocks)
    locals_ = list(body["locals"])
    dbg = list(body.get("dbg", []))
    for bi, name in sites:
        h = fb.helper_fns[name]
        with open(h.unit["bodies"], "rb") as f:
            f.seek(h.e["off"])
            hb = json.loads(f.read(h.e["len"]))
        hb = inline_new_helpers(fb, hb, stack + (name,))
        if len(blocks) + len(hb["blocks"]) > 6000:
            continue
        call = blocks[bi]["t"]
        off, bo = len(locals_), len(blocks)
        plain_dest = call["dest"]["l"] if not call["dest"].get("p") else None
        lo = (off, plain_dest)
        locals_.extend(hb["locals"])
        for d in hb.get("dbg", []):
            d2 = {"name": d["name"], "pl": _mp(d["pl"], lo)}
            dbg.append(d2)
        argc = h.e.get("argc", 0)
        pre = []
        for k, a in enumerate(call["args"][:argc]):
            pre.append({"k": "assign", "pl": {"l": off + 1 + k}, "rv": {"k": "use", "a": a}, "ln": call.get("ln"), "inl": name})
        nb = dict(blocks[bi])
        nb["s"] = list(nb["s"]) + pre
        nb["t"] = {"k": "goto", "t": bo, "ln": call.get("ln"), "inl": name}
        blocks[bi] = nb
        for hblk in hb["blocks"]:
            ss = [dict(s, pl=_mp(s["pl"], lo), rv=_mrv(s["rv"], lo)) if s["k"] == "assign" else s for s in hblk["s"]]
            t = dict(hblk["t"])
            k = t["k"]
            if k == "return":
                if plain_dest is None:
                    ss.append({"k": "assign", "pl": call["dest"], "rv": {"k": "use", "a": {"mv": {"l": off}}}, "ln": call.get("ln"), "inl": name})
                t = {"k": "goto", "t": call["t"], "ln": t.get("ln")} if call.get("t") is not None else {"k": "unreachable", "ln": t.get("ln")}
            else:
                if t.get("t") is not None and k in ("goto", "drop", "call", "assert"):
                    t["t"] = t["t"] + bo
                if k == "switch":
                    t["targets"] = [[v, tb + bo] for v, tb in t["targets"]]
                    t["otherwise"] = t["otherwise"] + bo
                    t["d"] = _mo(t["d"], lo)
                if k == "drop":
                    t["pl"] = _mp(t["pl"], lo)
                if k == "assert":
                    t["cond"] = _mo(t["cond"], lo)
                if k == "call":
                    t["args"] = [_mo(a, lo) for a in t["args"]]
                    t["dest"] = _mp(t["dest"], lo)
            blocks.append({"s": ss, "t": t})
    body["blocks"] = blocks
    body["locals"] = locals_
    body["dbg"] = dbg
    body["inlined"] = sorted(set(n for _, n in sites))
    return body


def _load_inventory():
    p = os.path.join(VERIF, "spec", "fn_inventory.txt")
    try:
        with open(p) as f:
            return set(l.strip() for l in f if l.strip())
    except OSError:
        return None


class FactBase:
    def __init__(self, units):
        self.units = units
        self.metas = {}
        self.fns = {}          # path -> Fn (production scope only)
        self.all_fns = []      # including harness units
        self.adts = {}
        self.consts = {}
        self.impls = []
        self.n_loaded_units = 0
        seen_crate = set()
        for u in units:
            if u["proc_macro"]:
                continue
            with open(u["meta"]) as f:
                m = json.load(f)
            self.metas[(u["name"], u["extra"], u["kind"])] = m
            self.n_loaded_units += 1
            prod = (not u["harness"]) and u["kind"] == "lib"
            if prod and u["name"] in seen_crate:
                # host + target builds of one crate: identical source, keep the first
                continue
            if prod:
                seen_crate.add(u["name"])
            for e in m["fns"]:
                fn = Fn(self, u, e)
                self.all_fns.append(fn)
                if prod:
                    self.fns.setdefault(e["path"], fn)
            if prod:
                for a in m["adts"]:
                    self.adts.setdefault(a["path"], a)
                for c in m["consts"]:
                    self.consts.setdefault(c["path"], c)
                for i in m["impls"]:
                    i = dict(i)
                    i["crate"] = u["name"]
                    self.impls.append(i)
        self._callers = None
        self.new_helpers = set()
        self.helper_fns = {}
        self._normalise_new_helpers()

    def _normalise_new_helpers(self):
        """functions that are not in the armed inventory, are not public API, are called directly (never taken as a
        function value) and are not trait-impl methods are *new helpers*: inlined into their callers, their calls are
        attributed to the callers, and they are removed from the function table"""
        inv = _load_inventory()
        if inv is None or os.environ.get("VERIF_NO_INLINE"):
            return
        new = {}
        valued = set()
        for p, f in self.fns.items():
            for v in f.e.get("fn_values", []):
                valued.add(v)
        for p, f in self.fns.items():
            if f.e["kind"] in ("Fn", "AssocFn") and p not in inv and not p.startswith("<") and \
                    f.e.get("vis") != "Public" and p not in valued:
                new[p] = f
        if not new:
            return
        self.new_helpers = set(new)
        self.helper_fns = new

        def expand(calls, stack):
            out = []
            for c in calls:
                n = c.get("res") or c.get("def")
                if n in new and n not in stack:
                    out.extend(expand(new[n].e.get("calls", []), stack | {n}))
                else:
                    out.append(c)
            return out
        for p, f in list(self.fns.items()):
            if p in new:
                continue
            cs = f.e.get("calls", [])
            if any((c.get("res") in new or c.get("def") in new) for c in cs):
                f.e["calls"] = expand(cs, frozenset([p]))
        # closures defined inside a helper stay in the table (they are called through their aggregate)
        for p in new:
            del self.fns[p]

    # ------------------------------------------------------------------
    def fn(self, path):
        f = self.fns.get(path)
        if f is None:
            raise KeyError(path)
        return f

    def find(self, suffix):
        """production functions whose path ends with suffix"""
        return [f for p, f in self.fns.items() if p.endswith(suffix)]

    def one(self, suffix):
        r = self.find(suffix)
        if len(r) != 1:
            raise KeyError("%s: %d matches" % (suffix, len(r)))
        return r[0]

    def const(self, path):
        c = self.consts.get(path)
        if c is None or "value" not in c:
            raise KeyError(path)
        return c["value"]

    def callers(self, path):
        """production functions that call `path` directly (resolved or by def),
        plus those that take it as a function value"""
        if self._callers is None:
            cm = {}
            for p, f in self.fns.items():
                for c in f.e.get("calls", []):
                    for k in ("res", "def"):
                        if c.get(k):
                            cm.setdefault(c[k], set()).add(p)
                for v in f.e.get("fn_values", []):
                    cm.setdefault(v, set()).add(p)
            self._callers = cm
        return self._callers.get(path, set())

    def impls_of(self, trait):
        return [i for i in self.impls if i.get("trait") == trait]

    def closures_of(self, path):
        return [f for p, f in self.fns.items() if f.e.get("closure_of") == path and f.e["kind"] == "Closure"]


_FB = {}


def load(config="ws", log=None):
    if config not in _FB:
        units = ensure_facts(config, log=log)
        _FB[config] = FactBase(units)
    return _FB[config]


if __name__ == "__main__":
    fb = load(log=lambda m: print(m, file=sys.stderr))
    print(len(fb.fns), "production fns;", len(fb.adts), "adts;", len(fb.consts), "consts;", len(fb.impls), "impls")
