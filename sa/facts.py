"""Fact base: runs the rustc_private driver over /repo (cargo decides freshness)
and loads the per-unit fact files.  No repository code is executed."""
import glob
import hashlib
import json
import os
import shutil
import subprocess
import sys
import time

VERIF = os.path.dirname(os.path.dirname(os.path.abspath(__file__)))
REPO = os.environ.get("VERIF_REPO", "/repo")
CACHE = os.environ.get("VERIF_CACHE", os.path.join(VERIF, ".cache"))
DRIVER_DIR = os.path.join(VERIF, "driver")
DRIVER = os.path.join(DRIVER_DIR, "target", "release", "chia-facts-driver")

# packages that are harnesses, not production code (they call internal
# functions such as parse_conditions directly on purpose)
HARNESS_PKG_MARKERS = ("/fuzz#", "/chia-tools#")


class BuildError(Exception):
    pass


def _sysroot():
    return subprocess.check_output(["rustc", "+nightly", "--print", "sysroot"], text=True).strip()


def build_driver():
    env = dict(os.environ)
    env["CARGO_NET_OFFLINE"] = "true"
    r = subprocess.run(["cargo", "build", "--release", "--offline"], cwd=DRIVER_DIR, env=env,
                       stdout=subprocess.PIPE, stderr=subprocess.STDOUT, text=True)
    if r.returncode != 0 or not os.path.exists(DRIVER):
        raise BuildError("driver build failed:\n" + r.stdout[-4000:])


def _driver_hash():
    h = hashlib.sha256()
    with open(DRIVER, "rb") as f:
        h.update(f.read())
    return h.hexdigest()


def _cargo_check(repo, target, facts_dir, extra_args=()):
    env = dict(os.environ)
    env["CARGO_NET_OFFLINE"] = "true"
    env["CARGO_INCREMENTAL"] = "0"
    env["LD_LIBRARY_PATH"] = os.path.join(_sysroot(), "lib") + ":" + env.get("LD_LIBRARY_PATH", "")
    env["RUSTFLAGS"] = "-Zmir-opt-level=0 -Awarnings"
    env["RUSTC_WORKSPACE_WRAPPER"] = DRIVER
    env["CHIA_FACTS_DIR"] = facts_dir
    env["CARGO_TARGET_DIR"] = target
    env.pop("RUSTC_WRAPPER", None)
    cmd = ["cargo", "+nightly", "check", "--offline", "--message-format=json"] + list(extra_args)
    r = subprocess.run(cmd, cwd=repo, env=env, stdout=subprocess.PIPE, stderr=subprocess.PIPE, text=True)
    arts = []
    for line in r.stdout.splitlines():
        if not line.startswith("{"):
            continue
        try:
            m = json.loads(line)
        except ValueError:
            continue
        if m.get("reason") == "compiler-artifact":
            arts.append(m)
    return r.returncode, arts, r.stderr


def _unit_key(art, repo):
    """(crate_name, extra_filename, kind) of a workspace artifact, or None"""
    pid = art["package_id"]
    if "path+file://" + repo not in pid:
        return None
    kinds = art["target"]["kind"]
    if "custom-build" in kinds:
        return None
    name = art["target"]["name"].replace("-", "_")
    extra = None
    for fn in art["filenames"]:
        base = os.path.basename(fn)
        stem = base.split(".")[0]
        if stem.startswith("lib"):
            stem = stem[3:]
        if stem.startswith(name + "-"):
            extra = stem[len(name):]
            break
    if extra is None:
        return None
    kind = "bin" if "bin" in kinds else "lib"
    return (name, extra, kind)


def ensure_facts(config="ws", repo=REPO, cache=CACHE, log=None):
    """Run extraction for a configuration; return list of unit descriptors.
    config 'ws' = unified workspace configuration (what cargo test --workspace builds).
    Other configs: 'pkg:<spec>' = that package alone with default features."""
    def say(msg):
        if log:
            log(msg)
    if not os.path.exists(DRIVER):
        say("building driver")
        build_driver()
    target = os.path.join(cache, "target")
    facts_dir = os.path.join(cache, "facts-" + config.replace(":", "_").replace("@", "_"))
    os.makedirs(facts_dir, exist_ok=True)
    os.makedirs(target, exist_ok=True)
    # a changed driver invalidates all facts: wipe member fingerprints + facts
    stamp = os.path.join(facts_dir, "DRIVER_HASH")
    dh = _driver_hash()
    old = open(stamp).read().strip() if os.path.exists(stamp) else None
    if old != dh:
        say("driver changed: forcing re-extraction")
        for f in glob.glob(os.path.join(facts_dir, "*.json*")):
            os.unlink(f)
        _wipe_member_fingerprints(target, repo)
        with open(stamp, "w") as f:
            f.write(dh)
    if config == "ws":
        args = ["--workspace"]
    elif config.startswith("pkg:"):
        args = ["-p", config[4:]]
    else:
        raise ValueError(config)
    t0 = time.time()
    rc, arts, err = _cargo_check(repo, target, facts_dir, args)
    if rc != 0:
        raise BuildError("cargo check failed (rc=%d):\n%s" % (rc, err[-6000:]))
    units = _collect_units(arts, repo, facts_dir)
    missing = [u for u in units if not os.path.exists(u["meta"]) or not os.path.exists(u["bodies"])]
    if missing:
        say("facts missing for %d units: re-extracting" % len(missing))
        _wipe_member_fingerprints(target, repo)
        rc, arts, err = _cargo_check(repo, target, facts_dir, args)
        if rc != 0:
            raise BuildError("cargo check failed (rc=%d):\n%s" % (rc, err[-6000:]))
        units = _collect_units(arts, repo, facts_dir)
        missing = [u for u in units if not os.path.exists(u["meta"]) or not os.path.exists(u["bodies"])]
        if missing:
            raise BuildError("fact files still missing: %s" % [u["name"] for u in missing])
    say("extraction %s: %d units in %.1fs (%d re-extracted)" % (
        config, len(units), time.time() - t0, sum(1 for u in units if not u["fresh"])))
    return units


def _collect_units(arts, repo, facts_dir):
    units = []
    seen = set()
    for a in arts:
        k = _unit_key(a, repo)
        if not k or k in seen:
            continue
        seen.add(k)
        name, extra, kind = k
        base = os.path.join(facts_dir, "%s%s.%s" % (name, extra, kind))
        units.append({
            "name": name, "extra": extra, "kind": kind,
            "pkg": a["package_id"], "target_kinds": a["target"]["kind"],
            "fresh": a.get("fresh", False),
            "harness": any(m in a["package_id"] for m in HARNESS_PKG_MARKERS),
            "proc_macro": "proc-macro" in a["target"]["kind"],
            "meta": base + ".meta.json", "bodies": base + ".fns.jsonl",
        })
    return units


def _wipe_member_fingerprints(target, repo):
    fp = os.path.join(target, "debug", ".fingerprint")
    if not os.path.isdir(fp):
        return
    names = set()
    r = subprocess.run(["cargo", "+nightly", "metadata", "--offline", "--no-deps", "--format-version=1"],
                       cwd=repo, stdout=subprocess.PIPE, stderr=subprocess.PIPE, text=True)
    try:
        md = json.loads(r.stdout)
        for p in md["packages"]:
            names.add(p["name"])
    except Exception:
        pass
    for d in os.listdir(fp):
        pkg = d.rsplit("-", 1)[0]
        if pkg in names:
            shutil.rmtree(os.path.join(fp, d), ignore_errors=True)


class Fn:
    __slots__ = ("unit", "e", "_body", "fb")

    def __init__(self, fb, unit, e):
        self.fb = fb
        self.unit = unit
        self.e = e
        self._body = None

    @property
    def path(self):
        return self.e["path"]

    @property
    def sp(self):
        return self.e.get("sp", "?")

    @property
    def body(self):
        if self._body is None:
            with open(self.unit["bodies"], "rb") as f:
                f.seek(self.e["off"])
                self._body = json.loads(f.read(self.e["len"]))
        return self._body

    def callees(self):
        """resolved def paths called directly"""
        out = set()
        for c in self.e.get("calls", []):
            out.add(c.get("res") or c.get("def") or "?")
        return out

    def __repr__(self):
        return "<Fn %s>" % self.path


class FactBase:
    def __init__(self, units):
        self.units = units
        self.metas = {}
        self.fns = {}          # path -> Fn (production scope only)
        self.all_fns = []      # including harness units
        self.adts = {}
        self.consts = {}
        self.impls = []
        self.n_loaded_units = 0
        seen_crate = set()
        for u in units:
            if u["proc_macro"]:
                continue
            with open(u["meta"]) as f:
                m = json.load(f)
            self.metas[(u["name"], u["extra"], u["kind"])] = m
            self.n_loaded_units += 1
            prod = (not u["harness"]) and u["kind"] == "lib"
            if prod and u["name"] in seen_crate:
                # host + target builds of one crate: identical source, keep the first
                continue
            if prod:
                seen_crate.add(u["name"])
            for e in m["fns"]:
                fn = Fn(self, u, e)
                self.all_fns.append(fn)
                if prod:
                    self.fns.setdefault(e["path"], fn)
            if prod:
                for a in m["adts"]:
                    self.adts.setdefault(a["path"], a)
                for c in m["consts"]:
                    self.consts.setdefault(c["path"], c)
                for i in m["impls"]:
                    i = dict(i)
                    i["crate"] = u["name"]
                    self.impls.append(i)
        self._callers = None

    # ------------------------------------------------------------------
    def fn(self, path):
        f = self.fns.get(path)
        if f is None:
            raise KeyError(path)
        return f

    def find(self, suffix):
        """production functions whose path ends with suffix"""
        return [f for p, f in self.fns.items() if p.endswith(suffix)]

    def one(self, suffix):
        r = self.find(suffix)
        if len(r) != 1:
            raise KeyError("%s: %d matches" % (suffix, len(r)))
        return r[0]

    def const(self, path):
        c = self.consts.get(path)
        if c is None or "value" not in c:
            raise KeyError(path)
        return c["value"]

    def callers(self, path):
        """production functions that call `path` directly (resolved or by def),
        plus those that take it as a function value"""
        if self._callers is None:
            cm = {}
            for p, f in self.fns.items():
                for c in f.e.get("calls", []):
                    for k in ("res", "def"):
                        if c.get(k):
                            cm.setdefault(c[k], set()).add(p)
                for v in f.e.get("fn_values", []):
                    cm.setdefault(v, set()).add(p)
            self._callers = cm
        return self._callers.get(path, set())

    def impls_of(self, trait):
        return [i for i in self.impls if i.get("trait") == trait]

    def closures_of(self, path):
        return [f for p, f in self.fns.items() if f.e.get("closure_of") == path and f.e["kind"] == "Closure"]


_FB = {}


def load(config="ws", log=None):
    if config not in _FB:
        units = ensure_facts(config, log=log)
        _FB[config] = FactBase(units)
    return _FB[config]


if __name__ == "__main__":
    fb = load(log=lambda m: print(m, file=sys.stderr))
    print(len(fb.fns), "production fns;", len(fb.adts), "adts;", len(fb.consts), "consts;", len(fb.impls), "impls")
