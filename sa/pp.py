"""Readable rendering of extracted MIR (for reports / `check explain`)."""


def place(p):
    s = "_%d" % p["l"]
    for e in p.get("p", []):
        if e == "*":
            s = "(*%s)" % s
        elif isinstance(e, str):
            s = "%s as %s" % (s, e)
        elif "f" in e:
            s = "%s.%s" % (s, e.get("n", e["f"]))
        elif "dc" in e:
            s = "(%s as %s)" % (s, e.get("n", e["dc"]))
        elif "idx" in e:
            s = "%s[_%d]" % (s, e["idx"])
        elif "ci" in e:
            s = "%s[%s%d]" % (s, "-" if e.get("from_end") else "", e["ci"])
        elif "sub" in e:
            s = "%s[%d..%s%d]" % (s, e["sub"], "-" if e.get("from_end") else "", e["to"])
    return s


def const(c):
    if "fn" in c:
        return "fn " + c["fn"]
    nm = c.get("name")
    if "v" in c:
        return "%s%s_%s" % ((nm.split("::")[-1] + "=") if nm else "", c["v"], c["ty"])
    if "vs" in c:
        return "%s_%s" % (c["vs"], c["ty"])
    if "param" in c:
        return "const-param " + c["param"]
    return "%s%s" % ((nm + "=") if nm else "", c.get("s", "?"))


def operand(o):
    if "cp" in o:
        return place(o["cp"])
    if "mv" in o:
        return "move " + place(o["mv"])
    if "c" in o:
        return const(o["c"])
    return str(o)


def rvalue(r):
    k = r["k"]
    if k == "use":
        return operand(r["a"])
    if k == "ref":
        return "&%s%s" % ("mut " if r["m"] == "mut" else "", place(r["pl"]))
    if k == "rawptr":
        return "&raw %s" % place(r["pl"])
    if k == "cast":
        return "%s as %s (%s)" % (operand(r["a"]), r["to"], r["ck"])
    if k == "bin":
        return "%s(%s, %s)" % (r["op"], operand(r["a"]), operand(r["b"]))
    if k == "un":
        return "%s(%s)" % (r["op"], operand(r["a"]))
    if k == "discr":
        return "discriminant(%s)" % place(r["pl"])
    if k == "agg":
        ak = r["ak"]
        ops = ", ".join(operand(x) for x in r["ops"])
        if ak == "adt":
            return "%s::%s(%s)" % (r["adt"], r["variant"], ops)
        if ak == "closure":
            return "closure %s [%s]" % (r["closure"], ops)
        return "%s(%s)" % (ak, ops)
    if k == "repeat":
        return "[%s; %s]" % (operand(r["a"]), r["n"])
    return str(r)


def callee(f):
    st = f.get("status")
    if st == "indirect":
        return "(indirect %s: %s)" % (place(f["pl"]), f.get("ty"))
    name = f.get("res_full") or f.get("res") or f.get("def") or "?"
    if st not in ("resolved",):
        name += " [%s]" % st
    return name


def term(t):
    k = t["k"]
    if k == "goto":
        return "goto bb%d" % t["t"]
    if k == "switch":
        return "switch(%s: %s) [%s, otherwise: bb%d]" % (
            operand(t["d"]), t["dty"], ", ".join("%d: bb%d" % (v, b) for v, b in t["targets"]), t["otherwise"])
    if k == "call":
        return "%s = %s(%s) -> %s" % (place(t["dest"]), callee(t["f"]),
                                      ", ".join(operand(a) for a in t["args"]),
                                      ("bb%d" % t["t"]) if t["t"] is not None else "!")
    if k == "drop":
        return "drop(%s) -> bb%d" % (place(t["pl"]), t["t"])
    if k == "assert":
        return "assert(%s == %s, %s) -> bb%d" % (operand(t["cond"]), t["expected"], t["msg"]["k"], t["t"])
    return k


def body(b, out=None):
    lines = []
    lines.append("fn %s" % b["path"])
    for d in b.get("dbg", []):
        lines.append("  debug %s => %s" % (d["name"], place(d["pl"])))
    for i, blk in enumerate(b["blocks"]):
        lines.append("  bb%d%s:" % (i, " (cleanup)" if blk.get("cleanup") else ""))
        for s in blk["s"]:
            if s["k"] == "assign":
                lines.append("    %s = %s   // %s%s" % (place(s["pl"]), rvalue(s["rv"]), s.get("ln", ""),
                                                       (" " + s["exp"]) if s.get("exp") else ""))
            else:
                lines.append("    %s" % s)
        lines.append("    %s   // %s%s" % (term(blk["t"]), blk["t"].get("ln", ""),
                                           (" " + blk["t"]["exp"]) if blk["t"].get("exp") else ""))
    return "\n".join(lines)
