"""Single source for MANIFEST.json (see /verif/gen_manifest.py)."""

BASELINE_CMD = ("cd /repo && cargo nextest run --workspace --no-fail-fast --test-threads 8 --offline "
                "|| cargo test --workspace --no-fail-fast --offline")

NOTES = ("Technique family: static analysis only. Every check extracts MIR facts from /repo's current working tree "
         "with a rustc_private driver (cargo decides which units are re-extracted) and evaluates structural rules "
         "(must-pass-through, who-may-call, sibling agreement, decision tables, codec trios, lock regions, provenance) "
         "on them. No repository code is executed, concretely or symbolically. Each check decides the listed clauses, "
         "which are necessary conditions of the property, and NOT the behaviour as a whole; DESIGN.md section 3 lists per "
         "property what is decided (D) and what is out of reach (N). exit 2 (no VIOLATION line) = the tree does not "
         "build under the analysis toolchain.")

_T = "static analysis of rustc MIR: "

CLAIMED = {
    "C15": {
        "text": "Decides, for every path of the analysed functions: only BlsCacheData::put grows the cache map and it "
                "evicts before inserting when len==capacity (bounds size for every history by induction); each Mutex "
                "lock region in verify/update/len/is_empty holds one map operation and no caller code or nested lock; "
                "the cached value is pair(hash_to_g2(pk||msg), pk) under key sha256(pk||msg) of the same pair, so a hit "
                "returns what a miss computes (schedule/eviction independence premise); every verifier rejects the "
                "infinity key explicitly or via an infinity-rejecting blst primitive. Does not decide verdict equality "
                "(pairing algebra inside blst).",
        "design_ref": "DESIGN.md 3/C15",
        "note": "trusted: blst primitives' infinity handling, LinkedHashMap, Mutex; assumes callers of update() pass true pairings",
        "technique": _T + "who-may-call + must-pass-through dominance + lock-region contents + value provenance + sibling agreement",
    },
    "C18": {
        "text": "Decides, for every path: each leaf built from caller-supplied key/hash and each replacement of an existing "
                "leaf's hash is guarded by the duplicate-key/duplicate-hash checks (in place, at every caller of a private "
                "helper, or by a completed pre-validation loop over the same batch that also checks in-batch uniqueness); "
                "the blob bytes and cache maps are written only by the enumerated functions and a block write updates the "
                "cache in the same call; MerkleBlob::new rebuilds the cache rejecting duplicates; structure-changing "
                "operations mark the surviving ancestor's lineage dirty on every Ok path (enumerated root exceptions); lazy "
                "hashing / proofs fold internal_hash with children and sides in the right roles. Does not decide "
                "equivalence with a plain map over histories or atomicity in general.",
        "design_ref": "DESIGN.md 3/C18",
        "note": "trusted: HashMap/IndexSet/bitvec, SHA-256; heap-shape invariants of the blob are not proved",
        "technique": _T + "must-pass-through guards (with interprocedural discharge at callers) + who-may-write + loop idiom recognition + role tables",
    },
    "C13": {
        "text": "Decides for all 163 Streamable impls (derived and hand-written, every crate): per data-dependent path the "
                "token sequence (field, type / literal bytes) of stream equals that of update_digest (ProofOfSpace v2: proof "
                "replaced by the quality-string commitment, the statement's exception); for the ~125 linear struct codecs parse "
                "reads the same types in the same order into the same fields, every field exactly once; bool/Option accept "
                "exactly tags {0,1} and write only those; derived enums accept exactly their discriminants; from_bytes* accept "
                "only fully consumed input and use the right trust mode, nothing overrides them; Vec/String/Bytes writers reject "
                "len > u32::MAX and prefix len-as-u32 of self; TRUSTED is only forwarded except at the enumerated sites. "
                "Decides these clauses, not value-level bijectivity.",
        "design_ref": "DESIGN.md 3/C13",
        "note": "trusted: clvmr length scanner (Program), blst (de)compression, chia-pos2; SHA-256",
        "technique": _T + "codec trio agreement by bounded path enumeration with along-path constant folding + tag tables + must-pass-through",
    },
    "C14": {
        "text": "Decides: every panic-capable MIR site (Assert terminators, unwrap/expect/slice-index/panic entry points) in the "
                "workspace-internal call-graph closure (~560 fns, CHA edges) of all Streamable methods and from_bytes*/to_bytes/hash "
                "is auto-discharged by a syntactic pattern or is a per-site allow-list entry whose guard is re-checked on the "
                "current MIR; allocation sizes in decoders are constant, min-capped or lengths of slices cut from the input; "
                "decoder loops consume input or are constant-bounded; only read_bytes/Program::parse move the cursor and only after "
                "a bounds test. One known finding (ProofOfSpace hash panic) is listed in known_findings.json.",
        "design_ref": "DESIGN.md 3/C14",
        "note": "trusted: external crates do not panic; no time bounds are decided",
        "technique": _T + "panic-site enumeration over the call-graph closure with guard-checked allow-list + allocation-size provenance",
    },
    "C01": {
        "text": "Decides for all inputs and flag subsets: parse_opcode accepts exactly the 35 table codes plus 2-byte codes with a "
                "non-zero first byte; for each opcode the complete normalised accepting-path set of parse_args (sanitiser, argument "
                "position, literal size, strict terminator rule, overflow class -> outcome, produced variant and field sources) "
                "equals the set generated from its row of spec/conditions.json; the sanitiser atoms have exactly their specified "
                "accepting paths; for 28 Condition variants the per-path (guards, effects, exit) of the parse_conditions arm equals the "
                "effect table (fold operator, impossibility guard operands/operator, deferred-set inserts, countdown, message "
                "direction); validate_conditions has each rejection guard, examines every deferred set and is_ephemeral matches parent "
                "id and (puzzle hash, amount); every entry point passes validate_conditions/validate_signature on each Ok path; "
                "strict list termination on all three list walkers; mempool-visitor flag table. Not the numeric end-to-end behaviour.",
        "design_ref": "DESIGN.md 3/C01",
        "note": "trusted: clvmr allocator primitives, SHA-256, HashSet/HashMap; the spec rows are reviewed against README/docs",
        "technique": _T + "accepting-path normal form by bounded path enumeration with a symbolic environment, set-compared with hand-written spec tables; must-pass-through",
    },
    "C11": {
        "text": "Decides: each of the three hand-written u64 ladders (Coin::coin_id, u64_to_bytes, clvm_bytes_len) is extracted as a "
                "decision table (guards = comparisons of the amount with literals, outcome = emitted length from the Sha256/Vec "
                "operands, which must be suffixes of to_be_bytes(amount) plus a literal 0x00) and evaluated at every literal +-1 and all "
                "byte-length boundaries against the canonical minimal length; the three tables agree; sanitize_uint returns a value "
                "only when the length fits (never truncates), classifies top-bit/oversized as overflow; the 12 clvm-traits integer "
                "impls pass their own signedness/width; pad bytes by sign. Equality with clvmr's encoder is trusted.",
        "design_ref": "DESIGN.md 3/C11",
        "note": "trusted: clvmr new_number/u64_from_bytes, to_be_bytes",
        "technique": _T + "decision-table extraction and evaluation on the literal-induced partition; sibling agreement",
    },
    "C17": {
        "text": "Decides: all 24 PRECOMPUTED_HASHES equal sha256(0x01||minimal(i)) (hashlib), indexed only under val<len; "
                "tree_hash_atom/pair feed [1]||bytes and [2]||first||rest; both traversals push Cons,left,right and hash "
                "(first popped, second popped); TreeCache::insert is called only by tree_hash_cached with the pair hash computed in "
                "the same operation; get/insert respect the three top-u32 sentinels; no TreeCache holder restores an allocator "
                "checkpoint; curry helpers use q=1,a=2,c=4,nil in the right roles. Not the induction over DAGs/visit histories.",
        "design_ref": "DESIGN.md 3/C17",
        "note": "trusted: SHA-256, clvmr node accessors",
        "technique": _T + "constant recomputation + sibling agreement + who-may-call + provenance",
    },
    "C02": {
        "text": "Decides: parse_conditions is only called by process_single_spend and is the only pusher of spends; every "
                "non-rejecting exit of process_single_spend inserted compute_coin_id(sanitised parent, sanitised puzzle hash, raw "
                "amount atom) into spent_coins without collision; each entry point creates one ParseState outside its loop and "
                "routes every spend through process_single_spend; addition_amount grows only after create_coin.insert returned true "
                "and NewCoin hashes/compares exactly (puzzle_hash, amount); the u128 totals have one write site each (`+= x as u128`), "
                "reserve_fee uses checked_add; validate_conditions rejects removal<addition and removal-addition<fee; coin-id hash "
                "input order; the node hashed is the node run (block path) / declared hash is compared (mempool path).",
        "design_ref": "DESIGN.md 3/C02",
        "note": "trusted: SHA-256, clvmr, HashSet/HashMap; legacy ROM puzzle hashing is CLVM",
        "technique": _T + "who-may-call + must-pass-through + effect-table rows + value provenance",
    },
    "C03": {
        "text": "Decides (finite tables): parse-time width / negative / oversized class of all ten lock and birth opcodes equals the "
                "spec rows; fold operator and holder per kind (max for after-locks, min for before-locks, reject-different for birth) "
                "by complete per-path effect comparison; the check_time_locks guard table (operator, operands, saturating_add on the "
                "nowrap branch) equals spec B.6; the monotone pairing fold<->comparison direction, which makes fold-then-compare equal "
                "to compare-each-and-conjoin for every multiset; impossibility guards are exactly `before <= after` with mirrored "
                "operands; the six relative/birth kinds and skip-relative feed the ephemeral rule.",
        "design_ref": "DESIGN.md 3/C03",
        "note": "trusted: std max/min/saturating_add; legacy nowrap=false mode only checked for shape",
        "technique": _T + "accepting-path tables + guard-table extraction + order-theoretic pairing",
    },
    "C04": {
        "text": "Decides: cost constants (values + stated relations) and all 256 two-byte cost slots against an exact-rational "
                "recomputation; per opcode class and COST_CONDITIONS value the pre-charge region charges exactly the class cost, "
                "unknown opcodes and the per-spend cost likewise; every budget decrement is dominated by a strict `<` guard on the "
                "same term and mirrored into both condition_cost accumulators, which have no other writers; subtract_cost is strict; "
                "each entry point subtracts the size cost once before any CLVM run, passes the remaining budget to run_program, "
                "subtracts each returned cost and reports max_cost - cost_left. Numeric totals (CLVM cost, byte length) are external.",
        "design_ref": "DESIGN.md 3/C04",
        "note": "MESSAGE/GENERIC cost rows are frozen from the reviewed tree (no independent offline source)",
        "technique": _T + "constant recomputation + region path tables + dominance of guards over decrements",
    },
    "C05": {
        "text": "Decides: for each of the 8 AGG_SIG variants the ordered byte pieces pushed to pkm_pairs (message atom, coin "
                "attributes, domain constant of that opcode) under to_key(pk), pushed iff signatures are validated, equal the recipe "
                "table; make_aggsig_final_message appends the same pieces per opcode; the unsafe suffix ban covers all seven constants "
                "and precedes every unsafe push; to_key accepts only checked, non-infinity keys; validate_signature skips only under "
                "DONT_VALIDATE_SIGNATURE and both verifier branches get the same pairs/signature; the mempool path keys pairings by "
                "sha256 of the same pk||msg bytes and accepts only a true verdict. BLS soundness is external.",
        "design_ref": "DESIGN.md 3/C05",
        "note": "trusted: blst, Allocator::atom, canonical u64_to_bytes (C11)",
        "technique": _T + "ordered provenance of byte pieces from region paths + sibling agreement + must-pass-through",
    },
    "C06": {
        "text": "Decides: for every opcode, accepting paths of parse_args under STRICT_ARGS_COUNT / NO_UNKNOWN_CONDS are accepting "
                "paths without the flag (subset of checks, identical result); every branch on the three strictness flags in the spend "
                "pipeline guards an effect-free region; every effect in the per-condition regions is in a commutative class (sum, "
                "max, min, set/map insert with rejecting collision, first/idempotent assign, counters) or an enumerated order-only "
                "vector, and every guard reading accumulator state is one of the enumerated symmetric guards. Equality of two "
                "concrete runs' numbers is not decided.",
        "design_ref": "DESIGN.md 3/C06",
        "note": "clvmr dialect flags in MEMPOOL_MODE are not analysed",
        "technique": _T + "effect classification over region paths + path-set inclusion per flag",
    },
    "C07": {
        "text": "Decides: parse_spends (the Rust back-end of the legacy ROM path) and the native loop of run_block_generator2 agree on "
                "taking first(output) as the spend list, strict nil termination, the spend-count guard, the roles routed into "
                "process_single_spend, the post-loop sequence validate_conditions -> validate_signature -> validated_signature and "
                "the cost formula; both paths apply check_generator_quote before and check_generator_node after decoding; "
                "setup_generator_args rejects block references under SIMPLE_GENERATOR; extract_n::<N> arities. Does not decide "
                "equality of the two paths' results (the legacy half runs inside the CLVM ROM).",
        "design_ref": "DESIGN.md 3/C07",
        "note": "trusted: ROM_BOOTSTRAP_GENERATOR (CLVM byte-code), clvmr run_program and deserialisers",
        "technique": _T + "sibling agreement of two loops (guards, role routing, call order) + must-pass-through",
    },
    "C08": {
        "text": "Decides: run_spendbundle and run_block_generator2 run the same per-spend sequence with the same role mapping and the "
                "same post-loop validation; build_generator, BlockBuilder::add_spend_bundles and InternedBlockBuilder construct the "
                "spend item with the same cons order (parent, puzzle, amount, solution) from the same sources; clvm_bytes_len is the "
                "canonical atom length table; the generator-length constants (39 per spend, 5 outer, QUOTE_BYTES 2). Does not decide "
                "that the serialised block re-parses to the same conditions (CLVM serialisation / back-references).",
        "design_ref": "DESIGN.md 3/C08",
        "note": "trusted: clvmr serialiser, interning, run_program",
        "technique": _T + "sibling agreement (call sequences, role tables) + decision table + constants recomputed from structure",
    },
    "C09": {
        "text": "Decides: additions_and_removals, get_coinspends*_for_trusted_block, SpendBundle::additions and "
                "get_puzzle_and_solution_for_coin build each coin from the same roles full validation uses (parent, tree hash of the "
                "puzzle node, parsed amount), scan opcode 51 with the CREATE_COIN argument shapes, apply the hint rule of validated "
                "conditions (atom of length <= 32, nil = no hint), and return a puzzle/solution only after parent, amount and puzzle "
                "hash were all compared equal. Does not decide equality on concrete blocks.",
        "design_ref": "DESIGN.md 3/C09",
        "note": "trusted: clvm-traits tuple decoding, clvmr, tree_hash_cached; one defect found by this check was repaired (known_findings.json: fixed C09)",
        "technique": _T + "sibling agreement of role tables + literal tables + must-pass-through equality gates",
    },
    "C10": {
        "text": "Decides for both block builders: every rejecting return after a tentative add passes the matching restore "
                "(serializer state / allocator checkpoint); the committed fields are written only on accepting paths after the last "
                "fallible call; the aggregate signature and cost added are the batch's own; the acceptance guard compares "
                "byte cost + block cost + cost with the limit after the size is known; the bookkeeping constants (20, WRAPPER_VBYTES). "
                "Does not decide estimate >= final size or output equality.",
        "design_ref": "DESIGN.md 3/C10",
        "note": "trusted: clvmr Serializer / Allocator checkpoints",
        "technique": _T + "acquire/undo pairing as must-pass-through + effect placement on accepting paths + provenance of accumulated values",
    },
    "C12": {
        "text": "Decides: validate_merkle_proof / deserialize_proof accept only after the root comparison, full consumption, the bit-audit "
                "loop and the depth bound; proof tag constants and payload lengths agree between writers and reader; hash() framing; the two "
                "hand-duplicated root computations call hash() with the same type/hash signatures under the same case guards and treat the "
                "single-leaf and empty sets identically; the two wheel entry points have opposite polarity. Does not decide canonicity, "
                "completeness or soundness proper (inductive arguments over trees).",
        "design_ref": "DESIGN.md 3/C12",
        "note": "trusted: SHA-256",
        "technique": _T + "must-pass-through gates + writer/reader tag tables + sibling agreement of hash-call signatures",
    },
    "C16": {
        "text": "Decides: checked decoders = unchecked decoder + is_valid gate (Ok only if true), parse dispatches on TRUSTED; the G1 "
                "flag-bit acceptance table (infinity must be exactly 0xc0 || 0..0, compression bit required, zero body rejected); both "
                "unhardened derivations hash public_key || index (big-endian) and both synthetic derivations take the offset from "
                "synthetic_offset and add; GROUP_ORDER_BYTES equals the BLS12-381 scalar field order. Does not decide the homomorphism "
                "laws or G2 canonicity (inside blst).",
        "design_ref": "DESIGN.md 3/C16",
        "note": "trusted: blst, num_bigint",
        "technique": _T + "must-pass-through + accepting-path decision table + hash-input provenance + constant recomputation",
    },
    "C19": {
        "text": "Decides: fast_forward_singleton has one accepting path and on it every refusal gate of the statement was evaluated "
                "favourably (three parity tests, puzzle-hash equalities, both mod-hash tests against the singleton v1.1 hash, lineage "
                "proof variant, amount, recomputed parent id, inner puzzle hash, new coin parent); exactly three fields of the decoded "
                "solution are rewritten, from the stated sources; dedup / fast-forward eligibility follows the mempool flag table for all "
                "36 condition variants plus new_spend / post_spend / post_process rules; the fingerprint hashes per opcode exactly the "
                "arguments parse_args reads with a 4-byte length frame, refuses other opcodes, and is computed only for still-eligible "
                "spends. Does not decide that the rewritten spend runs and emits the same coins.",
        "design_ref": "DESIGN.md 3/C19",
        "note": "trusted: clvm-traits singleton types, tree_hash, SHA-256",
        "technique": _T + "accepting-path fact set vs required gates + store enumeration + flag-effect table extraction + arity table vs spec",
    },
    "C20": {
        "text": "Decides for all ToJsonDict/FromJsonDict impl pairs (about 135 derived, 24 hand-written, as compiled from the derive "
                "expansion): writer and reader agree on (key literal, field, declared field type) for every field, cover every field, have "
                "one accepting path (no default for a missing key); newtypes delegate to field 0; enums go through u8 and re-parse; Option "
                "/ Vec / tuple / array combinators check arity before reading, keep positions and propagate element errors; integer impls "
                "are extract / into_pyobject of the same type without a cast; Bytes / BytesImpl / Program / BLS readers require the prefix, "
                "valid hex and the exact length and writers emit the same bytes. Does not decide what pyo3 and Python do.",
        "design_ref": "DESIGN.md 3/C20",
        "note": "trusted: pyo3 extract / into_pyobject / get_item / set_item, hex crate",
        "technique": _T + "writer/reader trio agreement on accepting paths + accepting/rejecting path tables for combinators and byte strings",
    },
}

_PENDING = "check not built yet in this round (planned, see DESIGN.md section 3); not claimed until its rules run"

NOT_APPLICABLE = {("C%02d" % i): _PENDING for i in range(1, 21) if ("C%02d" % i) not in CLAIMED}

# clauses added after the second round of seeded changes (DESIGN.md 9.6); appended to the claim texts above
_W = (" Rule W (spec/wrappers.json): each Python-facing wrapper of this property calls its native function exactly once and none of "
      "its look-alike siblings, and every native parameter is built from exactly the wrapper parameter(s) of the same role.")
_EXTRA = {
    "C01": "Also: is_ephemeral has exactly its two specified paths (no positional test); the owned summary walks spends / "
           "agg_sig_unsafe / create_coin completely (no iterator adaptor)." + _W,
    "C02": "Also: no iteration of any entry loop skips process_single_spend; the owned summary lists every spend (C02.5); the amount "
           "sanitiser admits only the canonical form (C02.6, shared with C11.2).",
    "C03": "Also: validate_conditions branches on lock aggregates only through `before_X_absolute is Some` and `before_X_absolute <= "
           "X_absolute`; is_ephemeral exact." + _W,
    "C04": _W.strip(),
    "C05": "Also: no Ok path of an entry point skips validate_conditions / validate_signature (C05.2)." + _W,
    "C06": "Also: the strictness flags are tested only through contains(single flag) whose false side never rejects on its own, and "
           "otherwise only added to flag sets; inside the loops of validate_conditions balances change only by exact checked addition.",
    "C07": "Also: no iteration of either loop skips a spend; both paths pass the remaining budget to run_program, subtract every returned "
           "cost and report max_cost - cost_left." + _W,
    "C08": "Also: is_ephemeral is position independent (builders reverse the spend order)." + _W,
    "C09": "Also: the fast paths subtract from their budget only costs returned by run_program (C09.4)." + _W,
    "C10": "Also: the compressed builder never rolls the Allocator back while its incremental Serializer is live." + _W,
    "C11": "Also: decode_number evaluates the sign bit once under !signed and twice under signed, and rejects when the two disagree.",
    "C12": "Also: validate_merkle_proof has exactly one accepting path returning the lookup's own flag (lookup errors stay errors); the "
           "lookup reports inclusion only by full 32-byte equality (Empty / Leaf / leaf pair / recurse on get_bit with depth+1)." + _W,
    "C14": "Also: decoders touch the cursor only via position/get_ref/set_position (never std::io::Read::read); validation-skipping "
           "primitives (*_unchecked, *_trusted) are called in parse bodies only under TRUSTED == true.",
    "C15": _W.strip(),
    "C16": "Also: is_all_zero inspects every byte (three align_to parts or one pass); all three secret-key addition forms call "
           "blst_sk_add_n_check once, never branch on its result and return the written sum." + _W,
    "C17": _W.strip(),
    "C18": "Also: batch_insert reaches its bulk phase only after testing the leaf count against 1." + _W,
    "C19": _W.strip(),
}
for _k, _v in _EXTRA.items():
    CLAIMED[_k]["text"] = CLAIMED[_k]["text"].rstrip() + " " + _v.strip()

# clauses added after the third round of seeded changes
_EXTRA3 = {
    "C02": "Also (round 3): no Ok path of an entry point skips validate_conditions (C02.3).",
    "C04": "Also (round 3): the condition parser receives the remaining budget cost_left; the budget is tested only by `*max_cost < X` "
           "guards whose passing side subtracts the same X; spend triples keep (coin, puzzle, solution) order.",
    "C06": "Also (round 3): charge-paired budget tests only (C06.2), so the verdict at an exact cost boundary is order independent.",
    "C08": "Also (round 3): get_conditions_from_spendbundle runs under get_flags_for_height_and_constants(prev_tx_height, constants) | "
           "MEMPOOL_MODE | DONT_VALIDATE_SIGNATURE with the height unmodified; validate_clvm_and_signature passes flags through.",
    "C09": "Also (round 3): a condition is CREATE_COIN iff its opcode atom is exactly the byte 51 in both fast scans; non-atom opcodes are "
           "skipped by additions_and_removals (C09.5).",
    "C10": "Also (round 3): both finalize functions proceed iff total <= max block cost (non-strict, as admission).",
    "C12": "Also (round 3): from_proof rejects only where deserialize_proof_impl does; pad_middles_for_proof_gen emits MIDDLE/EMPTY per "
           "shared bit and the terminals at the first differing bit (exact path/effect table).",
    "C13": "Also (round 3): Vec<T>::parse iterates 0..len with the wire length unmodified and pushes one element per iteration; "
           "validation-skipping primitives only under TRUSTED (C13.4); generated Python codec methods call the right Streamable method (C13.W).",
    "C14": "Also (round 3): generated Python decoders use the checked/unchecked/parse::<TRUSTED> variants they are named for (C14.W).",
    "C15": "Also (round 3): exact verdict tables of verify / aggregate_verify / aggregate_verify_gt (C15.6); is_inf is the blst primitive on the point.",
    "C16": "Also (round 3): derive_unhardened hashes exactly key bytes || idx.to_be_bytes() with the index unmodified on both sides.",
    "C17": "Also (round 3): the hash-only encoder TreeHasher defines exactly encode_atom -> tree_hash_atom and encode_pair -> tree_hash_pair and "
           "overrides nothing else (C17.5).",
    "C18": "Also (round 3): get_keys_values reports the value field of the decoded leaf for every cached key; on load the free set is exactly "
           "the blocks the traversal did not reach (C18.7).",
    "C19": "Also (round 3): curry_and_treehash uses the decoded singleton struct's own mod hash / launcher id / launcher puzzle hash in the "
           "curry shape (C19.1, shared with C17.4).",
    "C20": "Also: generated to_json_dict / from_json_dict methods delegate to the trait impl of the same type (C20.W).",
}
for _k, _v in _EXTRA3.items():
    CLAIMED[_k]["text"] = CLAIMED[_k]["text"].rstrip() + " " + _v.strip()


# clauses added after the fourth round of seeded changes
_EXTRA4 = {
    "C01": "Also (round 4): post_process examines every created coin for the ephemeral-output rule; AGG_SIG keys only through the checked decoder (shared C05.4).",
    "C04": "Also (round 4): From<EvalErr> maps exactly one variant to CostExceeded; two-byte opcode cost rows (shared C01.2).",
    "C06": "Also (round 4): every relative/birth/skipped-relative arm records the spend for the ephemeral check (C06.2, shared C03.6).",
    "C07": "Also (round 4): both paths decode the generator with node_from_bytes_backrefs; charge-paired budget guards in the shared per-spend code.",
    "C08": "Also (round 4): mempool admission verifies the aggregate signature on every accepting path; fingerprint arity table (shared C05.5 / C19.4).",
    "C09": "Also (round 4): the scanning loops end only at the end of the list or on an error; SpendBundle::additions runs under ClvmFlags::empty() (C09.6).",
    "C10": "Also (round 4): spend_vbytes = interned_vbytes + COST_CONS(3) and the estimate grows by spend_vbytes * cost_per_byte exactly.",
    "C11": "Also (round 4): default ClvmEncoder::encode_bigint starts from to_signed_bytes_be with the exact stripping tests (C11.4); trusted scans sanitise amounts with parse_amount.",
    "C13": "Also (round 4): provided hash() = Sha256 over update_digest(self) only; to_bytes() = stream(self); Signature::from_bytes_unchecked has the single accepting path blst_p2_uncompress(buf) ok.",
    "C15": "Also (round 4): rule W verdict-from-native (no Ok shortcut in a binding).",
    "C16": "Also (round 4): only the checked decoder and Streamable::parse call the unchecked point decoders; no mixed (affine) addition on projective points.",
    "C17": "Also (round 4): memo key = the popped node in get / should_memoize / ConsAddCache / insert; tree_hash_from_bytes has exactly its two paths.",
    "C18": "Also (round 4): the lineage walk branches only on next_index and get_block's result; ProofOfInclusion::valid verdict table (C18.8).",
    "C19": "Also (round 4): hash_atom_list frames every atom (length then bytes) on every iteration.",
    "C20": "Also (round 4): parse_hex_string hands hex::decode the caller's string minus at most the 0x prefix.",
}
for _k, _v in _EXTRA4.items():
    CLAIMED[_k]["text"] = CLAIMED[_k]["text"].rstrip() + " " + _v.strip()


# clauses added after the fifth round of seeded changes
_REF = (" Rule REF (spec/refusals.json): the functions of this property that must succeed on valid input gain no new kind of refusal "
        "(explicit error variant or `?`-forwarded callee) beyond the reviewed inventory.")
_EXTRA5 = {
    "C01": "Also (round 5): condition pre-charge region (shared C04.2)." + _REF,
    "C02": "Also (round 5): tree-hash atom/pair recipes (shared C17.2); pre-charge region; RESERVE_FEE / CREATE_COIN argument rows (shared C01.2)." + _REF,
    "C03": "Also (round 5): assert_not_ephemeral exact (keyed on HAS_RELATIVE_CONDITION only)." + _REF,
    "C04": "Also (round 5): run_program receives the cost_left local itself; byte cost = program.len() * cost_per_byte; parse_opcode table (shared C01.1).",
    "C05": "Also (round 5): both verifiers receive state.pkm_pairs.iter().map(..) unmodified; one factor per pair in the cached verifier (shared C15.5).",
    "C06": "Also (round 5): all-pairs-verified (shared C05.5).",
    "C07": _REF.strip(),
    "C08": "Also (round 5): entry-point validation and announcement arms of the effect table (shared C01.5 / C01.4)." + _REF,
    "C09": "Also (round 5): Coin::coin_id ladder (shared C11.1), sanitiser atoms incl. value-based check_nil (shared C01.3)." + _REF,
    "C10": _REF.strip(),
    "C11": "Also (round 5): MatchByte<BYTE> decoder decision table over all 256 values (C11.5).",
    "C12": _REF.strip(),
    "C13": _REF.strip(),
    "C14": _REF.strip(),
    "C15": _REF.strip(),
    "C16": "Also (round 5): SecretKey::from_bytes = zero key or blst_sk_check (exact)." + _REF,
    "C17": "Also (round 5): the bytes hashed for an atom are the allocator's own view of the popped node." + _REF,
    "C18": _REF.strip(),
    "C19": "Also (round 5): SingletonArgs::from_clvm tests the curry terminator by length and bytes; fingerprint per spend (C19.5)." + _REF,
}
for _k, _v in _EXTRA5.items():
    CLAIMED[_k]["text"] = CLAIMED[_k]["text"].rstrip() + " " + _v.strip()


# clauses added after the sixth round of seeded changes
_EXTRA6 = {
    "C05": "Also (round 6): owned per-opcode signature lists are copied field by field (shared C01.8).",
    "C09": "Also (round 6): exact accepting path of parse_coin_spend; Program::from_clvm = node_to_bytes(node), to_clvm = node_from_bytes (C09.1/C09.3).",
    "C10": "Also (round 6): one running spend list per add attempt (spend_list = cons(item, spend_list)) in both builders, committed as a whole.",
    "C12": "Also (round 6): generate_proof forwards lookup errors (exact table); merkle_set::hash is a single unconditional SHA-256.",
    "C13": "Also (round 6): every nested decode inside a parse body is propagated with `?` or is the tail result (544 calls).",
    "C14": "Also (round 6): nested decode errors propagate (shared C13.3); trust-dependent decoding only at the enumerated sites (shared C13.4).",
    "C16": "Also (round 6): == of PublicKey / Signature / GTElement / SecretKey is the blst (scalar) comparison, unconditionally (C16.5); G2 single "
           "accepting path and TRUSTED sites shared with C13.",
}
for _k, _v in _EXTRA6.items():
    CLAIMED[_k]["text"] = CLAIMED[_k]["text"].rstrip() + " " + _v.strip()


# clauses added in round 7 (seeded changes) and round N (behaviour-preserving probes, DESIGN 9.7)
_EXTRA7 = {
    "C01": "Also (round 7): the reserve-fee guard compares the 128-bit fee difference with reserve_fee widened to u128 (no narrowing of the fee side).",
    "C02": "Also (round 7): the precomputed tree-hash table is consulted only for allocator small-ints, under its bounds guard (shared C17.1).",
    "C09": "Also (round 7): the trusted helpers evaluate under ChiaDialect::new(flags.to_clvm_flags()) with the caller's flags unmasked; "
           "is_high_priority_condition is true exactly for AGG_SIG_* (43..50) and CREATE_COIN (51) (decision table over every u16) (C09.8).",
    "C11": "Also (round 7): every path of sanitize_uint that returns a value for an atom with a zero first byte has tested a second byte's top bit as set.",
    "C12": "Also (round 7): no integer of the Merkle set / proof code is narrowed beyond the reviewed index widths (node index u32, bit position "
           "u8); from_leafs hands its leaf slice to the tree builder whole (C12.5).",
    "C16": "Also (round N): the G1 flag rule is additionally decided as a decision table evaluated on all 256 first bytes x zero-body x "
           "uncompress outcome, so an if-chain and a match over the same values are the same table.",
}
for _k, _v in _EXTRA7.items():
    CLAIMED[_k]["text"] = CLAIMED[_k]["text"].rstrip() + " " + _v.strip()
