"""Thorough tier: sensitivity replay.

A static rule that matches nothing passes forever.  Besides the floors, the thorough tier re-validates the checker against
the seeded changes kept under /verif/seeded/<ID>/*: each is a small, realistic change that breaks the property while the
repository still compiles and its tests still pass (produced by an independent agent from the property text alone, and
confirmed with a demonstration test).  For every seeded change of the property being checked:

  * the current working tree of /repo is copied to a scratch directory outside /repo and /verif,
  * the change is applied to the copy, the fact extractor runs on the copy (own scratch target directory, warmed from the
    main cache), and the same rules are evaluated,
  * the rules must report a violation on the copy.

Nothing is written to /repo; the scratch directory is removed afterwards.  A seeded change that no longer applies to the
current tree is skipped (recorded).  A change that applies but is no longer detected is reported as SENSITIVITY-LOST on stderr
and in the evidence file: it means the checker lost power, not that the property is violated, so it does not produce a
VIOLATION line.  The replay stops starting new seeds after VERIF_SENS_BUDGET_S seconds (default 1800) and records the rest
as skipped."""
import glob
import json
import os
import shutil
import subprocess
import tempfile
import time

from . import facts


def replay(ctx):
    seeds = sorted(glob.glob(os.path.join(facts.VERIF, "seeded", ctx.pid, "*", "patch.diff")))
    res = {"seeded_changes": len(seeds), "detected": [], "skipped": [], "lost": []}
    if not seeds:
        ctx.fixtures["sensitivity"] = res
        return
    scratch = tempfile.mkdtemp(prefix="verif-sens-%s-" % ctx.pid, dir=os.environ.get("VERIF_SCRATCH", "/tmp"))
    try:
        cache = os.path.join(scratch, "cache")
        os.makedirs(cache)
        # warm the dependency build (registry crates are path-independent); workspace members rebuild for the new path
        src_target = os.path.join(facts.CACHE, "target")
        if os.path.isdir(src_target):
            subprocess.run(["cp", "-a", "--reflink=auto", src_target, os.path.join(cache, "target")], check=False)
        t0 = time.time()
        budget = float(os.environ.get("VERIF_SENS_BUDGET_S", "1800"))
        for patch in seeds:
            name = os.path.basename(os.path.dirname(patch))
            if time.time() - t0 > budget:
                res["skipped"].append({"seed": name, "why": "replay time budget (VERIF_SENS_BUDGET_S=%d) used up" % budget})
                continue
            repo = os.path.join(scratch, "repo")
            # no -t: a file restored to its original content must get a fresh mtime, or cargo keeps the unit built from the
            # previous seed's patched source (and its facts)
            subprocess.run(["rsync", "-rlpgoD", "--checksum", "--delete", "--exclude", "/target", "--exclude", "/.git", facts.REPO + "/", repo + "/"], check=True)
            ap = subprocess.run(["git", "apply", "--unsafe-paths", "--directory=" + repo, patch], cwd="/", capture_output=True, text=True)
            if ap.returncode != 0:
                ap = subprocess.run(["patch", "-p1", "-s", "-f", "-i", patch], cwd=repo, capture_output=True, text=True)
            if ap.returncode != 0:
                res["skipped"].append({"seed": name, "why": "does not apply to the current tree"})
                continue
            env = dict(os.environ)
            env.update({"VERIF_REPO": repo, "VERIF_CACHE": cache, "VERIF_EVIDENCE_DIR": os.path.join(scratch, "evidence"),
                        "VERIF_OUT_DIR": os.path.join(scratch, "out"), "VERIF_TIER": "quick"})
            r = subprocess.run([os.path.join(facts.VERIF, "check"), ctx.pid, "--tier", "quick"], cwd=facts.VERIF, env=env,
                               capture_output=True, text=True)
            fired = [l.split("rule=")[1].split(" ")[0] for l in r.stdout.splitlines() if l.strip().startswith("rule=")]
            if r.returncode == 1 and fired:
                res["detected"].append({"seed": name, "rules": sorted(set(fired))})
            elif r.returncode == 2:
                res["skipped"].append({"seed": name, "why": "the changed copy does not build under the analysis toolchain"})
            else:
                res["lost"].append({"seed": name})
                ctx.log("SENSITIVITY-LOST: seeded change %s/%s applies but is not reported" % (ctx.pid, name))
    finally:
        shutil.rmtree(scratch, ignore_errors=True)
    ctx.fixtures["sensitivity"] = res
    ctx.note("sensitivity replay: %d seeded changes, %d detected, %d skipped, %d lost" % (
        len(seeds), len(res["detected"]), len(res["skipped"]), len(res["lost"])))
