#!/usr/bin/env python3
"""Regenerates MANIFEST.json from sa/manifest_data.py (kept in one place so the
claims, level notes and not_applicable reasons stay consistent)."""
import json, os, sys
sys.path.insert(0, os.path.dirname(os.path.abspath(__file__)))
from sa import manifest_data as M

checks = []
for pid in sorted(M.CLAIMED):
    c = M.CLAIMED[pid]
    checks.append({
        "property_id": pid,
        "quick_cmd": "./check %s --tier quick" % pid,
        "thorough_cmd": "./check %s --tier thorough" % pid,
        "evidence_file": "/verif/evidence/%s.json" % pid,
        "replay_cmd_template": "./check explain {path}",
        "engine": "sa",
        "level_claimed": {"category": "other", "text": c["text"], "design_ref": c["design_ref"]},
        "level_note": c["note"],
        "technique": c["technique"],
    })
m = {
    "version": 1,
    "setup_cmd": "./check setup",
    "hooks": {
        "guard": "chia_network_chia_rs_verif",
        "enable": "none needed: static analysis reads the unmodified sources; no instrumentation is compiled in",
        "baseline_off_cmd": M.BASELINE_CMD,
        "source_commits": [],
        "add_only": True,
    },
    "engines": [{
        "name": "sa", "path": "/verif/check",
        "serves_properties": sorted(M.CLAIMED),
        "kind_free_text": "custom static analysis: rustc_private MIR fact extractor (/verif/driver) + Python rules over CFG/dominance/value terms (/verif/sa)",
    }],
    "checks": checks,
    "notes": M.NOTES,
    "not_applicable": [{"property_id": p, "reason": r} for p, r in sorted(M.NOT_APPLICABLE.items())],
}
with open(os.path.join(os.path.dirname(os.path.abspath(__file__)), "MANIFEST.json"), "w") as f:
    json.dump(m, f, indent=1)
print("MANIFEST.json: %d checks, %d not_applicable" % (len(checks), len(m["not_applicable"])))
