#!/bin/bash
# usage: tools/mutcheck.sh <patch-file> <ID> [<ID>...]
# applies the patch to /repo, runs the given checks, reverts the patch. Prints one line per check.
set -u
exec 9>/tmp/verif-repo.lock; flock 9   # one user of /repo at a time
PATCH=$1; shift
cd /repo || exit 2
if ! git apply --check "$PATCH" 2>/dev/null; then echo "PATCH-DOES-NOT-APPLY $PATCH"; exit 3; fi
git apply "$PATCH"
for id in "$@"; do
  out=$(cd /verif && ./check "$id" 2>/dev/null)
  rc=$?
  nv=$(echo "$out" | grep -c '^VIOLATION')
  echo "$id rc=$rc violations=$nv :: $(echo "$out" | grep -A1 '^VIOLATION' | grep 'rule=' | head -3 | cut -c1-260 | tr '\n' '|')"
done
git checkout -- . 2>/dev/null
git status --short | grep -v generator-tests | head -3
