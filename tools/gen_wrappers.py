#!/usr/bin/env python3
"""prints candidate rows for spec/wrappers.json from the current tree (for hand review; never used at check time)"""
import sys, json, re
sys.path.insert(0, '/verif')
from sa import facts
from sa.rules import wrappers
from sa.rules.util import flat
from sa.mir import Body
fb = facts.load('ws')
pats = sys.argv[1:] or [r'^chia_rs::(api|run_generator|run_program)::[a-z]\w+$', r'::py_\w+$']
rows = []
for p in sorted(fb.fns):
    if not any(re.search(x, p) for x in pats) or '__py' in p:
        continue
    w = fb.fns[p]
    natives = []
    for sc in wrappers.scopes_of(fb, w):
        for bi, name, t in sc.b.calls():
            f = flat(name)
            if f in fb.fns and not f.startswith('chia_rs::') and f != p and f not in natives:
                natives.append(f)
    for n in natives:
        a = wrappers.analyse(fb, p, n)
        rows.append({"wrapper": p, "native": n, "calls": a["calls"], "roles": a["roles"], "lits": a["lits"]})
for r in rows:
    print(json.dumps(r))
