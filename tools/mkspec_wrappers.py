import sys, json
sys.path.insert(0,'/verif')
from sa import facts
from sa.rules import wrappers
fb=facts.load('ws')
CC="chia_consensus::"; RG="chia_rs::run_generator::"; API="chia_rs::api::"
MB="chia_datalayer::merkle::blob::MerkleBlob::"
sel=[
 (RG+"run_block_generator", CC+"run_block_generator::run_block_generator", ["C01","C07"], [CC+"run_block_generator::run_block_generator2"]),
 (RG+"run_block_generator2", CC+"run_block_generator::run_block_generator2", ["C01","C07"], [CC+"run_block_generator::run_block_generator"]),
 (RG+"run_block_generator", CC+"owned_conditions::OwnedSpendBundleConditions::from", ["C01"], []),
 (RG+"run_block_generator2", CC+"owned_conditions::OwnedSpendBundleConditions::from", ["C01"], []),
 (RG+"additions_and_removals", CC+"additions_and_removals::additions_and_removals", ["C09"], []),
 (RG+"generator_interned_vbytes", CC+"generator_cost::interned_vbytes", ["C04"], []),
 (CC+"check_time_locks::py_check_time_locks", CC+"check_time_locks::check_time_locks", ["C03"], []),
 (API+"py_validate_clvm_and_signature", CC+"spendbundle_validation::validate_clvm_and_signature", ["C05","C08"], []),
 (API+"py_get_conditions_from_spendbundle", CC+"spendbundle_conditions::get_conditions_from_spendbundle", ["C08"], []),
 (API+"py_get_conditions_from_spendbundle", CC+"owned_conditions::OwnedSpendBundleConditions::from", ["C08"], []),
 (API+"py_get_flags_for_height_and_constants", CC+"spendbundle_validation::get_flags_for_height_and_constants", ["C08"], []),
 (API+"solution_generator", CC+"solution_generator::solution_generator", ["C08"], [CC+"solution_generator::solution_generator_backrefs"]),
 (API+"solution_generator_backrefs", CC+"solution_generator::solution_generator_backrefs", ["C08"], [CC+"solution_generator::solution_generator"]),
 (API+"get_spends_for_trusted_block", CC+"run_block_generator::get_coinspends_for_trusted_block", ["C09"], []),
 (API+"get_spends_for_trusted_block_with_conditions", CC+"run_block_generator::get_coinspends_with_conditions_for_trusted_block", ["C09"], []),
 (API+"get_puzzle_and_solution_for_coin", CC+"get_puzzle_and_solution::get_puzzle_and_solution_for_coin", ["C09"], []),
 (API+"get_puzzle_and_solution_for_coin", "chia_protocol::coin::Coin::new", ["C09"], []),
 (API+"get_puzzle_and_solution_for_coin2", CC+"get_puzzle_and_solution::get_puzzle_and_solution_for_coin", ["C09"], []),
 (API+"get_puzzle_and_solution_for_coin2", CC+"run_block_generator::setup_generator_args", ["C09"], []),
 (CC+"build_compressed_block::BlockBuilder::py_add_spend_bundle", CC+"build_compressed_block::BlockBuilder::add_spend_bundles", ["C10"], []),
 (CC+"build_compressed_block::BlockBuilder::py_cost", CC+"build_compressed_block::BlockBuilder::cost", ["C10"], []),
 (CC+"build_compressed_block::BlockBuilder::py_finalize", CC+"build_compressed_block::BlockBuilder::finalize", ["C10"], []),
 (CC+"build_interned_block::InternedBlockBuilder::py_add_spend_bundle", CC+"build_interned_block::InternedBlockBuilder::add_spend_bundles", ["C10"], []),
 (CC+"build_interned_block::InternedBlockBuilder::py_cost", CC+"build_interned_block::InternedBlockBuilder::cost", ["C10"], []),
 (CC+"build_interned_block::InternedBlockBuilder::py_finalize", CC+"build_interned_block::InternedBlockBuilder::finalize", ["C10"], []),
 (CC+"build_interned_block::InternedBlockBuilder::py_finalize", CC+"build_interned_block::InternedBlockBuilder::new_with", ["C10"], []),
 (CC+"build_interned_block::InternedBlockBuilder::py_new", CC+"build_interned_block::InternedBlockBuilder::new", ["C10"], []),
 (API+"compute_merkle_set_root", CC+"merkle_set::compute_merkle_set_root", ["C12"], []),
 (API+"confirm_included_already_hashed", CC+"merkle_tree::validate_merkle_proof", ["C12"], []),
 (API+"confirm_not_included_already_hashed", CC+"merkle_tree::validate_merkle_proof", ["C12"], []),
 (CC+"merkle_tree::MerkleSet::py_generate_proof", CC+"merkle_tree::MerkleSet::generate_proof", ["C12"], []),
 (CC+"merkle_tree::MerkleSet::py_get_root", CC+"merkle_tree::MerkleSet::get_root", ["C12"], []),
 ("chia_bls::bls_cache::BlsCache::py_aggregate_verify", "chia_bls::bls_cache::BlsCache::aggregate_verify", ["C15"], []),
 ("chia_bls::bls_cache::BlsCache::py_evict", "chia_bls::bls_cache::BlsCache::evict", ["C15"], []),
 ("chia_bls::bls_cache::BlsCache::py_len", "chia_bls::bls_cache::BlsCache::len", ["C15"], []),
 ("chia_bls::bls_cache::BlsCache::py_update", "chia_bls::bls_cache::BlsCacheData::put", ["C15"], []),
 (API+"AugSchemeMPL::verify", "chia_bls::signature::verify", ["C15"], []),
 (API+"AugSchemeMPL::aggregate_verify", "chia_bls::signature::aggregate_verify", ["C15"], []),
 (API+"AugSchemeMPL::sign", "chia_bls::signature::sign", ["C16"], []),
 (API+"AugSchemeMPL::sign", "chia_bls::signature::sign_raw", ["C16"], []),
 (API+"AugSchemeMPL::derive_child_sk", "chia_bls::secret_key::SecretKey::derive_hardened", ["C16"], ["<chia_bls::secret_key::SecretKey as chia_bls::derive_keys::DerivableKey>::derive_unhardened"]),
 (API+"AugSchemeMPL::derive_child_sk_unhardened", "<chia_bls::secret_key::SecretKey as chia_bls::derive_keys::DerivableKey>::derive_unhardened", ["C16"], ["chia_bls::secret_key::SecretKey::derive_hardened"]),
 (API+"AugSchemeMPL::derive_child_pk_unhardened", "<chia_bls::public_key::PublicKey as chia_bls::derive_keys::DerivableKey>::derive_unhardened", ["C16"], []),
 (API+"AugSchemeMPL::key_gen", "chia_bls::secret_key::SecretKey::from_seed", ["C16"], []),
 ("chia_bls::secret_key::SecretKey::py_derive_hardened", "chia_bls::secret_key::SecretKey::derive_hardened", ["C16"], ["<chia_bls::secret_key::SecretKey as chia_bls::derive_keys::DerivableKey>::derive_unhardened"]),
 ("chia_bls::secret_key::SecretKey::py_derive_unhardened", "<chia_bls::secret_key::SecretKey as chia_bls::derive_keys::DerivableKey>::derive_unhardened", ["C16"], ["chia_bls::secret_key::SecretKey::derive_hardened"]),
 ("chia_bls::public_key::PublicKey::py_derive_unhardened", "<chia_bls::public_key::PublicKey as chia_bls::derive_keys::DerivableKey>::derive_unhardened", ["C16"], []),
 ("chia_bls::secret_key::SecretKey::py_public_key", "chia_bls::secret_key::SecretKey::public_key", ["C16"], []),
 ("chia_bls::secret_key::SecretKey::py_from_seed", "chia_bls::secret_key::SecretKey::from_seed", ["C16"], []),
 ("chia_bls::signature::Signature::py_pair", "chia_bls::signature::Signature::pair", ["C15"], []),
 (API+"tree_hash", "clvm_utils::tree_hash::tree_hash_from_bytes", ["C17"], []),
 (MB+"py_insert", MB+"insert", ["C18"], []),
 (MB+"py_upsert", MB+"upsert", ["C18"], []),
 (MB+"py_delete", MB+"delete", ["C18"], []),
 (MB+"py_batch_insert", MB+"batch_insert", ["C18"], []),
 (MB+"py_check_integrity", MB+"check_integrity", ["C18"], []),
 (MB+"py_calculate_lazy_hashes", MB+"calculate_lazy_hashes", ["C18"], []),
 (MB+"py_get_proof_of_inclusion", MB+"get_proof_of_inclusion", ["C18"], []),
 (MB+"py_get_keys_values", MB+"get_keys_values", ["C18"], []),
 (MB+"py_get_key_index", MB+"get_key_index", ["C18"], []),
 (MB+"py_init", MB+"new", ["C18"], []),
 ("chia_datalayer::merkle::proof_of_inclusion::ProofOfInclusion::py_valid", "chia_datalayer::merkle::proof_of_inclusion::ProofOfInclusion::valid", ["C18"], []),
 ("chia_datalayer::merkle::proof_of_inclusion::ProofOfInclusion::py_root_hash", "chia_datalayer::merkle::proof_of_inclusion::ProofOfInclusion::root_hash", ["C18"], []),
 (API+"fast_forward_singleton", CC+"fast_forward::fast_forward_singleton", ["C19"], []),
 (API+"supports_fast_forward", CC+"fast_forward::fast_forward_singleton", ["C19"], []),
]
rows=[]
for w,n,props,forbid in sel:
    a=wrappers.analyse(fb,w,n)
    if a is None or a["calls"]==0:
        print("MISSING",w,n, a and a["calls"]); continue
    r={"wrapper":w,"native":n,"property":props,"calls":a["calls"],"roles":a["roles"]}
    for k in list(r["roles"]):
        if k=="a" and r["roles"][k]!=[]: r["roles"][k]="*"; a["lits"].pop(k,None)
    if a["lits"]: r["lits"]=a["lits"]
    if forbid: r["forbid"]=forbid
    rows.append(r)
doc={"_comment":"Rule W rows (DESIGN 2.3): binding wrapper -> native callee; roles = for each callee parameter (callee's own parameter names) the wrapper parameters [with named field paths] its argument is built from. Hand-reviewed against wheel/src/*.rs and the py-bindings methods, then frozen; never regenerated at check time.","rows":rows}
open('/verif/spec/wrappers.json','w').write(json.dumps(doc,indent=1))
print(len(rows))
