#!/bin/bash
# usage: tools/confirm_seed.sh <ID> <X>   — confirms a seeded change in a scratch worktree (never in /repo):
# demo passes on the pinned tree, fails with the change. Copies patch/demo/meta into /verif/seeded/<ID>/<X>/.
set -u
ID=$1; X=$2
SRC=/tmp/wt/$ID.out
WT=/tmp/wt/confirm
export CARGO_TARGET_DIR=/tmp/tgt-scratch CARGO_NET_OFFLINE=true
[ -d $WT ] || git -C /repo worktree add --detach $WT HEAD -q
cd $WT && git checkout -q -- . && git clean -fdq
PROP=${ID%r[0-9]}; PFX=""; [ "$PROP" != "$ID" ] && PFX="${ID#$PROP}"
DST=/verif/seeded/$PROP/$PFX$X; mkdir -p $DST
cp $SRC/$X.patch.diff $DST/patch.diff; cp $SRC/$X.demo.diff $DST/demo.diff; cp $SRC/$X.meta.json $DST/meta.json
CMD=$(python3 - <<PY
import json,re
m=json.load(open("$SRC/$X.meta.json"))
c=m.get("demo_cmd","")
if isinstance(c,list): c=" ; ".join(c)
r=re.findall(r"cargo test[^;&|\n(]*", c)
print(r[-1].strip() if r else "")
PY
)
if [ -z "$CMD" ]; then echo "$ID $X NO-DEMO-CMD"; exit 0; fi
git apply $SRC/$X.demo.diff || { echo "$ID $X DEMO-DOES-NOT-APPLY"; exit 0; }
( eval "$CMD" ) > $DST/demo.original.log 2>&1; r1=$?
git apply $SRC/$X.patch.diff || { echo "$ID $X PATCH-DOES-NOT-APPLY"; exit 0; }
( eval "$CMD" ) > $DST/demo.changed.log 2>&1; r2=$?
tail -c 3000 $DST/demo.original.log > $DST/demo.original.txt; tail -c 3000 $DST/demo.changed.log > $DST/demo.changed.txt; rm -f $DST/demo.*.log
git checkout -q -- . && git clean -fdq
echo "{\"demo_cmd\": \"$CMD\", \"rc_original\": $r1, \"rc_changed\": $r2, \"confirmed\": $([ $r1 -eq 0 ] && [ $r2 -ne 0 ] && echo true || echo false)}" > $DST/confirm.json
echo "$ID $X original_rc=$r1 changed_rc=$r2"
