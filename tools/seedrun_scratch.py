#!/usr/bin/env python3
"""(restores use rsync --checksum without -t: a restored file gets a fresh mtime, otherwise cargo would keep the facts of the
previously patched version)
usage: tools/seedrun_scratch.py [<ID>/<X> ...]   (default: every /verif/seeded/*/*)
Like seedrun.py but never touches /repo or the main fact cache: works on one scratch copy of /repo's working tree
(outside /repo and /verif, removed at the end) with its own cache, so checks can keep running in /verif meanwhile.
Records which checks fire in /verif/seeded/<ID>/<X>/detected.json."""
import glob, json, os, re, shutil, subprocess, sys, tempfile

V = "/verif"
ROOT = "seeded"


def sh(cmd, cwd=None, env=None):
    return subprocess.run(cmd, shell=True, cwd=cwd, capture_output=True, text=True, env=env)


def main():
    args = sys.argv[1:]
    global ROOT
    if args and args[0] == "--root":      # "seeded" (property-breaking changes) or "neutral" (behaviour-preserving edits)
        ROOT = args[1]
        args = args[2:]
    jobs = 1
    if args and args[0] == "--jobs":
        jobs = int(args[1])
        args = args[2:]
    targets = args or sorted(x[len(V + "/" + ROOT + "/"):] for x in glob.glob(V + "/" + ROOT + "/*/*") if os.path.isdir(x))
    if jobs > 1:
        procs = []
        for k in range(jobs):
            part = targets[k::jobs]
            if part:
                procs.append(subprocess.Popen([sys.executable, os.path.abspath(__file__), "--root", ROOT] + part))
        for p in procs:
            p.wait()
        return
    scratch = tempfile.mkdtemp(prefix="verif-seedrun-", dir="/tmp")
    try:
        cache = os.path.join(scratch, "cache")
        os.makedirs(cache)
        sh("cp -a --reflink=auto %s %s" % (os.path.join(V, ".cache", "target"), os.path.join(cache, "target")))
        repo = os.path.join(scratch, "repo")
        env = dict(os.environ)
        env.update({"VERIF_REPO": repo, "VERIF_CACHE": cache, "VERIF_EVIDENCE_DIR": os.path.join(scratch, "evidence"),
                    "VERIF_OUT_DIR": os.path.join(scratch, "out"), "VERIF_TIER": "quick"})
        # snapshot /repo once, under the lock mutall/mutcheck hold while they have a patch applied there
        pristine = os.path.join(scratch, "pristine")
        sh("flock /tmp/verif-repo.lock rsync -a --delete --exclude /target --exclude /.git /repo/ %s/" % pristine)
        sh("rsync -rlpgoD --checksum --delete %s/ %s/" % (pristine, repo))
        base = sh("./check all", V, env).stdout
        if "VIOLATION" in base:
            print("BASELINE NOT CLEAN in scratch copy:\n" + "\n".join(l for l in base.splitlines() if "VIOLATION" in l or "rule=" in l)[:2000])
        for t in targets:
            d = os.path.join(V, ROOT, t)
            sh("rsync -rlpgoD --checksum --delete %s/ %s/" % (pristine, repo))
            ap = sh("git apply --unsafe-paths --directory=%s %s" % (repo, os.path.join(d, "patch.diff")), "/")
            if ap.returncode != 0:
                ap = sh("patch -p1 -s -f -i %s" % os.path.join(d, "patch.diff"), repo)
            if ap.returncode != 0:
                r = {"error": "patch does not apply"}
            else:
                out = sh("./check all", V, env).stdout
                fired = {}
                lines = out.splitlines()
                for i, l in enumerate(lines):
                    m = re.match(r"VIOLATION property=(\S+)", l)
                    if m and i + 1 < len(lines):
                        rr = re.search(r"rule=(\S+) construct=(.*?)(?:  | crates/|$)", lines[i + 1])
                        fired.setdefault(m.group(1), []).append("%s %s" % (rr.group(1), rr.group(2).strip()) if rr else "?")
                r = {"fired": fired, "build_error": "BUILD-ERROR" in out or "could not build" in out}
            own = t.split("/")[0]
            r["caught_by_own_check"] = own in r.get("fired", {})
            with open(os.path.join(d, "detected.json"), "w") as f:
                json.dump(r, f, indent=1, sort_keys=True)
            print(t, "own=%s" % r["caught_by_own_check"], {k: len(v) for k, v in r.get("fired", {}).items()}, r.get("error", ""), flush=True)
    finally:
        shutil.rmtree(scratch, ignore_errors=True)


main()
