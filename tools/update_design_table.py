#!/usr/bin/env python3
"""rewrites the seed table of DESIGN.md section 9.5 from /verif/seeded/*/*/ (between the SEED-TABLE markers)"""
import subprocess, re
t = subprocess.run(["python3", "/verif/tools/seed_table.py"], capture_output=True, text=True).stdout.strip()
p = "/verif/DESIGN.md"
s = open(p).read()
blk = "<!-- SEED-TABLE-BEGIN -->\n" + t + "\n<!-- SEED-TABLE-END -->"
if "SEED_TABLE" in s:
    s = s.replace("SEED_TABLE", blk, 1)
else:
    s = re.sub(r"<!-- SEED-TABLE-BEGIN -->.*?<!-- SEED-TABLE-END -->", lambda m: blk, s, flags=re.S)
open(p, "w").write(s)
print(len(t.splitlines()), "table lines")
