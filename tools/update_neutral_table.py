#!/usr/bin/env python3
import subprocess
p = "/verif/DESIGN.md"
s = open(p).read()
a, b = s.index("<!-- NEUTRAL-TABLE-BEGIN -->"), s.index("<!-- NEUTRAL-TABLE-END -->")
t = subprocess.check_output(["python3", "/verif/tools/neutral_table.py"], text=True)
open(p, "w").write(s[:a] + "<!-- NEUTRAL-TABLE-BEGIN -->\n" + t + s[b:])
