#!/usr/bin/env python3
"""usage: tools/seed_prompt.py <ID> <tag> [avoid-file]
prints the prompt handed to an independent sub-agent that seeds a property-breaking change.
The agent receives the property text only (one line of properties.jsonl) and a scratch worktree; nothing of the checker.
<tag> is the output directory suffix: the agent writes /tmp/wt/<tag>.out/{A,B}.{patch.diff,demo.diff,meta.json}."""
import json, sys

pid, tag = sys.argv[1], sys.argv[2]
avoid = open(sys.argv[3]).read() if len(sys.argv) > 3 else ""
prop = None
for l in open("/verif/properties.jsonl"):
    p = json.loads(l)
    if p["id"] == pid:
        prop = p
wt = "/tmp/wt/%s" % tag
print("""You are helping to evaluate verification tooling for the Rust repository Chia-Network/chia_rs (Chia blockchain
consensus code). Your job is to play a developer who, with a plausible-looking edit, silently BREAKS one semantic property
of the code base. This is a sanctioned robustness exercise on a scratch copy; nothing is ever merged.

Your scratch git worktree of the repository: %(wt)s   (work ONLY there; never touch /repo or /verif, never read /verif).
Build output directory: set CARGO_TARGET_DIR=%(wt)s.tgt for every cargo command. The sandbox is offline: always pass
--offline to cargo (CARGO_NET_OFFLINE=true). 16 cores are shared with other jobs: use `-j 6` on cargo commands.

The property (this text is all you get about what is being verified):

%(prop)s

TASK: produce TWO independent changes (call them A and B) to the repository's production source (not tests, not fuzz
targets), each of which
  1. breaks the property above (for some input / sequence / configuration the property's statement becomes false),
  2. still compiles, and the EXISTING tests of the affected crate(s) still pass unmodified
     (run e.g. `cargo test -p <crate> --offline -j 6` in your worktree with the change applied; for chia-bls use
     `-p chia-bls@0.45.0`; state exactly what you ran and the result),
  3. needs something specific to manifest -- an unusual input, a boundary value, a particular multi-step sequence of
     operations, a specific flag combination, a particular fork configuration, a fault at a particular point, or two
     cooperating sites that each look fine alone -- NOT something ordinary use or the existing tests expose at once,
  4. looks like something a real developer could write (a refactor, an "optimisation", a copy/paste slip, a misplaced
     check, an off-by-one, a wrong constant, a swapped argument of the same type, a dropped error propagation, a changed
     Python-binding wrapper in wheel/src or a #[cfg(feature = "py-bindings")] method, ...). Keep each change small
     (typically 1-20 changed lines). A and B must be in DIFFERENT functions and break the property in DIFFERENT ways;
     prefer different files. Be inventive: do not pick the single most obvious check to delete.
%(avoid)s
For each change also write a DEMONSTRATION: a new Rust integration test file (e.g. crates/<crate>/tests/<name>.rs) or
a new #[test] in a new file, that PASSES on the unmodified tree and FAILS with the change applied. Run it both ways.

Deliverables -- create the directory %(wt)s.out and write, for X in {A, B}:
  %(wt)s.out/X.patch.diff   `git diff` of the production-source change only (paths relative to repo root, applies with
                            `git apply` on the unmodified tree)
  %(wt)s.out/X.demo.diff    `git diff` (including the new untracked test file: use `git add -N` first, or
                            `git diff --no-index`) adding only the demonstration; must apply on the unmodified tree
                            independently of X.patch.diff
  %(wt)s.out/X.meta.json    JSON object with keys: id ("%(pid)s-X"), description (what was changed and why it breaks
                            the property), files_changed, how_it_manifests (what specific input/sequence is needed and
                            why existing tests miss it), existing_tests_run (list of {cmd, result}), demo_cmd (ONE
                            `cargo test ... --offline` command that runs just the demonstration), demo_result_original,
                            demo_result_changed
Before finishing, verify from a clean tree (`git checkout -- . && git clean -fdq`) that each patch applies, that the demo
passes without and fails with the patch, and leave the worktree clean. If after real effort you can only produce one
valid change, deliver one and say so. Final answer: a short summary of A and B (files, idea, demo result).
""" % {"wt": wt, "prop": json.dumps(prop, indent=1), "pid": pid, "avoid": avoid})
