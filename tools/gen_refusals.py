#!/usr/bin/env python3
"""prints candidate rows for spec/refusals.json from the current tree (for review; never used at check time)"""
import sys, json
sys.path.insert(0, '/verif')
from sa import facts
from sa.mir import Body
from sa.rules import refusals
fb = facts.load('ws')
CC = "chia_consensus::"; DL = "chia_datalayer::merkle::"; MB = DL + "blob::MerkleBlob::"
SEL = [
 (["C18"], [MB + m for m in ("new", "insert", "upsert", "delete", "batch_insert", "get_proof_of_inclusion", "get_lineage_blocks_with_indexes",
                             "calculate_lazy_hashes", "check_integrity", "check_just_integrity", "get_node", "get_block", "get_hash_at_index",
                             "insert_entry_to_blob", "update_parent", "get_min_height_leaf", "insert_subtree_at_key", "get_keys_values",
                             "get_leaf_by_key", "get_hash", "get_new_index", "get_block_bytes", "insert_first", "insert_second", "insert_third_or_later",
                             "get_lineage_with_indexes", "get_lineage_indexes")] +
           [DL + "blob::BlockStatusCache::new", "<" + DL + "iterators::LeftChildFirstIterator<'_> as core::iter::traits::iterator::Iterator>::next",
            "<" + DL + "iterators::ParentFirstIterator<'_> as core::iter::traits::iterator::Iterator>::next",
            "<" + DL + "iterators::BreadthFirstIterator<'_> as core::iter::traits::iterator::Iterator>::next",
            DL + "format::Block::from_bytes", DL + "format::Node::from_bytes"]),
 (["C12"], [CC + "merkle_tree::" + m for m in ("MerkleSet::from_proof", "MerkleSet::deserialize_proof_impl", "MerkleSet::generate_proof",
                                               "MerkleSet::generate_proof_impl", "validate_merkle_proof", "MerkleSet::from_leafs")]),
 (["C09"], [CC + "additions_and_removals::additions_and_removals", CC + "run_block_generator::get_coinspends_for_trusted_block",
            CC + "run_block_generator::get_coinspends_with_conditions_for_trusted_block", CC + "get_puzzle_and_solution::get_puzzle_and_solution_for_coin",
            CC + "get_puzzle_and_solution::parse_coin_spend", "chia_protocol::spend_bundle::SpendBundle::additions"]),
 (["C03"], [CC + "check_time_locks::check_time_locks"]),
 (["C03", "C01"], [CC + "conditions::validate_conditions"]),
 (["C10"], [CC + "build_compressed_block::BlockBuilder::add_spend_bundles", CC + "build_compressed_block::BlockBuilder::finalize",
            CC + "build_interned_block::InternedBlockBuilder::add_spend_bundles", CC + "build_interned_block::InternedBlockBuilder::finalize",
            CC + "build_interned_block::InternedBlockBuilder::spend_vbytes"]),
 (["C19"], [CC + "fast_forward::fast_forward_singleton", CC + "puzzle_fingerprint::compute_puzzle_fingerprint", CC + "puzzle_fingerprint::hash_atom_list"]),
 (["C07"], [CC + "run_block_generator::" + m for m in ("run_block_generator", "run_block_generator2", "setup_generator_args", "check_generator_quote",
                                                        "check_generator_node", "extract_n")] + [CC + "conditions::parse_single_spend"]),
 (["C01", "C02"], [CC + "conditions::process_single_spend", CC + "conditions::parse_spends"]),
 (["C08"], [CC + "spendbundle_conditions::run_spendbundle", CC + "spendbundle_conditions::get_conditions_from_spendbundle",
            CC + "spendbundle_validation::validate_clvm_and_signature", CC + "solution_generator::solution_generator",
            CC + "solution_generator::solution_generator_backrefs", CC + "solution_generator::build_generator"]),
 (["C13", "C14"], ["chia_traits::streamable::read_bytes", "chia_traits::streamable::Streamable::from_bytes", "chia_traits::streamable::Streamable::from_bytes_unchecked"]),
 (["C16"], ["chia_bls::public_key::PublicKey::from_bytes", "chia_bls::public_key::PublicKey::from_bytes_unchecked", "chia_bls::signature::Signature::from_bytes",
            "chia_bls::signature::Signature::from_bytes_unchecked", "chia_bls::secret_key::SecretKey::from_bytes"]),
 (["C17"], ["clvm_utils::tree_hash::tree_hash_from_bytes"]),
 (["C15"], ["chia_bls::bls_cache::BlsCache::py_aggregate_verify"]),
]
rows = []
for props, fns in SEL:
    for fn in fns:
        f = refusals.find(fb, fn)
        if f is None:
            print("MISSING", fn, file=sys.stderr)
            continue
        rows.append({"fn": fn, "property": props, "refusals": refusals.inventory(Body(f, fb))})
doc = {"_comment": "Rule REF (sa/rules/refusals.py): per function the reviewed inventory of refusal sites -- explicit Err/None constructions by error variant and `?` sites by the callee whose failure is forwarded. Produced from the pinned tree by tools/gen_refusals.py, reviewed, frozen; never regenerated at check time.",
       "rows": rows}
json.dump(doc, open('/verif/spec/refusals.json', 'w'), indent=1)
print(len(rows), "rows;", sum(len(r["refusals"]) for r in rows), "sites")
