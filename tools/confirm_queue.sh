#!/bin/bash
# usage: tools/confirm_queue.sh C04 C06 ...   (waits for a running confirmation, then confirms A and B of each id)
while pgrep -f confirm_seed.sh >/dev/null; do sleep 10; done
for id in "$@"; do for x in A B C; do [ -f /tmp/wt/$id.out/$x.patch.diff ] && /verif/tools/confirm_seed.sh $id $x; done; done >> /tmp/wt/confirm.log 2>&1
