#!/usr/bin/env python3
"""usage: tools/neutral_prompt.py <ID> <tag>
prints the prompt handed to an independent sub-agent that writes BEHAVIOUR-PRESERVING edits of the code a property is
anchored in (false-alarm probes).  The agent receives the property text only and a scratch worktree; nothing of the checker.
It writes /tmp/wt/<tag>.out/{A,B,C}.{patch.diff,meta.json}."""
import json, sys

pid, tag = sys.argv[1], sys.argv[2]
prop = None
for l in open("/verif/properties.jsonl"):
    p = json.loads(l)
    if p["id"] == pid:
        prop = p
wt = "/tmp/wt/%s" % tag
print("""You are helping to evaluate verification tooling for the Rust repository Chia-Network/chia_rs (Chia blockchain
consensus code). The tooling is supposed to raise an alarm ONLY when a semantic property of the code is broken. Your job is
to play a maintainer who makes ordinary, BEHAVIOUR-PRESERVING edits to the code that implements one property -- the kind of
clean-up, refactor or micro-optimisation that lands in a normal pull request -- so that we can see whether the tooling
wrongly raises an alarm on them.

Your scratch git worktree of the repository: %(wt)s   (work ONLY there; never touch /repo or /verif, never read /verif).
Build output directory: set CARGO_TARGET_DIR=%(wt)s.tgt for every cargo command. The sandbox is offline: always pass
--offline to cargo (CARGO_NET_OFFLINE=true). 16 cores are shared with other jobs: use `-j 6` on cargo commands.

The property (this text is all you get about what is being verified):

%(prop)s

TASK: produce THREE independent edits (A, B, C) to the repository's production source (not tests, not fuzz targets), in the
functions that implement the property above (the files/functions its statement is anchored in, their helpers, or the
Python-binding wrappers that expose them), each of which
  1. leaves the observable behaviour EXACTLY unchanged for every input, flag combination and call sequence: same results,
     same accept/reject decisions, same error codes, same costs, same bytes, same panics (none new, none removed). You must
     be able to argue this rigorously; if in doubt, choose a different edit. Do NOT change which inputs are accepted, do not
     change any error variant returned, do not change evaluation order of side effects that can be observed.
  2. compiles (also `cargo check -p chia_rs --offline -j 6` for the wheel when you touch py-bindings code), and the existing
     tests of the affected crate(s) pass unmodified (run e.g. `cargo test -p <crate> --offline -j 6`; for chia-bls use
     `-p chia-bls@0.45.0`; state exactly what you ran and the result).
  3. is realistic and of moderate size (about 5-40 changed lines): for example extracting a helper function or inlining
     one; turning a `match` into `if let`/`let else` or back; reordering two INDEPENDENT checks whose order cannot be
     observed (same error code, or provably disjoint conditions) -- be careful here; replacing an explicit loop by an
     equivalent iterator chain or back; renaming locals/parameters of private functions; introducing a named constant for a
     literal; replacing `x.clone()` by a borrow; early-return restructuring; splitting a long function; using
     `?` instead of an explicit `match` on a Result with the same error; computing the same value through an equivalent
     expression (e.g. `a.len() as u64 * c` vs `c * a.len() as u64`), hoisting a loop-invariant computation that has no
     side effects, swapping the operands of `==`, replacing `!(a < b)` by `a >= b`, moving a `let` closer to its use.
     A, B and C must be in DIFFERENT functions and be of DIFFERENT kinds; prefer different files. Make them substantive --
     touching the control flow or data flow of the property-relevant code -- not mere comment or whitespace changes.

Deliverables -- create the directory %(wt)s.out and write, for X in {A, B, C}:
  %(wt)s.out/X.patch.diff   `git diff` of the change (paths relative to repo root; applies with `git apply` on the
                            unmodified tree, independently of the other two)
  %(wt)s.out/X.meta.json    JSON object with keys: id ("%(pid)s-nX"), description (what was changed), files_changed,
                            equivalence_argument (why behaviour is exactly preserved, case by case),
                            existing_tests_run (list of {cmd, result})
Before finishing, verify from a clean tree (`git checkout -- . && git clean -fdq`) that each patch applies and builds, and
leave the worktree clean. Final answer: a short summary of A, B and C (files, idea).
""" % {"wt": wt, "prop": json.dumps(prop, indent=1), "pid": pid})
