#!/bin/bash
# usage: tools/mutall.sh <patch-file>    applies the patch to /repo, runs every check, reverts; prints the checks that fire
set -u
exec 9>/tmp/verif-repo.lock; flock 9   # one user of /repo at a time
PATCH=$1
cd /repo || exit 2
if ! git apply --check "$PATCH" 2>/dev/null; then echo "PATCH-DOES-NOT-APPLY $PATCH"; exit 3; fi
git apply "$PATCH"
out=$(cd /verif && ./check all 2>/dev/null)
echo "$out" | grep -A1 '^VIOLATION' | grep 'rule=' | cut -c1-230
echo "$out" | grep -E "BUILD|crash|no rule" | head -3
echo "FIRED: $(echo "$out" | grep '^VIOLATION' | sed 's/.*property=\([^ ]*\).*/\1/' | sort | uniq -c | tr '\n' ' ')"
git checkout -- . 2>/dev/null
git status --short | grep -v generator-tests | head -3
