#!/usr/bin/env python3
"""prints the markdown table of behaviour-preserving probes (DESIGN.md 9.7) from /verif/neutral/*/*"""
import glob, json, os
rows = []
for d in sorted(glob.glob("/verif/neutral/*/*")):
    if not os.path.isdir(d):
        continue
    pid, x = d.split("/")[-2:]
    def J(n):
        try:
            return json.load(open(os.path.join(d, n)))
        except Exception:
            return {}
    m, det, conf, tri = J("meta.json"), J("detected.json"), J("confirm.json"), J("triage.json")
    desc = m.get("description", "")
    if isinstance(desc, list):
        desc = " ".join(desc)
    desc = " ".join(str(desc).split())[:170]
    fired = det.get("fired", {})
    f = "; ".join("%s: %s" % (k, ", ".join(sorted(set(r.split(" ")[0] for r in v)))) for k, v in sorted(fired.items())) or "silent"
    if det.get("build_error"):
        f = "build error"
    if not det:
        f = "not run"
    rows.append("| %s/%s | %s | %s | %s | %s |" % (pid, x, desc.replace("|", "/"), {True: "yes", False: "NO"}.get(conf.get("confirmed"), "?"), f,
                                                tri.get("note", "")))
print("| probe | edit (as described by its author) | tests pass | checks that fired (last run) | triage |")
print("|---|---|---|---|---|")
print("\n".join(rows))
