#!/bin/bash
# usage: tools/confirm_neutral.sh <ID> <X>   -- confirms a behaviour-preserving edit in a scratch worktree (never in /repo):
# the patch applies, and the unmodified tests of every crate it touches still pass.  Copies patch/meta into /verif/neutral/<ID>/<X>/.
set -u
ID=$1; X=$2
SRC=/tmp/wt/${ID}n.out
WT=/tmp/wt/confirm
export CARGO_TARGET_DIR=/tmp/tgt-scratch CARGO_NET_OFFLINE=true
[ -d $WT ] || git -C /repo worktree add --detach $WT HEAD -q
cd $WT && git checkout -q -- . && git clean -fdq
DST=/verif/neutral/$ID/$X; mkdir -p $DST
cp $SRC/$X.patch.diff $DST/patch.diff; cp $SRC/$X.meta.json $DST/meta.json
git apply $SRC/$X.patch.diff || { echo "$ID $X PATCH-DOES-NOT-APPLY"; exit 0; }
PKGS=""
for f in $(git diff --name-only); do
  d=$(dirname $f); while [ "$d" != "." ] && [ ! -f $d/Cargo.toml ]; do d=$(dirname $d); done
  [ "$d" = "." ] && { PKGS="$PKGS chia"; continue; }
  n=$(grep -m1 '^name' $d/Cargo.toml | sed 's/.*"\(.*\)".*/\1/')
  [ "$n" = "chia-bls" ] && n="chia-bls@0.45.0"
  PKGS="$PKGS $n"
done
PKGS=$(echo $PKGS | tr ' ' '\n' | sort -u | tr '\n' ' ')
rc=0; log=$DST/tests.log; : > $log
for p in $PKGS; do
  if [ "$p" = "chia_rs" ]; then cargo check -p chia_rs --offline -j 8 >> $log 2>&1 || rc=1
  else cargo test -p $p --offline -j 8 >> $log 2>&1 || rc=1; fi
done
grep -E '^test result|error(\[|:)' $log | tail -20 > $DST/tests.txt; rm -f $log
git checkout -q -- . && git clean -fdq
echo "{\"packages\": \"$PKGS\", \"tests_rc\": $rc, \"confirmed\": $([ $rc -eq 0 ] && echo true || echo false)}" > $DST/confirm.json
echo "$ID $X pkgs=$PKGS tests_rc=$rc"
