#!/usr/bin/env python3
"""prints the markdown table of seeded changes (DESIGN.md 9.5) from /verif/seeded/*/*"""
import glob, json, os
rows = []
for d in sorted(glob.glob("/verif/seeded/*/*")):
    if not os.path.isdir(d):
        continue
    pid, x = d.split("/")[-2:]
    def J(n):
        try:
            return json.load(open(os.path.join(d, n)))
        except Exception:
            return {}
    m, det, conf = J("meta.json"), J("detected.json"), J("confirm.json")
    desc = m.get("description", "")
    if isinstance(desc, list):
        desc = " ".join(desc)
    desc = " ".join(str(desc).split())[:150]
    fired = det.get("fired", {})
    own = sorted(set(r.split(" ")[0] for r in fired.get(pid, [])))
    others = sorted(k for k in fired if k != pid)
    rows.append("| %s/%s | %s | %s | %s | %s |" % (pid, x, desc.replace("|", "/"), "yes" if conf.get("confirmed") else "?", ", ".join(own) or "**missed**", ", ".join(others) or "–"))
print("| seed | change (as described by its author) | demo confirmed | caught by own check (rules) | also fired |")
print("|---|---|---|---|---|")
print("\n".join(rows))
