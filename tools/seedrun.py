#!/usr/bin/env python3
"""usage: tools/seedrun.py [<ID>/<X> ...]   (default: every /verif/seeded/*/*)
Applies each seeded change to /repo (git apply), runs every check, reverts (git checkout -- .), and records which
checks fired in /verif/seeded/<ID>/<X>/detected.json.  Never commits anything to /repo."""
import glob, json, os, re, subprocess, sys

V = "/verif"


def sh(cmd, cwd=None):
    return subprocess.run(cmd, shell=True, cwd=cwd, capture_output=True, text=True)


def one(d):
    patch = os.path.join(d, "patch.diff")
    if sh("git apply --check %s" % patch, "/repo").returncode != 0:
        return {"error": "patch does not apply"}
    if sh("git status --porcelain --untracked-files=no", "/repo").stdout.strip():
        return {"error": "/repo is dirty"}
    sh("git apply %s" % patch, "/repo")
    try:
        out = sh("./check all", V).stdout
    finally:
        sh("git checkout -- .", "/repo")
    fired = {}
    lines = out.splitlines()
    for i, l in enumerate(lines):
        m = re.match(r"VIOLATION property=(\S+)", l)
        if m and i + 1 < len(lines):
            r = re.search(r"rule=(\S+) construct=(.*?)(?:  | crates/|$)", lines[i + 1])
            fired.setdefault(m.group(1), []).append("%s %s" % (r.group(1), r.group(2).strip()) if r else "?")
    build = "BUILD-ERROR" in out or "could not build" in out
    return {"fired": fired, "build_error": build}


def main():
    import fcntl
    lk = open("/tmp/verif-repo.lock", "w")
    fcntl.flock(lk, fcntl.LOCK_EX)   # one user of /repo at a time
    targets = sys.argv[1:] or sorted(x[len(V + "/seeded/"):] for x in glob.glob(V + "/seeded/*/*") if os.path.isdir(x))
    for t in targets:
        d = os.path.join(V, "seeded", t)
        r = one(d)
        own = t.split("/")[0]
        r["caught_by_own_check"] = own in r.get("fired", {})
        with open(os.path.join(d, "detected.json"), "w") as f:
            json.dump(r, f, indent=1, sort_keys=True)
        print(t, "own=%s" % r["caught_by_own_check"], {k: len(v) for k, v in r.get("fired", {}).items()}, r.get("error", ""))
    # restore freshness of the fact cache for the unchanged tree
    sh("./check C01", V)


main()
